"""C08 - nothing configured or recognised as sensitive survives cleaning (application half only)."""
from contracts.cleaner import M as CM
from contracts.provider_clean import M as SF
from contracts.cleaner_stages import PM, KM

GROUPS = [
    dict(name="cleaner", sidecars=["cleaner"], units=[(CM, "Cleaner.clean_content.<locals>._clean_line"), (CM, "Cleaner.clean_content")]),
    dict(name="stages", sidecars=["cleaner_stages"], units=[(PM, "Pattern.parse_line"), (KM, "Keyword.parse_line")]),
    dict(name="provider", sidecars=["provider_clean"], units=[(SF, "ContentProvider._clean_content"), (SF, "ContentProvider.write")],
         refinements=[((SF, "ContentProvider._clean_content"), ("Provider", "_clean_content"))]),
]
NOT_CARRIED = ["every recogniser: the regular expressions of ip.py, hostname.py, mac.py, password.py (look-around, back-references) and the "
               "str.replace chains that remove what they find - outside both solvers' theories; NOT decided",
               "'no occurrence of a keyword remains' (replace can re-create a keyword across the seam of a substitute)",
               "RawFileProvider.write copies without cleaning (documented exemption)",
               "decided here: which stage runs on which line, in which order, under which exemption; that a pattern-matching line is dropped; "
               "that what is written is exactly the cleaned content"]
