"""C18 - a playbook's signed digest covers everything but the declared dynamic parts."""
from contracts.playbook import M
from contracts.playbook_serializer import M as SM

GROUPS = [
    dict(name="verifier", sidecars=["playbook"], units=[(M, "exclude_dynamic_elements"), (M, "verify_play"), (M, "verify")]),
    dict(name="serializer", sidecars=["playbook_serializer"], strmode="z3", units=[(SM, "PlaybookSerializer._dict")]),
]
NOT_CARRIED = ["injectivity of the complete serializer (unique decodability of the rendered text), SHA-256 collision freedom, GPG",
               "PlaybookSerializer._str / _obj are an assumed rendering function; only the entry expression of _dict is under contract "
               "(a mapping key is rendered exactly like the same value)",
               "the YAML loader; get_play_revocation_list (loads and verifies the shipped list) is an assumed contract",
               "a play is modelled two levels deep (top-level mapping of nodes; a node may be a mapping of nodes)"]
