"""BOUNDED stand-in (never counted as proved) for C11: real dehydrate -> archive on disk -> real hydrate.
 (1) content: every sequence of <= L lines over a small line alphabet (empty, ascii, non-ascii, blanks, one long line) through an in-memory
     datasource provider, a text file provider and a raw file provider: loaded lines == persisted lines up to one trailing empty line;
 (2) identity: relative location under the save-as rule (none / file name / directory ending in '/'), cmd and args of a command provider;
 (3) order: a multi-output value of 4 elements keeps its order, serial and with a 4-thread pool;
 (4) tolerance: 3 entries, every subset corrupted in each of 4 ways (deleted, truncated, non-JSON, unknown component name): exactly the
     untouched entries load, hydrate never raises;
 (5) a component that failed is persisted with its errors.
usage: /venv/bin/python serde_roundtrip.py <repo root> <L> ; exit 1 + JSON line with a witness on a mismatch."""
import itertools, json, os, shutil, sys, tempfile
root_repo, L = sys.argv[1], int(sys.argv[2])
sys.path.insert(0, root_repo)
import logging
logging.disable(logging.CRITICAL)
from concurrent.futures import ThreadPoolExecutor
from insights.core import dr
from insights.core.context import HostContext
from insights.core.plugins import datasource
from insights.core.serde import Hydration
from insights.core.spec_factory import DatasourceProvider, TextFileProvider, RawFileProvider, CommandOutputProvider


def fail(**kw):
    print(json.dumps(kw, default=repr))
    sys.exit(1)


@datasource()
def one(broker):
    pass


@datasource()
def two(broker):
    pass


@datasource()
def three(broker):
    pass


@datasource(multi_output=True)
def many(broker):
    pass


LINES = ["", "a", "é 中", "  x\t ", "y" * 5000]
count = {"content": 0, "identity": 0, "order": 0, "tolerance": 0, "errors": 0}


def same_up_to_one_trailing_empty(loaded, persisted):
    return loaded == persisted or loaded + [""] == persisted


def roundtrip(comp, value, pool=None):
    tmp = tempfile.mkdtemp(prefix="c11b_")
    try:
        b = dr.Broker()
        b[comp] = value
        b.exec_times[comp] = 0.5
        Hydration(tmp, pool=pool).dehydrate(comp, b)
        loaded = Hydration(tmp).hydrate(dr.Broker())
        got = loaded.get(comp)
        for p in (got if isinstance(got, list) else [got] if got is not None else []):
            p.content        # content is loaded lazily: read it while the archive exists
        return got, tmp
    except Exception as ex:       # noqa
        shutil.rmtree(tmp, ignore_errors=True)
        raise


def lines_of(p):
    c = p.content
    return [l.decode("utf-8") if isinstance(l, bytes) else l for l in c]


# ---- (1) content
src = tempfile.mkdtemp(prefix="c11src_")
try:
    for n in range(0, L + 1):
        for seq in itertools.product(LINES, repeat=n):
            seq = list(seq)
            # in-memory datasource
            if seq:
                got, tmp = roundtrip(one, DatasourceProvider(list(seq), "mem/data.txt", ds=one))
                shutil.rmtree(tmp, ignore_errors=True)
                count["content"] += 1
                if got is None or not same_up_to_one_trailing_empty(lines_of(got), seq):
                    fail(violation="datasource content changed", persisted=seq, loaded=None if got is None else lines_of(got))
            # text file: what collection read is what analysis reads
            path = os.path.join(src, "f.txt")
            with open(path, "wb") as f:
                f.write("\n".join(seq).encode("utf-8"))
            before = TextFileProvider("f.txt", src, ds=one)
            persisted = lines_of(before)
            if persisted:
                got, tmp = roundtrip(one, before)
                shutil.rmtree(tmp, ignore_errors=True)
                count["content"] += 1
                if got is None or not same_up_to_one_trailing_empty(lines_of(got), persisted):
                    fail(violation="text file content changed", file_lines=seq, persisted=persisted, loaded=None if got is None else lines_of(got))
            if n <= 2 and seq:
                before = RawFileProvider("f.txt", src, ds=one)
                pers = before.content
                got, tmp = roundtrip(one, before)
                shutil.rmtree(tmp, ignore_errors=True)
                count["content"] += 1
                if got is None or got.content != pers:
                    fail(violation="raw file content changed", file_lines=seq)

    # ---- (2) identity and the save-as rule
    for save_as, want in ((None, "dir/data.txt"), ("other/name.txt", "other/name.txt"), ("newdir/", "newdir/data.txt")):
        got, tmp = roundtrip(one, DatasourceProvider(["x"], "dir/data.txt", save_as=save_as, ds=one))
        ok = got is not None and got.relative_path == want and os.path.exists(os.path.join(tmp, "data", want)) and lines_of(got) == ["x"]
        shutil.rmtree(tmp, ignore_errors=True)
        count["identity"] += 1
        if not ok:
            fail(violation="save-as rule (datasource)", save_as=save_as, want=want, got=None if got is None else got.relative_path)
        with open(os.path.join(src, "f.txt"), "w") as f:
            f.write("x\n")
        os.makedirs(os.path.join(src, "dir"), exist_ok=True)
        shutil.copy(os.path.join(src, "f.txt"), os.path.join(src, "dir", "data.txt"))
        before = TextFileProvider("dir/data.txt", src, ds=one, save_as=save_as)
        got, tmp = roundtrip(one, before)
        ok = got is not None and got.relative_path == want and lines_of(got) == ["x"]
        shutil.rmtree(tmp, ignore_errors=True)
        count["identity"] += 1
        if not ok:
            fail(violation="save-as rule (text file)", save_as=save_as, want=want, got=None if got is None else got.relative_path)
    cmdp = CommandOutputProvider("/bin/echo hello", HostContext(), args=("hello",), ds=one)
    before_lines = lines_of(cmdp)
    got, tmp = roundtrip(one, cmdp)
    ok = (got is not None and got.cmd == "/bin/echo hello" and list(got.args) == ["hello"] and lines_of(got) == before_lines
          and got.relative_path == os.path.join("insights_commands", cmdp.relative_path))
    shutil.rmtree(tmp, ignore_errors=True)
    count["identity"] += 1
    if not ok:
        fail(violation="command provider identity", cmd=getattr(got, "cmd", None), args=getattr(got, "args", None),
             relative_path=getattr(got, "relative_path", None))

    # ---- (3) order of multi-output values
    import threading
    others_done = threading.Event()

    def gate(provider, mode):
        """element 0 finishes being persisted only after a later element has (or after 0.5 s): completion order != element order, every time"""
        real_write = provider.write

        def write(dst):
            if mode == "wait":
                others_done.wait(0.5)
            r = real_write(dst)
            if mode == "set":
                others_done.set()
            return r
        provider.write = write
    for pool in (None, ThreadPoolExecutor(max_workers=4)):
        others_done.clear()
        value = [DatasourceProvider(["elem %d" % i] * (20000 if i == 0 else 1), "multi/e%d" % i, ds=many) for i in range(4)]
        gate(value[0], "wait")
        gate(value[3], "set")
        got, tmp = roundtrip(many, value, pool=pool)
        shutil.rmtree(tmp, ignore_errors=True)
        count["order"] += 1
        names = None if got is None else [p.relative_path for p in got]
        if names != ["multi/e%d" % i for i in range(4)]:
            fail(violation="multi-output order changed", pool=pool is not None, loaded=names)
        if pool is not None:
            pool.shutdown()

    # ---- (4) tolerance to corrupted entries
    comps = [one, two, three]
    KINDS = ["deleted", "truncated", "not-json", "unknown-name", "directory"]
    for k in range(0, 4):
        for subset in itertools.combinations(range(3), k):
            for kinds in itertools.product(KINDS, repeat=k):
                tmp = tempfile.mkdtemp(prefix="c11c_")
                try:
                    b = dr.Broker()
                    for c in comps:
                        b[c] = DatasourceProvider([dr.get_name(c)], "t/%s.txt" % c.__name__, ds=c)
                        b.exec_times[c] = 0.1
                    h = Hydration(tmp)
                    for c in comps:
                        h.dehydrate(c, b)
                    for idx, kind in zip(subset, kinds):
                        meta = os.path.join(tmp, "meta_data", dr.get_name(comps[idx]) + ".json")
                        if kind == "deleted":
                            os.remove(meta)
                        elif kind == "truncated":
                            data = open(meta).read()
                            open(meta, "w").write(data[:len(data) // 2])
                        elif kind == "not-json":
                            open(meta, "wb").write(b"\xff\xfe not json")
                        elif kind == "unknown-name":
                            doc = json.load(open(meta))
                            doc["name"] = "no.such.module.component"
                            json.dump(doc, open(meta, "w"))
                        else:
                            os.remove(meta)
                            os.mkdir(meta)
                    try:
                        loaded = Hydration(tmp).hydrate(dr.Broker())
                    except Exception as ex:
                        fail(violation="hydrate raised", corrupted=[comps[i].__name__ for i in subset], kinds=list(kinds), exc=repr(ex))
                    count["tolerance"] += 1
                    want = set(c for i, c in enumerate(comps) if i not in subset)
                    have = set(c for c in comps if c in loaded)
                    if want != have:
                        fail(violation="corrupted entry affected others", corrupted=[comps[i].__name__ for i in subset], kinds=list(kinds),
                             loaded=sorted(c.__name__ for c in have))
                finally:
                    shutil.rmtree(tmp, ignore_errors=True)

    # ---- (4b) archive detection: an archive written by collection (marker file at its top) is recognised and loaded whatever the persisted
    # files are called - including a collected file that carries the marker's own name
    from insights.core.hydration import initialize_broker
    from insights.core.context import SerializedArchiveContext
    from insights.util import fs as _fs
    for rel in ("etc/plain.txt", "var/tmp/old/insights_archive.txt", "insights_archive.txt.d/x", "deep/er/insights_archive.txt"):
        tmp = tempfile.mkdtemp(prefix="c11d_")
        try:
            b = dr.Broker()
            b[one] = DatasourceProvider(["payload"], rel, ds=one)
            b[two] = DatasourceProvider(["second"], "etc/second.txt", ds=two)
            h = Hydration(tmp)
            h.dehydrate(one, b)
            h.dehydrate(two, b)
            _fs.touch(os.path.join(tmp, "insights_archive.txt"))
            ctx, loaded = initialize_broker(tmp, broker=dr.Broker())
            count["tolerance"] += 1
            if not isinstance(ctx, SerializedArchiveContext) or os.path.realpath(ctx.root) != os.path.realpath(tmp):
                fail(violation="a collected archive is not recognised at its own root", persisted_path=rel, context=type(ctx).__name__, root=getattr(ctx, "root", None))
            if one not in loaded or two not in loaded or list(loaded[one].content) != ["payload"]:
                fail(violation="a persisted spec is missing after loading the archive", persisted_path=rel, loaded=[c.__name__ for c in (one, two) if c in loaded])
        finally:
            shutil.rmtree(tmp, ignore_errors=True)

    # ---- (4c) a filterable spec with small match budgets: every load of the archive yields the persisted lines again - loading must not
    # use up the registered filters (second load, later elements of a multi-output spec)
    from insights.core import filters as _filters
    from insights.core.spec_factory import RegistryPoint, SpecSet
    from insights.core.context import SerializedArchiveContext as _SAC
    _filters.ENABLED = True

    class FSpecs(SpecSet):
        flog = RegistryPoint(filterable=True, multi_output=True)

    @datasource()
    def flog_impl(broker):
        pass

    class FImpl(FSpecs):
        flog = flog_impl
    _filters.add_filter(FSpecs.flog, "ERROR", 5)       # budgets that one element does not use up evenly
    _filters.add_filter(FSpecs.flog, "WARN", 1)
    tmp = tempfile.mkdtemp(prefix="c11f_")
    try:
        texts = [["ERROR a%d" % i, "WARN b%d" % i, "ERROR c%d" % i] for i in range(3)]
        b = dr.Broker()
        b[FSpecs.flog] = [DatasourceProvider(list(t), "logs/f%d.log" % i, ds=FSpecs.flog) for i, t in enumerate(texts)]
        Hydration(tmp).dehydrate(FSpecs.flog, b)
        for load in (1, 2):
            lb = dr.Broker()
            ctx = _SAC(tmp)
            lb[_SAC] = ctx
            loaded = Hydration(tmp, ctx=ctx).hydrate(lb).get(FSpecs.flog) or []
            got = [list(p.content) for p in loaded]
            count["order"] += 1
            if got != texts:
                fail(violation="loading a filterable spec does not yield the persisted lines (filter budgets used up by an earlier load / element)",
                     load=load, persisted=texts, loaded=got, registry=dict(_filters.get_filters(FSpecs.flog, True)))
    finally:
        shutil.rmtree(tmp, ignore_errors=True)

    # ---- (5) a failed component is persisted with its errors
    tmp = tempfile.mkdtemp(prefix="c11e_")
    try:
        b = dr.Broker()
        try:
            raise ValueError("boom")
        except ValueError as ex:
            import traceback
            b.add_exception(one, ex, traceback.format_exc())
        Hydration(tmp).dehydrate(one, b)
        meta = os.path.join(tmp, "meta_data", dr.get_name(one) + ".json")
        count["errors"] += 1
        if not os.path.exists(meta):
            fail(violation="failed component not persisted")
        doc = json.load(open(meta))
        if not doc["errors"] or "boom" not in doc["errors"][0] or doc["results"] is not None:
            fail(violation="failed component persisted without its errors", doc=doc)
    finally:
        shutil.rmtree(tmp, ignore_errors=True)

    # ---- (5b) a value that fails WHILE BEING PERSISTED (no serializer for it): single value, and every pattern of failing elements of a
    # multi-output value of <= 3 elements.  The document keeps the surviving elements in order and one error text (a string) per failing element
    class Unserializable(object):
        pass
    from insights.core.spec_factory import DatasourceProvider as _DP
    for nel in (0, 1, 2, 3):
        for bad in itertools.product((False, True), repeat=nel):
            tmp = tempfile.mkdtemp(prefix="c11f_")
            try:
                b = dr.Broker()
                if nel == 0:
                    value = Unserializable()
                else:
                    value = [Unserializable() if bad[i] else _DP(content=["line %d" % i], relative_path="e%d" % i, ds=many) for i in range(nel)]
                comp = one if nel == 0 else many
                b[comp] = value
                Hydration(tmp).dehydrate(comp, b)
                meta = os.path.join(tmp, "meta_data", dr.get_name(comp) + ".json")
                count["errors"] += 1
                nbad = 1 if nel == 0 else sum(bad)
                if not os.path.exists(meta):
                    if nbad or nel > sum(bad):
                        fail(violation="a component with results or errors is not persisted", elements=nel, failing=list(bad))
                    continue
                doc = json.load(open(meta))
                errs = doc["errors"]
                if not isinstance(errs, list) or len(errs) != nbad or not all(isinstance(e, str) and "Traceback" in e for e in errs):
                    fail(violation="a value that failed while being persisted is not recorded with one error text per failing element",
                         elements=nel, failing=list(bad), errors=errs)
                if nel:
                    kept = [r["object"]["relative_path"] for r in (doc["results"] or [])]
                    if kept != ["e%d" % i for i in range(nel) if not bad[i]]:
                        fail(violation="multi-output order / surviving elements changed", failing=list(bad), kept=kept)
            finally:
                shutil.rmtree(tmp, ignore_errors=True)
finally:
    shutil.rmtree(src, ignore_errors=True)
print(json.dumps(dict(ok=True, max_lines=L, **count)))
