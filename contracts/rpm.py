"""Sidecar contracts for package version comparison (C13, layer 1): epoch / version / release composition, rich comparisons,
newest / oldest look-ups.  _rpm_vercmp itself is an assumed contract here (result = S(a, b), a three-valued antisymmetric comparison),
backed by the bounded exhaustive stand-in of the thorough tier."""
import collections
from pyvc.dsl import *

V = "insights/parsers/rpm_vercmp.py"
I = "insights/parsers/installed_rpms.py"
R = Ref("Rpm")
S = "uf('S', INT, {a}, {b})"
EP = "uf('int_of', INT, {x}.epoch)"
RVC = ("(0 if {a} is {b} else (0 - 1 if %s < %s else (1 if %s > %s else (%s if %s != 0 else %s))))"
       % (EP.format(x="{a}"), EP.format(x="{b}"), EP.format(x="{a}"), EP.format(x="{b}"),
          S.format(a="{a}.version", b="{b}.version"), S.format(a="{a}.version", b="{b}.version"), S.format(a="{a}.release", b="{b}.release")))
IS = "uf('is_rpm', BOOL, other)"


def declare(reg):
    reg.sort(Str=STR, Ref_Rpm=R)
    reg.cls("Rpm", pyclasses=["InstalledRpm"], **{"name": STR, "epoch": STR, "version": STR, "release": STR,
                                                  "__isinstance__": {"InstalledRpm": "uf('is_rpm', BOOL, self)"}})
    reg.external("_rpm_vercmp", params=dict(a=STR, b=STR), returns=INT, pure=True, ensures=["result == %s" % S.format(a="a", b="b")],
                 note="_rpm_vercmp(a, b) == S(a, b): assumed here; compared exhaustively with a transliteration of rpmvercmp.c in the thorough tier (bounded)")
    # S is three-valued, reflexive and antisymmetric (spec-level facts about RPM's algorithm; checked exhaustively on the bounded alphabet)
    reg.axiom("forall(a, Str, forall(b, Str, (%s == 0 - 1 or %s == 0 or %s == 1) and %s == 0 - %s))"
              % (S.format(a="a", b="b"), S.format(a="a", b="b"), S.format(a="a", b="b"), S.format(a="a", b="b"), S.format(a="b", b="a")))
    reg.axiom("forall(a, Str, %s == 0)" % S.format(a="a", b="a"))
    reg.assume("S (RPM's segment comparison) is three-valued, reflexive and antisymmetric: assumed for layer 1, exhaustively checked on a "
               "bounded alphabet in the thorough tier")
    reg.specfun("rvc", dict(a=R, b=R), INT, RVC.format(a="a", b="b"))
    reg.contract(V, "rpm_version_compare", params=dict(left=R, right=R), returns=INT,
                 raises={"ValueError": "left is not right and (not uf('int_parsable', BOOL, left.epoch) or not uf('int_parsable', BOOL, right.epoch))"},
                 ensures=["result == rvc(left, right)", "result == 0 - 1 or result == 0 or result == 1"])
    NUM = "(uf('int_parsable', BOOL, self.epoch) and uf('int_parsable', BOOL, other.epoch))"
    DIFF = "(%s and self.name != other.name)" % IS
    reg.external("rpm_version_compare", params=dict(left=R, right=R), returns=INT, pure=True, ensures=["result == rvc(left, right)"])
    common = dict(params=dict(self=R, other=R), returns=BOOL)
    OPS = {
        "__eq__": ("%s and rvc(self, other) == 0" % IS, DIFF),
        "__lt__": ("%s and rvc(self, other) < 0" % IS, DIFF),
        "__ne__": ("not (%s and rvc(self, other) == 0)" % IS, DIFF),
        "__gt__": ("%s and rvc(other, self) < 0" % IS, DIFF),
        "__ge__": ("%s and not rvc(self, other) < 0" % IS, DIFF),
        "__le__": ("%s and not rvc(other, self) < 0" % IS, DIFF),
    }
    for name, (val, err) in OPS.items():
        reg.contract(I, "InstalledRpm." + name, requires=[NUM, "uf('is_rpm', BOOL, self)"], raises={"ValueError": err}, raise_frame="unchanged",
                     ensures=["result == (%s)" % val], **common)
    reg.cls("RpmList", packages=Map(STR, List(R)))
    RL = Ref("RpmList")
    for name, better in (("get_max", "rvc(result, p) < 0"), ("get_min", "rvc(p, result) < 0")):
        reg.contract(I, "RpmList." + name, params=dict(self=RL, package_name=STR), returns=Opt(R),
                     requires=["forall(k, self.packages, forall(j, range(0, len(self.packages[k])), uf('is_rpm', BOOL, self.packages[k][j])))"],
                     raises={"ValueError": "?package_name in self.packages and len(self.packages[package_name]) == 0"},
                     ensures=["(result is None) == (package_name not in self.packages)",
                              # an element of the list no other element is newer (older) than
                              "implies(result is not None, exists(j, range(0, len(self.packages[package_name])), self.packages[package_name][j] == some(result)))",
                              "implies(result is not None, forall(j, range(0, len(self.packages[package_name])), "
                              "        not (%s)))" % better.replace("result", "some(result)").replace("p)", "self.packages[package_name][j])").replace("(p,", "(self.packages[package_name][j],")])
