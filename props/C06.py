"""C06 - collection stays in its root, honours the deny list, writes only to the archive."""
from contracts.providers import SF, BL

GROUPS = [dict(name="validate", sidecars=["providers"], strmode="z3", units=[
    (BL, "allow_file"), (BL, "allow_command"), (SF, "FileProvider.validate"), (SF, "CommandOutputProvider.validate")])]
Z3_TIMEOUT = 40
CVC5_TIMEOUT = 60
NOT_CARRIED = ["os.path.realpath, os.path.exists, glob, shlex, which: assumed contracts of the OS / library (realpath: absolute, no trailing "
               "slash unless the root directory; the location the kernel opens)",
               "factory typestate (every provider a factory returns went through validate): the datasource factories' __call__ methods are "
               "not under contract in this revision",
               "destination shape of persisted content (serializers, mangle_command) and '..' inside relative paths re-joined under the "
               "output directory: not under contract",
               "apply_blacklist (translation of the user's redaction config into deny entries)"]


def bounded(check):
    """bounded stand-in / native witness search for deny-list matching and root containment"""
    import json, os, subprocess
    n = 3 if check.tier == "quick" else 4
    here = os.path.dirname(os.path.dirname(os.path.abspath(__file__)))
    p = subprocess.run(["/venv/bin/python", os.path.join(here, "bounded", "blacklist_exhaustive.py"), check.repo.root, str(n)],
                       stdout=subprocess.PIPE, stderr=subprocess.PIPE, universal_newlines=True, timeout=3000)
    line = (p.stdout.strip().splitlines() or ["{}"])[-1]
    try:
        info = json.loads(line)
    except ValueError:
        info = {"error": (p.stderr or p.stdout)[-400:]}
    out = dict(name="allow_file / allow_command == the deny rule; a path whose real location is outside the root is refused", level="bounded",
               bound="deny lists of <= 2 entries (length <= 3) x candidates up to length %d over {a, b, space, /}; 11 layouts ('..', sibling sharing the "
                     "root's prefix, absolute / relative / directory symlinks)" % n,
               result=info, violation=(p.returncode == 1), error=(p.returncode not in (0, 1)))
    if p.returncode == 1:
        os.makedirs(os.path.join(here, "replays"), exist_ok=True)
        path = os.path.join(here, "replays", "C06-bounded.json")
        json.dump(dict(obligation="bounded:deny-list-and-containment", witness=info,
                       replay_cmd="/venv/bin/python %s %s %d" % (os.path.join(here, "bounded", "blacklist_exhaustive.py"), check.repo.root, n)),
                  open(path, "w"), indent=1)
        out["replay"] = path
    return [out]
