# A filterable spec whose only filter starts with a dash ("-k"): the host-side `grep -F <patterns> file` took the pattern for options and the
# collected content became grep's usage text instead of the matching lines.
import os, shutil, sys, tempfile
sys.path.insert(0, os.getcwd())
from insights.core import dr, filters
from insights.core.context import HostContext
from insights.core.spec_factory import RegistryPoint, SpecSet, simple_file
filters.ENABLED = True
tmp = tempfile.mkdtemp(prefix="c07r_")
try:
    path = os.path.join(tmp, "audit.rules")
    lines = ["## rules", "-w /etc/passwd -p wa -k identity", "noise", "-a always,exit -k time-change"]
    open(path, "w").write("\n".join(lines) + "\n")

    class Specs(SpecSet):
        rules = RegistryPoint(filterable=True)

    class Impl(Specs):
        rules = simple_file(path)
    filters.add_filter(Specs.rules, "-k")
    broker = dr.Broker()
    broker[HostContext] = HostContext()
    try:
        got = list(Impl.rules(broker).content)
    except Exception as ex:
        got = "raised %r" % ex
    want = [l for l in lines if "-k" in l]
    print("collected:", got)
    sys.exit(0 if got == want else 1)
finally:
    shutil.rmtree(tmp, ignore_errors=True)
