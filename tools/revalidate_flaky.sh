#!/bin/bash
# re-run serially the spec/collect tests that flake under xdist, for every seeded patch that showed "new" failures
IN=${1:-/verif/seeded/_incoming}; OUT=${2:-/tmp/seedval}
WT=/tmp/vw_seed2
git -C /repo worktree remove --force $WT 2>/dev/null
git -C /repo worktree add --detach $WT HEAD >/dev/null 2>&1 || exit 3
cd $WT
for r in $OUT/*.result; do
  grep -q "new_failures=\[\]" $r && continue
  base=$(basename $r .result); id=${base%.*}; X=${base#*.}
  git checkout -q -- . ; git clean -fdq
  git apply $IN/$id/$X.diff || continue
  /venv/bin/python -m pytest -q -p no:cacheprovider --timeout=900 insights/tests/specs insights/tests/tools/test_apply_spec_filters.py 2>&1 | tail -3 > $OUT/$id.$X.serial.txt
  echo "$id $X serial: $(tail -1 $OUT/$id.$X.serial.txt)" >> $OUT/serial_summary.txt
done
git checkout -q -- . ; git clean -fdq
/venv/bin/python -m pytest -q -p no:cacheprovider --timeout=900 insights/tests/specs insights/tests/tools/test_apply_spec_filters.py 2>&1 | tail -1 > $OUT/pristine.serial.txt
cd /; git -C /repo worktree remove --force $WT
echo DONE >> $OUT/serial_summary.txt
