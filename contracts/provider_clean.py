"""Sidecar contracts for ContentProvider._clean_content / content / write in insights/core/spec_factory.py (C08, C10)."""
import collections
from pyvc.dsl import *
from contracts import cleaner as CL

M = "insights/core/spec_factory.py"
P = Ref("Provider")


def declare(reg):
    CL.declare(reg)
    reg.exc_files.append("insights/core/exceptions.py")
    reg.cls("Ctx", __isinstance__={"HostContext": "uf('is_host_context', BOOL, self)"})
    reg.cls("DS", no_redact=BOOL, no_obfuscate=List(STR))
    reg.cls("Provider", pyclasses=["ContentProvider"], ctx=Ref("Ctx"), ds=Opt(Ref("DS")), cleaner=Opt(Ref("Cleaner")), _filterable=BOOL,
            _filters=Map(STR, INT), relative_path=STR, root=STR, _content=Opt(List(STR)), _exception=Opt(EXC), loaded=BOOL)
    reg.glob(M, DEFAULT_OBFUSCATIONS=Set(STR))
    for n in ("log.debug", "log.info", "log.warning"):
        reg.external(n, drop=True)
    reg.interface("Provider", "content", params=dict(self=P), returns=List(STR), raises={"Exception": None}, raise_frame="unchanged",
                  modifies=["Provider._content", "Provider._exception"],
                  ensures=["implies(uf('is_host_context', BOOL, self.ctx), len(result) >= 1)"],
                  note="ContentProvider.content (verified separately): under a host context empty content raises ContentException")
    reg.interface("Provider", "path", params=dict(self=P), returns=STR, pure=True, raises={})
    reg.interface("Provider", "load", params=dict(self=P), returns=List(STR), raises={"Exception": None}, raise_frame="unchanged")
    WF_CLEANER = [t.replace("self.", "some(self.cleaner).") for t in reg.contracts[(CL.M, "Cleaner.clean_content")].requires]
    HOST = "(uf('is_host_context', BOOL, self.ctx) and self.ds is not None and self.cleaner is not None)"
    ANY = ("(not some(self.ds).no_redact or set(some(self.ds).no_obfuscate) != DEFAULT_OBFUSCATIONS or self._filterable)")
    reg.contract(M, "ContentProvider._clean_content", params=dict(self=P), returns=List(STR),
                 assume=["implies(self.cleaner is not None, %s)" % " and ".join("(%s)" % t for t in WF_CLEANER),
                         # datasource delegates carry no_redact / no_obfuscate as class attributes
                         "implies(self.ds is not None, uf('hasattr_no_redact', BOOL, some(self.ds)) and uf('hasattr_no_obfuscate', BOOL, some(self.ds)))"],
                 note="a Cleaner object satisfies its own representation invariant (one stage object per role), established by Cleaner.__init__",
                 modifies=["Provider._content", "Provider._exception", "Stage.state"],
                 locals=dict(cleans=List(STR), g_no_obf=List(STR), g_allow=Opt(Map(STR, INT))),
                 ghosts=collections.OrderedDict(ncalls=(INT, "0"), g_no_red=(BOOL, "False"), g_no_obf=(List(STR), "[]"),
                                                g_allow=(Opt(Map(STR, INT)), "None"), g_in=(List(STR), "[]")),
                 ghost_on=[("content = self.cleaner.clean_content(content, no_obfuscate=no_obf, allowlist=allowlist, no_redact=no_red, "
                            "width=self.relative_path.endswith('netstat_-neopa'))",
                            "ncalls = ncalls + 1; g_no_red = truthy(no_red); g_no_obf = no_obf; g_allow = allowlist; g_in = content", "before")],
                 ghost_final=dict(last=(List(STR), "result")),
                 raises={"Exception": None},
                 ensures=[
                     # during host collection with a cleaner and a datasource the content goes through clean_content exactly once,
                     # with the datasource's own exemptions and the allow-list iff the spec is filterable
                     "implies(%s and %s, ncalls == 1)" % (HOST, ANY),
                     "implies(ncalls == 1, g_no_red == some(self.ds).no_redact)",
                     "implies(ncalls == 1, seq_eq(g_no_obf, some(self.ds).no_obfuscate))",
                     "implies(ncalls == 1, (g_allow is None) == (not self._filterable) and implies(self._filterable, g_allow == self._filters))",
                     "implies(not %s, ncalls == 0)" % HOST,
                     # a spec left empty by cleaning is an error, not an empty result
                     "implies(ncalls == 1, len(result) >= 1)",
                     "implies(uf('is_host_context', BOOL, self.ctx), len(result) >= 1)",
                 ])

    reg.contract(M, "ContentProvider.content", params=dict(self=P), returns=List(STR),
                 modifies=["Provider._content", "Provider._exception"], raises={"Exception": None},
                 ensures=["implies(uf('is_host_context', BOOL, self.ctx), len(result) >= 1)"])
    # write(): what is persisted is exactly the cleaned content joined by newlines
    reg.external("fs.ensure_path", params=dict(p=PY), drop=True)
    reg.external("os.path.dirname", params=dict(p=STR), returns=PY, pure=True)
    reg.cls("File", data=STR)
    reg.external("open", params=dict(path=STR, mode=STR), returns=Ref("File"), note="open(dst, 'wb') as a context manager: trusted")
    reg.interface("File", "write", params=dict(self=Ref("File"), data=STR), modifies=["File.data"], raises={"Exception": None},
                  ensures=["self.data == data"])
    reg.glob(M, six=U("Mod"))
    reg.cls("Mod", PY3=BOOL)
    reg.interface("Provider", "_clean_content", params=dict(self=P), returns=List(STR),
                  modifies=["Provider._content", "Provider._exception", "Stage.state"], raises={"Exception": None},
                  ghost_final=dict(last=(List(STR), "result")), ensures=[])
    reg.contract(M, "ContentProvider.write", params=dict(self=P, dst=STR),
                 modifies=["Provider._content", "Provider._exception", "Stage.state", "File.data", "Provider.loaded"],
                 ghosts=dict(gw=(STR, "''"), nw=(INT, "0")), locals=dict(gw=STR, nw=INT),
                 ghost_on=[("f.write(content)", "gw = content; nw = nw + 1", "before")],
                 raises={"Exception": None},
                 ensures=["nw == 1",
                          "gw == uf('str_join', STR, '\\n', _clean_content_last) or gw == uf('str_encode', STR, uf('str_join', STR, '\\n', _clean_content_last), 'utf-8')"])
