"""C09 - obfuscation is a consistent mapping, injective for IPs and hosts, and reported."""
import collections
from contracts.obfuscators import IP, HN, MAC
from pyvc.dsl import Map, INT, STR

KM = "insights/cleaner/keyword.py"
SIDECARS = ["obfuscators"]
UNITS = [
    (IP, "IPv4._ip2db"), (IP, "IPv4.mapping"),
    (HN, "Hostname._hn2db"), (HN, "Hostname.mapping"),
    (MAC, "Mac._mac2db"), (MAC, "Mac.mapping"),
    (IP, "IPv6._ip2db"), (IP, "IPv6.mapping"),
    (KM, "Keyword.mapping"),
]
# C09-L1 (contracts only): in a database whose values are pairwise distinct per key (the invariant every _ip2db call preserves)
# two originals with different numbers have different keys, hence different substitutes when int2ip is injective
LEMMAS = [dict(
    name="C09-L1-ipv4-injective",
    decls=collections.OrderedDict(db=Map(INT, INT), ka=INT, kb=INT),
    hyps=["forall(a, db, forall(b, db, implies(db[a] == db[b], a == b)))", "ka in db and kb in db", "db[ka] != db[kb]",
          "forall(x, Int, forall(y, Int, implies(uf('int2ip', STR, x) == uf('int2ip', STR, y), x == y)))"],
    goals=["uf('int2ip', STR, ka) != uf('int2ip', STR, kb)"]),
    dict(name="C09-L2-consistent",
         decls=collections.OrderedDict(db=Map(INT, INT), ka=INT, kb=INT),
         hyps=["forall(a, db, forall(b, db, implies(db[a] == db[b], a == b)))", "ka in db and kb in db", "db[ka] == db[kb]"],
         goals=["ka == kb"])]
NOT_CARRIED = ["the textual substitution on the line (str.replace chains in parse_line), including collisions between an issued substitute "
               "and a later original on one line",
               "hash functions (sha1) and inet_aton / inet_ntoa are assumed deterministic / mutually inverse",
               "Hostname.__init__ (the system's own name enters the database at construction) and parse_line are not under contract",
               "that the invariants hold over any call history is the pre/post pair of each *_2db function (induction over the history is the meta-step)"]
