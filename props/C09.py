"""C09 - obfuscation is a consistent mapping, injective for IPs and hosts, and reported."""
import collections
from contracts.obfuscators import IP, HN, MAC
from pyvc.dsl import Map, INT, STR

KM = "insights/cleaner/keyword.py"
SIDECARS = ["obfuscators"]
UNITS = [
    (IP, "IPv4._ip2db"), (IP, "IPv4.mapping"),
    (HN, "Hostname._hn2db"), (HN, "Hostname.mapping"),
    (MAC, "Mac._mac2db"), (MAC, "Mac.mapping"),
    (IP, "IPv6._ip2db"), (IP, "IPv6.mapping"),
    (KM, "Keyword.mapping"),
    # the constructors establish the database invariants the *_2db functions preserve (base case of the induction over the call history)
    (HN, "Hostname.__init__"), (HN, "Hostname._domains2db"), (IP, "IPv4.__init__"),
]
# C09-L1 (contracts only): in a database whose values are pairwise distinct per key (the invariant every _ip2db call preserves)
# two originals with different numbers have different keys, hence different substitutes when int2ip is injective
LEMMAS = [dict(
    name="C09-L1-ipv4-injective",
    decls=collections.OrderedDict(db=Map(INT, INT), ka=INT, kb=INT),
    hyps=["forall(a, db, forall(b, db, implies(db[a] == db[b], a == b)))", "ka in db and kb in db", "db[ka] != db[kb]",
          "forall(x, Int, forall(y, Int, implies(uf('int2ip', STR, x) == uf('int2ip', STR, y), x == y)))"],
    goals=["uf('int2ip', STR, ka) != uf('int2ip', STR, kb)"]),
    dict(name="C09-L2-consistent",
         decls=collections.OrderedDict(db=Map(INT, INT), ka=INT, kb=INT),
         hyps=["forall(a, db, forall(b, db, implies(db[a] == db[b], a == b)))", "ka in db and kb in db", "db[ka] == db[kb]"],
         goals=["ka == kb"])]
NOT_CARRIED = ["the textual substitution on the line (str.replace chains in parse_line), including collisions between an issued substitute "
               "and a later original on one line",
               "hash functions (sha1) and inet_aton / inet_ntoa are assumed deterministic / mutually inverse",
               "Hostname.__init__ / IPv4.__init__ are under contract (they establish the database invariants: exactly the system's own name under its hashed "
               "substitute; an empty IPv4 database); the parse_line methods (textual substitution) are not",
               "that the invariants hold over any call history: established by the constructors (Hostname, IPv4), preserved by each *_2db function (pre/post pair); "
               "induction over the history is the meta-step"]


def _bounded0(check):
    """bounded stand-in / native witness search on the real Cleaner for the parts outside the contracts (textual substitution on the line)"""
    import json, os, subprocess
    n = 2 if check.tier == "quick" else 3
    here = os.path.dirname(os.path.dirname(os.path.abspath(__file__)))
    p = subprocess.run(["/venv/bin/python", os.path.join(here, "bounded", "obfuscation_mapping.py"), check.repo.root, str(n)],
                       stdout=subprocess.PIPE, stderr=subprocess.PIPE, universal_newlines=True, timeout=3000)
    line = (p.stdout.strip().splitlines() or ["{}"])[-1]
    try:
        info = json.loads(line)
    except ValueError:
        info = {"error": (p.stderr or p.stdout)[-400:]}
    out = dict(name="same original -> same substitute; different IPv4 / host names -> different substitutes; the report pairs what the output shows",
               level="bounded", bound="every sequence of <= %d lines over 48-68 line shapes (1-2 of 8 originals per line), two specs through one Cleaner; the RHSM facts mapping for 2 spellings of one MAC / IPv6 address, IPv4 and host names" % n,
               result=info, violation=(p.returncode == 1), error=(p.returncode not in (0, 1)))
    if p.returncode == 1:
        os.makedirs(os.path.join(here, "replays"), exist_ok=True)
        path = os.path.join(here, "replays", "C09-bounded.json")
        json.dump(dict(obligation="bounded:obfuscation-mapping", witness=info,
                       replay_cmd="/venv/bin/python %s %s %d" % (os.path.join(here, "bounded", "obfuscation_mapping.py"), check.repo.root, n)),
                  open(path, "w"), indent=1)
        out["replay"] = path
    return [out]


def bounded(check):
    from props._xcheck import xcheck
    return list(_bounded0(check)) + [xcheck(check, ["obfuscators"], "obfuscators")]
