"""python3 tools/fill_seeded_meta.py <dir with <id>.txt outputs of try_seeded.sh> : record in seeded/<id>/meta.json what the property's
check reported on the changed tree (verdict, reporting obligations), and a one-line summary taken from the agent's notes."""
import glob, json, os, re, sys
HERE = os.path.dirname(os.path.dirname(os.path.abspath(__file__)))
out = sys.argv[1]
for mp in sorted(glob.glob(os.path.join(HERE, "seeded", "C*-*", "meta.json"))):
    d = os.path.dirname(mp)
    sid = os.path.basename(d)
    m = json.load(open(mp))
    notes = open(os.path.join(d, "notes.md")).read() if os.path.exists(os.path.join(d, "notes.md")) else ""
    letter = sid.split("-")[1]
    letter = {"C": "A", "D": "B", "E": "A", "F": "B", "G": "A", "H": "B", "I": "A", "J": "B"}.get(letter, letter) if m.get("round") in (2, 3, 4, 5) else letter      # later rounds' agents called their changes A and B
    heads = [l for l in notes.splitlines() if re.match(r"^#+\s*(%s\b|Mutant %s|Mutation %s|Change %s|Patch %s)" % ((letter,) * 5), l)]
    m["summary"] = re.sub(r"^#+\s*", "", heads[0]).strip() if heads else m.get("summary", "")
    p = os.path.join(out, sid + ".txt")
    if os.path.exists(p):
        txt = open(p).read()
        ex = re.findall(r"-> exit (\d)", txt)
        code = int(ex[-1]) if ex else None
        obls = re.findall(r"obligation=(\S+)", txt) + re.findall(r"bounded-check=(.*)", txt)
        errs = re.findall(r"CHECKER-ERROR (.*)", txt)
        verdict = {0: "missed (exit 0)", 1: "VIOLATION (exit 1)", 2: "undecided (exit 2)", 3: "checker error (exit 3): changed code outside the accepted subset / drift",
                   None: "no verdict: " + txt.strip()[:120]}[code]
        m["detected_by"] = {"check": "./check %s" % m["property_id"], "verdict": verdict, "exit": code,
                            "by": "; ".join(sorted(set(o.strip()[:120] for o in obls))[:6]) or ("; ".join(e[:160] for e in errs[:2])),
                            "n_reporting": len(set(obls))}
    json.dump(m, open(mp, "w"), indent=1)
print("filled")
