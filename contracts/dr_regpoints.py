"""Sidecar for C03 (loaded after contracts/dr.py): get_registry_points under contract instead of assumed - every component an exception may be
recorded against besides the failing one is a registry point that the component implements (reachable through dependents, for a datasource) or
is built on (reachable through dependencies, otherwise).  `reach` is an abstract relation closed under one step (axioms true of the transitive
closure).  No repository code here."""
from pyvc.dsl import *
from contracts.dr import M, Comp

REACH = "uf('reach', BOOL, {up}, {c}, {r})"
DIR = "(some(datasource) if datasource is not None else uf('is_ds', BOOL, component))"


def declare(reg):
    reg.externals.pop("get_registry_points", None)          # in this group the function is verified, not assumed
    reg.external("is_registry_point", params=dict(component=Comp), returns=BOOL, pure=True, raises={}, ensures=["result == uf('is_rp', BOOL, component)"],
                 note="is_registry_point: a test on the component's type name")
    reg.external("is_datasource", params=dict(component=Comp), returns=BOOL, pure=True, raises={}, ensures=["result == uf('is_ds', BOOL, component)"])
    reg.sort(Bool=BOOL)
    for up, nb in (("True", "dependents_of"), ("False", "deps_of")):
        reg.axiom("forall(c, Comp, forall(r, Comp, implies(r in %s(c), %s)))" % (nb, REACH.format(up=up, c="c", r="r")))
        reg.axiom("forall(c, Comp, forall(d, Comp, forall(r, Comp, implies(d in %s(c) and %s, %s))))"
                  % (nb, REACH.format(up=up, c="d", r="r"), REACH.format(up=up, c="c", r="r")))
    reg.assume("reach(up, c, r): r is reachable from c through dependents (up) / dependencies (not up) in one or more steps - only closure under a "
               "step is used")
    INV = ["forall(r, reg_points, uf('is_rp', BOOL, r) and %s)" % REACH.format(up="datasource0", c="component", r="r"),
           "not uf('is_rp', BOOL, component)"]
    POST = ["forall(r, result, uf('is_rp', BOOL, r))",
            "implies(uf('is_rp', BOOL, component), result == single(component))",
            "forall(r, result, r == component or %s)" % REACH.format(up=DIR.replace("datasource", "old(datasource)"), c="component", r="r")]
    reg.contract(M, "get_registry_points", params=dict(component=Comp, datasource=Opt(BOOL)), defaults=dict(datasource="None"), returns=Set(Comp),
                 locals=dict(reg_points=Set(Comp), dep_reg_pts=Set(Comp)), empties=dict(set=Set(Comp)),
                 loops={0: [t.replace("datasource0", "True") for t in INV], 1: [t.replace("datasource0", "False") for t in INV]},
                 raises={}, ensures=POST,
                 note="recursive: its own contract at the recursive calls (termination on an acyclic registry not proved)")
