"""C19 - parser combinators implement ordered-choice PEG semantics."""
from contracts.parsr import M

T = "insights/core/taglang.py"
SIDECARS = ["parsr"]
_CLASSES = ["AnyChar", "Char", "InSet", "Sequence", "Choice", "Many", "FollowedBy", "NotFollowedBy", "KeepLeft", "KeepRight", "Opt",
            "Wrapper", "Forward", "EOF", "Literal", "Until", "Map", "String", "PosMarker", "Lift"]
_BUILDERS = ["Parser.__add__", "Parser.__or__", "Parser.__lshift__", "Parser.__rshift__", "Parser.__and__", "Parser.__truediv__", "Parser.until",
             "Parser.map", "Node.add_child", "Sequence.__add__", "Choice.__or__", "Parser._accumulate"]
UNITS = [(M, c + ".process") for c in _CLASSES] + [(M, b) for b in _BUILDERS] + [(T, "Not.test"), (T, "And.test"), (T, "Or.test")]
NOT_CARRIED = ["the comment / indentation / tag-name / hanging-string parsers are not under contract in this revision; Literal: positions and the "
               "match condition for both case modes, the value only for the case-sensitive mode and for an explicit value",
               "the _ParserMeta debug wrapper (_debug_hook) around every process()",
               "the interface P.process (ok/npos/val) is the denotation each class's contract DEFINES by its equation; that a grammar built from these classes computes the composed denotation: structural induction over grammar terms (meta-step)",
               "the shipped grammars as wholes (JSON example grammar vs json; tag language precedence as parsed): whole-grammar language "
               "equivalence is not decided deductively - bounded stand-ins only (they found the fixed defects 445b74d and d0eb441); taglang: only "
               "And/Or/Not.test are under contract; the operator overloads / until / map / add_child that build the combinators and sep_by's accumulator are under contract (class, children, order; constructors assumed to store their arguments); the sep_by expression itself (Lift * Opt * Many) is not",
               "termination of Many over non-consuming children (excluded by the property's own quantifier)"]


def _bounded0(check):
    """bounded stand-ins: (a) the shipped tag-expression grammar against boolean evaluation under the stated precedence; (b) every small grammar
    term against a reference PEG interpreter, and the shipped JSON grammar against json.loads"""
    import json, os, subprocess
    here = os.path.dirname(os.path.dirname(os.path.abspath(__file__)))
    outs = []
    n = 3 if check.tier == "quick" else 4
    jobs = [("taglang.parse(e).test(tags) == boolean evaluation under ! > & > (| ,)", "taglang_exhaustive.py", [str(n)],
             "all expressions with <= %d tags from {a,b,c}, optional !, parentheses nested once, all 8 tag sets" % n, "C19-bounded.json",
             lambda info: "/venv/bin/python -c 'from insights.core.taglang import parse; print(parse(%r).test(%r))'" % (info.get("expr"), info.get("tags"))),
            ("every grammar term == reference PEG interpreter (accept / value / position); JSON example grammar == json.loads", "peg_small_scope.py",
             ["3", "quick" if check.tier == "quick" else "full"],
             "terms of depth <= 2 over 6 leaves and 8 combinators (%s) + 339 terms written with the operators + | << >> & / , until, sep_by, String, inputs over {a,b} up to length 3; 93 JSON documents + 6 malformed"
             % ("every third depth-1 term as a sub-term" if check.tier == "quick" else "all"), "C19-bounded-peg.json", None)]
    for name, script, args, bound, rfile, cmdf in jobs:
        p = subprocess.run(["/venv/bin/python", os.path.join(here, "bounded", script), check.repo.root] + args,
                           stdout=subprocess.PIPE, stderr=subprocess.PIPE, universal_newlines=True, timeout=6000)
        line = (p.stdout.strip().splitlines() or ["{}"])[-1]
        try:
            info = json.loads(line)
        except ValueError:
            info = {"error": (p.stderr or p.stdout)[-400:]}
        out = dict(name=name, level="bounded", bound=bound, result=info, violation=(p.returncode == 1), error=(p.returncode not in (0, 1)))
        if p.returncode == 1:
            os.makedirs(os.path.join(here, "replays"), exist_ok=True)
            path = os.path.join(here, "replays", rfile)
            cmd = cmdf(info) if cmdf else "/venv/bin/python %s %s %s" % (os.path.join(here, "bounded", script), check.repo.root, " ".join(args))
            json.dump(dict(obligation="bounded:" + script, witness=info, replay_cmd=cmd), open(path, "w"), indent=1)
            out["replay"] = path
        outs.append(out)
    return outs


def bounded(check):
    from props._xcheck import xcheck
    return list(_bounded0(check)) + [xcheck(check, ['parsr'], 'parsr')]
