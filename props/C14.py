"""C14 - base parsers accept well-formed content and reject bad content as documented."""
import ast
from contracts.core_parsers import M

SIDECARS = ["core_parsers"]
UNITS = [(M, "CommandParser.validate_lines"), (M, "CommandParser.__init__"), (M, "JSONParser.parse_content"), (M, "YAMLParser.parse_content"),
         (M, "TextFileOutput.get"), (M, "TextFileOutput.__contains__"),
         (M, "TextFileOutput._valid_search.<locals>.<lambda>#0"), (M, "TextFileOutput._valid_search.<locals>.<lambda>#1")]


def static_checks(repo):
    """the bad-line phrases are compared against lower-cased output: every literal must be lower case itself ('any letter case')"""
    mod = repo.module(M)
    out = []
    for name in ("CommandParser.__bad_single_lines", "CommandParser.__bad_lines"):
        vals = ast.literal_eval(mod.constant(name))
        bad = [v for v in vals if v != v.lower()]
        out.append(dict(name="%s::%s/static:lowercase" % (M, name), ok=not bad, clause="every phrase equals its lower-case form",
                        detail="literals re-read from source: %r; not lower case: %r" % (vals, bad)))
    return out


NOT_CARRIED = ["json.loads / yaml.load are uninterpreted functions of the text (or raise)",
               "TextFileOutput.get / _valid_search / __contains__ (line search) and LogFileOutput.get_after (time-based search: regular "
               "expression from the format, 330-day year inference) are not under contract in this revision",
               "'valid JSON preceded by noise lines beginning with [' (the start-line heuristic is verified as written)"]
