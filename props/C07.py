"""C07 - filtered specs keep exactly the lines that match a registered filter."""
from contracts.filters import M as F
from contracts.cleaner_filters import M as CF

GROUPS = [
    dict(name="registry", sidecars=["filters"], units=[
        (F, "get_filters.<locals>.inner"), (F, "get_filters"),
        (F, "add_filter.<locals>.none_max"), (F, "add_filter.<locals>.get_dependency_datasources"),
        (F, "add_filter.<locals>.inner"), (F, "add_filter"),
    ]),
    dict(name="content", sidecars=["cleaner_filters"], units=[(CF, "AllowFilter.filter_content")]),
]
NOT_CARRIED = ["grep -F on the host (external program; dash-leading / newline-bearing patterns)",
               "add_filter with a single string or a set (verified for a list of strings)",
               "budgets on key collisions (max of the two; the later update wins for with_matches): only key sets and positivity are specified",
               "refusal to collect a filterable spec without filters is FileProvider/CommandOutputProvider.validate (C06)",
               "that any finite history of registrations and look-ups keeps the cache coherent is the invariant COH "
               "(pre/post of get_filters and add_filter); induction over the history is the meta-step",
               "`line in` containment is an uninterpreted predicate (any characters are covered; no string theory involved)"]
