"""C01 - components run at most once, after their dependencies; seeds are never recomputed or overwritten."""
from contracts.dr import M, TS

SIDECARS = ["dr"]
UNITS = [
    (M, "Broker.__contains__"),
    (M, "Broker.__setitem__"),
    (M, "Broker.__getitem__"),
    (M, "Broker.get"),
    (M, "run_components"),
]
LEMMAS = []
NOT_CARRIED = ["a component body that itself writes Broker.instances (bodies are an assumed contract)"]
