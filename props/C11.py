"""C11 - what collection persists is what analysis loads."""
from contracts.serde import M

SIDECARS = ["serde"]
SF = "insights/core/spec_factory.py"
UNITS = [(M, "Hydration.hydrate"), (M, "Hydration._hydrate_one"), (M, "unmarshal"), (M, "deserialize")] + \
        [(SF, n) for n in ("serialize_command_output", "serialize_text_file_provider", "serialize_raw_file_provider", "serialize_datasource_provider",
                           "serialize_container_file_output", "serialize_container_command", "deserialize_command_output",
                           "deserialize_text_provider", "deserialize_raw_file_provider", "deserialize_datasource_provider",
                           "deserialize_container_file", "deserialize_container_command")]
NOT_CARRIED = ["line content equality (join / split of lines through a file): induction over lists of strings that neither solver does; covered by "
               "the bounded round trip only (labelled bounded)",
               "marshal (partial / map / pool.map over a nested function) and dehydrate (heterogeneous document literal, conditional expression "
               "statements) are not under contract: element order through marshal, 'a failed component is persisted with its errors' and "
               "the document written iff results or errors are covered by the bounded round trip only",
               "ContentProvider.write / load, FileProvider / SerializedOutputProvider constructors: assumed contracts (store their arguments, "
               "write to the path given)",
               "json.dump / json.load: assumed the identity up to tuple -> list; os.path.join / basename / glob / open: uninterpreted, deterministic",
               "archive detection and broker seeding (hydration.py, dr.run seeding branch): covered by C01's contracts on run_components "
               "(a component already in the broker is not recomputed), not repeated here",
               "unmarshal is seen by _hydrate_one as a deterministic function `um` (its own contract is verified separately: verify_only)"]


def bounded(check):
    """bounded stand-in: the real dehydrate -> archive -> hydrate round trip on small contents, save-as variants, corruption patterns"""
    import json, os, subprocess
    n = 4 if check.tier == "quick" else 6
    here = os.path.dirname(os.path.dirname(os.path.abspath(__file__)))
    p = subprocess.run(["/venv/bin/python", os.path.join(here, "bounded", "serde_roundtrip.py"), check.repo.root, str(n)],
                       stdout=subprocess.PIPE, stderr=subprocess.PIPE, universal_newlines=True, timeout=3000)
    line = (p.stdout.strip().splitlines() or ["{}"])[-1]
    try:
        info = json.loads(line)
    except ValueError:
        info = {"error": (p.stderr or p.stdout)[-400:]}
    out = dict(name="dehydrate/hydrate round trip: content lines, save-as rule, cmd/args, multi-output order (serial and pooled), corruption tolerance, "
                    "errors persisted", level="bounded",
               bound="all sequences of <= %d lines over 5 line shapes x (datasource, text file[, raw file]); 3 save-as variants; 4-element multi-output; every pattern of elements failing while being persisted (<= 3 elements); "
                     "3 entries x every subset x 5 corruption kinds" % n,
               result=info, violation=(p.returncode == 1), error=(p.returncode not in (0, 1)))
    if p.returncode == 1:
        os.makedirs(os.path.join(here, "replays"), exist_ok=True)
        path = os.path.join(here, "replays", "C11-bounded.json")
        json.dump(dict(obligation="bounded:serde-roundtrip", witness=info,
                       replay_cmd="/venv/bin/python %s %s %d" % (os.path.join(here, "bounded", "serde_roundtrip.py"), check.repo.root, n)),
                  open(path, "w"), indent=1)
        out["replay"] = path
    outs = [out]
    p2 = subprocess.run(["/venv/bin/python", os.path.join(here, "bounded", "factories_destinations.py"), check.repo.root],
                        stdout=subprocess.PIPE, stderr=subprocess.PIPE, universal_newlines=True, timeout=3000)
    line2 = (p2.stdout.strip().splitlines() or ["{}"])[-1]
    try:
        info2 = json.loads(line2)
    except ValueError:
        info2 = {"error": (p2.stderr or p2.stdout)[-400:]}
    out2 = dict(name="every factory x save-as form: persisted elements are loaded back with their own lines, in order, beneath the output directory", level="bounded",
                bound="7 factories (simple_file, first_file, glob_file, foreach_collect, simple_command, command_with_args, foreach_execute) x 7 forms of "
                      "save_as (none, name, directory, leading '/', absolute inside / outside the work area), real HostContext, real dehydrate / hydrate",
                result=info2, violation=(p2.returncode == 1), error=(p2.returncode not in (0, 1)))
    if p2.returncode == 1:
        os.makedirs(os.path.join(here, "replays"), exist_ok=True)
        path2 = os.path.join(here, "replays", "C11-bounded-factories.json")
        json.dump(dict(obligation="bounded:factories-destinations", witness=info2,
                       replay_cmd="/venv/bin/python %s %s" % (os.path.join(here, "bounded", "factories_destinations.py"), check.repo.root)), open(path2, "w"), indent=1)
        out2["replay"] = path2
    outs.append(out2)
    return outs
