"""C01 - components run at most once, after their dependencies; seeds are never recomputed or overwritten."""
import collections
from contracts.dr import M, TS, Comp, RC_POST, TF_POST_GRAPH, RO_POST
from pyvc.dsl import List, Map, Set, INT, Ref

SIDECARS = ["dr"]
UNITS = [
    (TS, "toposort"),
    (TS, "toposort_flatten"),
    (M, "run_order"),
    (M, "Broker.__contains__"),
    (M, "Broker.__setitem__"),
    (M, "Broker.__getitem__"),
    (M, "Broker.get"),
    (M, "run_components"),
    (M, "run@evaluate"),
    (M, "walk_dependencies.<locals>.visit"), (M, "walk_dependencies"), (M, "get_dependency_graph.<locals>.visitor"),
]

# C01-L1: contracts only.  `ordered` is what run_order returned for `graph`; att/attpos is the attempt log that
# run_components' postcondition describes for that order.
_ro = [t.replace("old(graph)", "graph").replace("result", "ordered") for t in TF_POST_GRAPH if "lvl" not in t] + \
      [t.replace("old(graph)", "graph").replace("result", "ordered") for t in RO_POST]
_rc = [t.replace("ordered_components", "ordered").replace("old(broker.instances)", "seeds").replace("broker.instances", "final")
       for t in RC_POST if "attidx" not in t]
LEMMAS = [dict(
    name="C01-L1",
    module=M,
    decls=collections.OrderedDict(graph=Map(Comp, Set(Comp)), ordered=List(Comp), att=List(Comp), attpos=List(INT),
                                  seeds=Map(Comp, INT), final=Map(Comp, INT)),
    hyps=_ro + _rc,
    goals=[
        # at most once
        "distinct(att)",
        # never before a declared dependency that takes part: such a dependency sits at an earlier position of the
        # executed order, i.e. its loop iteration (run, skip or failure) is over
        "forall(a, range(0, len(att)), forall(b, range(0, len(ordered)), "
        "  implies(att[a] in graph and ordered[b] in graph[att[a]] and ordered[b] != att[a], b < attpos[a])))",
        # seeds are not attempted and keep their value
        "forall(j, range(0, len(att)), att[j] not in seeds)",
        "forall(c, seeds, c in final and final[c] == seeds[c])",
    ])]
NOT_CARRIED = ["a component body that itself writes Broker.instances (bodies are an assumed contract)",
               "dr.run: the body from the SerializedArchiveContext pruning branch to the end is under contract (run@evaluate: at most once, a "
               "dependency never attempted after its dependent, seeds kept, the evaluated graph is a sub-graph of the given one); the three "
               "argument-normalisation lines before it (default group, determine_components, default broker) are not executed",
               "dependency closure: walk_dependencies, its recursive visit and the visitor of get_dependency_graph are under contract (the walked graph is "
               "closed under declared dependencies and contains the target; the real visitor records exactly the edge parent -> child); the rest of "
               "get_dependency_graph's body (registration test, dict(graph), adding empty entries for leaf components) is not executed; termination of "
               "the recursive walk on an acyclic registry is not proved"]


def _bounded0(check):
    """bounded stand-in / native witness search: the real dr.run on every small dependency graph against a reference evaluation"""
    import json, os, subprocess
    here = os.path.dirname(os.path.dirname(os.path.abspath(__file__)))
    args = ["3"] + (["full"] if check.tier != "quick" else [])
    p = subprocess.run(["/venv/bin/python", os.path.join(here, "bounded", "dr_small_scope.py"), check.repo.root] + args,
                       stdout=subprocess.PIPE, stderr=subprocess.PIPE, universal_newlines=True, timeout=6000)
    line = (p.stdout.strip().splitlines() or ["{}"])[-1]
    try:
        info = json.loads(line)
    except ValueError:
        info = {"error": (p.stderr or p.stdout)[-400:]}
    out = dict(name="real dr.run == reference evaluation (at most once, after dependencies, seeds kept, fires iff requirements met, arguments in "
                    "declaration order, faults contained and accounted)", level="bounded",
               bound="every graph of <= 3 plain components (per earlier component: none / required / optional / one of two at-least-one groups / "
                     "required and grouped) x outcomes (value%s, skip, crash) x {nothing, failing observer, one disabled, one seeded with a value, one "
                     "seeded with None, partial graph} x store_skips; dependency closure of every graph of <= 5 components, and again after a dependency was "
                     "added to a component of the closure (<= 4); priority attributes on components" % (", None" if check.tier != "quick" else ""),
               result=info, violation=(p.returncode == 1), error=(p.returncode not in (0, 1)))
    if p.returncode == 1:
        os.makedirs(os.path.join(here, "replays"), exist_ok=True)
        path = os.path.join(here, "replays", "%s-bounded.json" % check.pid)
        json.dump(dict(obligation="bounded:dr-small-scope", witness=info,
                       replay_cmd="/venv/bin/python %s %s %s" % (os.path.join(here, "bounded", "dr_small_scope.py"), check.repo.root, " ".join(args))),
                  open(path, "w"), indent=1)
        out["replay"] = path
    outs = [out]
    # 'at most once' also for the incremental / pooled drivers (with one component disabled): the scheduling stand-in counts body invocations
    n = "3" if check.tier == "quick" else "4"
    p = subprocess.run(["/venv/bin/python", os.path.join(here, "bounded", "dr_scheduling.py"), check.repo.root, n],
                       stdout=subprocess.PIPE, stderr=subprocess.PIPE, universal_newlines=True, timeout=6000)
    line = (p.stdout.strip().splitlines() or ["{}"])[-1]
    try:
        info = json.loads(line)
    except ValueError:
        info = {"error": (p.stderr or p.stdout)[-400:]}
    out2 = dict(name="every body runs at most once, and equally often, under single pass / incremental / shared broker / pooled evaluation", level="bounded",
                bound="every graph of <= %s plain components x outcomes (value, crash) x {none, one component disabled}" % n,
                result=info, violation=(p.returncode == 1), error=(p.returncode not in (0, 1)))
    if p.returncode == 1:
        path = os.path.join(here, "replays", "%s-bounded-sched.json" % check.pid)
        json.dump(dict(obligation="bounded:dr-scheduling", witness=info,
                       replay_cmd="/venv/bin/python %s %s %s" % (os.path.join(here, "bounded", "dr_scheduling.py"), check.repo.root, n)), open(path, "w"), indent=1)
        out2["replay"] = path
    outs.append(out2)
    return outs


def bounded(check):
    from props._xcheck import xcheck
    return list(_bounded0(check)) + [xcheck(check, ['dr'], 'dr')]
