#!/bin/bash
# run every claimed quick check under several (VERIF_HASHSEED, VERIF_SEED) pairs; print anything that is not "exit 0"
cd /verif
for pair in "1 7" "2 42" "3 1234" "${@}"; do
  set -- $pair
  for p in $(python3 -c "import json; print(' '.join(c['property_id'] for c in json.load(open('MANIFEST.json'))['checks']))"); do
    r=$(VERIF_HASHSEED=$1 VERIF_SEED=$2 timeout 3000 ./check $p 2>&1 | tail -1 | cut -c1-150)
    echo "hash=$1 seed=$2 $r"
  done
done
git -C /verif checkout -- evidence 2>/dev/null
echo SWEEP-DONE
