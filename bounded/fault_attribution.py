"""BOUNDED stand-in / native witness search for the accounting clause of C03 with datasources, specs (registry points), parsers and combiners
(never counted as proved): a small spec world - two specs with one implementation each, one built on a helper datasource; a stand-alone helper
datasource; a multi-output spec; parsers on the specs; combiners mixing them - and every placement of one fault (arbitrary exception, content
error, deliberate skip) on every datasource / parser, skip recording on and off.  Checked: no exception escapes; the fault is recorded, with a
traceback, against the component that raised it or against a spec it implements or is built on - and against NOTHING else; a deliberate skip is
recorded only with skip recording on and then against the skipping component itself; components that do not depend on the faulty one keep
their value.
usage: /venv/bin/python fault_attribution.py <repo root> ; exit 1 + JSON line with a witness."""
import itertools, json, sys
root = sys.argv[1]
sys.path.insert(0, root)
import logging
logging.disable(logging.CRITICAL)
from insights.core import dr, Parser
from insights.core.exceptions import ContentException, SkipComponent
from insights.core.plugins import combiner, datasource, parser
from insights.core.spec_factory import DatasourceProvider, RegistryPoint, SpecSet


def fail(**kw):
    print(json.dumps(kw, default=repr))
    sys.exit(1)


FAULT = {}


def maybe_fail(name):
    k = FAULT.get(name)
    if k == "arbitrary":
        raise ValueError("%s blew up" % name)
    if k == "content":
        raise ContentException("%s has no content" % name)
    if k == "skip":
        raise SkipComponent()


class Specs(SpecSet):
    alpha = RegistryPoint()
    beta = RegistryPoint()
    multi = RegistryPoint(multi_output=True)


@datasource()
def base_helper(broker):
    maybe_fail("base_helper")
    return "base"


@datasource()
def lone_helper(broker):
    maybe_fail("lone_helper")
    return "lone"


@datasource()
def alpha_impl(broker):
    maybe_fail("alpha_impl")
    return DatasourceProvider("alpha data", "/w/alpha")


@datasource(base_helper)
def beta_impl(broker):
    maybe_fail("beta_impl")
    return DatasourceProvider("beta data", "/w/beta")


@datasource()
def multi_impl(broker):
    maybe_fail("multi_impl")
    return [DatasourceProvider("m%d" % i, "/w/m%d" % i) for i in range(3)]


class Impl(Specs):
    alpha = alpha_impl
    beta = beta_impl
    multi = multi_impl


class P(Parser):
    def parse_content(self, content):
        maybe_fail(type(self).__name__)
        if FAULT.get(type(self).__name__ + ":elem") and "m1" in content[0]:
            raise ValueError("element 1 is bad")


AlphaP = parser(Specs.alpha)(type("AlphaP", (P,), {}))
BetaP = parser(Specs.beta)(type("BetaP", (P,), {}))
MultiP = parser(Specs.multi)(type("MultiP", (P,), {}))


@combiner(Specs.alpha, optional=[lone_helper])
def mixes_spec_and_helper(a, h):
    return ("mix", h)


@combiner(AlphaP, optional=[BetaP, MultiP])
def top(a, b, m):
    return "top"


@combiner(base_helper)
def on_shared_helper(h):
    # built on the plain helper that beta's implementation is built on as well: its own failure is nobody else's
    maybe_fail("on_shared_helper")
    return "osh"


@combiner(on_shared_helper, optional=[lone_helper])
def above_shared(o, l):
    maybe_fail("above_shared")
    return "above"


BY = {"base_helper": base_helper, "lone_helper": lone_helper, "alpha_impl": alpha_impl, "beta_impl": beta_impl, "multi_impl": multi_impl,
      "AlphaP": AlphaP, "BetaP": BetaP, "MultiP": MultiP, "on_shared_helper": on_shared_helper, "above_shared": above_shared}
# where a fault of X may be recorded: X itself, or a spec X implements or is built on
ALLOWED = {"base_helper": {base_helper, Specs.beta}, "lone_helper": {lone_helper}, "alpha_impl": {alpha_impl, Specs.alpha}, "beta_impl": {beta_impl, Specs.beta},
           "multi_impl": {multi_impl, Specs.multi}, "AlphaP": {AlphaP, Specs.alpha}, "BetaP": {BetaP, Specs.beta}, "MultiP": {MultiP, Specs.multi},
           "on_shared_helper": {on_shared_helper}, "above_shared": {above_shared}}
# who loses its value when X fails (X itself and everything that REQUIRES it, transitively); everything else must still have a value
LOSES = {"on_shared_helper": {on_shared_helper, above_shared}, "above_shared": {above_shared},
         "base_helper": {base_helper, beta_impl, Specs.beta, BetaP, on_shared_helper, above_shared}, "lone_helper": {lone_helper}, "alpha_impl": {alpha_impl, Specs.alpha, AlphaP, mixes_spec_and_helper, top},
         "beta_impl": {beta_impl, Specs.beta, BetaP}, "multi_impl": {multi_impl, Specs.multi, MultiP}, "AlphaP": {AlphaP, top}, "BetaP": {BetaP}, "MultiP": {MultiP}}
EVERYTHING = [base_helper, lone_helper, alpha_impl, beta_impl, multi_impl, Specs.alpha, Specs.beta, Specs.multi, AlphaP, BetaP, MultiP, mixes_spec_and_helper, top,
              on_shared_helper, above_shared]
graph = {}
for t in (top, mixes_spec_and_helper, above_shared):
    graph.update(dr.get_dependency_graph(t))
n = 0
for where, kind, store_skips in itertools.product(sorted(BY), ("arbitrary", "content", "skip"), (False, True)):
    FAULT.clear()
    FAULT[where] = kind
    broker = dr.Broker()
    broker.store_skips = store_skips
    try:
        dr.run(dict(graph), broker=broker)
    except Exception as ex:
        fail(violation="an exception escaped the evaluation", fault_at=where, kind=kind, exc=repr(ex))
    n += 1
    ctx = dict(fault_at=where, kind=kind, store_skips=store_skips)
    recorded = set(c for c, excs in broker.exceptions.items() if excs)
    names = sorted(dr.get_name(c) for c in recorded)
    if kind == "skip":
        want = {BY[where]} if store_skips else set()
        if recorded != want:
            fail(violation="a deliberate skip is recorded against the wrong components (or recorded with skip recording off)", recorded=names, **ctx)
    else:
        if not recorded:
            fail(violation="a fault was recorded nowhere", **ctx)
        if not recorded <= ALLOWED[where]:
            fail(violation="a fault is recorded against a component that neither raised it nor is a spec it implements or is built on", recorded=names,
                 allowed=sorted(dr.get_name(c) for c in ALLOWED[where]), **ctx)
        for c, excs in broker.exceptions.items():
            for e in excs:
                if not broker.tracebacks.get(e):
                    fail(violation="a recorded exception has no traceback", component=dr.get_name(c), **ctx)
    for c in EVERYTHING:
        if c not in LOSES[where] and c not in broker:
            fail(violation="a component that does not depend on the faulty one lost its value", component=dr.get_name(c), **ctx)
# ---- one bad element of a multi-output spec: the other elements are parsed, the fault is recorded against the parser
for store_skips in (False, True):
    FAULT.clear()
    FAULT["MultiP:elem"] = True
    broker = dr.Broker()
    broker.store_skips = store_skips
    dr.run(dict(graph), broker=broker)
    n += 1
    recorded = set(c for c, excs in broker.exceptions.items() if excs)
    if not ({MultiP} <= recorded <= {MultiP, Specs.multi}) or MultiP not in broker or len(broker[MultiP]) != 2:
        fail(violation="one failing element of a multi-output parser: wrong accounting or the other elements were lost", recorded=sorted(dr.get_name(c) for c in recorded),
             parsed=len(broker[MultiP]) if MultiP in broker else None, store_skips=store_skips)
print(json.dumps({"ok": True, "placements": n}))
