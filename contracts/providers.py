"""Sidecar contracts for path / command validation on provider construction and the deny list (C06); string theory."""
import collections
from pyvc.dsl import *

SF = "insights/core/spec_factory.py"
BL = "insights/core/blacklist.py"
P = Ref("Provider")
WITHIN = "({p} == {r} or {r} == '/' or ({r} + '/') == {p}[0:len({r}) + 1])"     # p is r or lies beneath r
DENIED = "exists(f, {S}, {c} == f or {c}.startswith(f + ' '))"


def declare(reg):
    reg.sort(Str=STR)
    reg.exc_files.append("insights/core/exceptions.py")
    reg.glob(BL, _FILE_FILTERS=Set(STR), _COMMAND_FILTERS=Set(STR))
    reg.contract(BL, "allow_file", params=dict(c=STR), returns=BOOL, raises={},
                 ensures=["result == (not %s)" % DENIED.format(S="_FILE_FILTERS", c="c")])
    reg.contract(BL, "allow_command", params=dict(c=STR), returns=BOOL, raises={},
                 ensures=["result == (not %s)" % DENIED.format(S="_COMMAND_FILTERS", c="c")])

    # ------------------------------------------------------------------ providers
    reg.cls("Ctx", __isinstance__={"HostContext": "uf('is_host_context', BOOL, self)"})
    reg.cls("Provider", pyclasses=["FileProvider", "CommandOutputProvider"], ctx=Ref("Ctx"), ds=U("Comp"), root=STR, relative_path=STR,
            _filterable=BOOL, _filters=Map(STR, INT), cmd=STR, _env=PY)
    reg.cls("Comp", __truthy__=True)
    for n in ("log.warning", "log.debug", "log.info"):
        reg.external(n, drop=True)
    reg.interface("Provider", "path", params=dict(self=P), returns=STR, pure=True, raises={},
                  ensures=["result == uf('path_join', STR, self.root, self.relative_path)"])
    reg.external("os.path.exists", params=dict(p=STR), returns=BOOL)
    reg.external("os.access", params=dict(p=STR, mode=None), returns=BOOL)
    reg.external("os.R_OK", returns=INT, pure=True)
    reg.external("dr.get_name", params=dict(c=None), returns=STR, pure=True)
    REAL = "uf('realpath', STR, {p})"
    reg.external("os.path.realpath", params=dict(p=STR), returns=STR, pure=True, ensures=["result == %s" % REAL.format(p="p")])
    # os.path.realpath: absolute, no trailing slash unless it is the root directory itself (assumed contract of the OS function)
    reg.axiom("forall(p, Str, uf('realpath', STR, p)[0:1] == '/' and (uf('realpath', STR, p) == '/' or not uf('realpath', STR, p).endswith('/')))")
    reg.external("os.path.join", params=dict(a=STR, b=STR), returns=STR, pure=True,
                 ensures=["result == ((a if a.endswith('/') else a + '/') + b if not b.startswith('/') else b)"],
                 note="os.path.join(a, b) for a relative b: a, a separator unless a already ends with one, then b")
    reg.external("blacklist.allow_file", params=dict(c=STR), returns=BOOL, pure=True, ensures=["result == (not %s)" % DENIED.format(S="uf('file_deny', Set(STR))", c="c")])
    reg.external("blacklist.allow_command", params=dict(c=STR), returns=BOOL, pure=True, ensures=["result == (not %s)" % DENIED.format(S="uf('cmd_deny', Set(STR))", c="c")])
    HOST = "uf('is_host_context', BOOL, self.ctx)"
    PATH = "uf('path_join', STR, self.root, self.relative_path)"
    reg.contract(SF, "FileProvider.validate", params=dict(self=P),
                 raises={"ContentException": None, "BlacklistedSpec": None, "Exception": None,
                         "NoFilterException": "?%s and self._filterable and not truthy(self._filters)" % HOST},
                 ensures=[
                     # containment: what the kernel would open lies at or beneath the real root (sibling directories sharing a name
                     # prefix with the root are outside)
                     WITHIN.format(p=REAL.format(p=PATH), r=REAL.format(p="self.root")),
                     # during host collection: never a denied file, never a filterable spec without filters
                     "implies(%s, not %s)" % (HOST, DENIED.format(S="uf('file_deny', Set(STR))", c="('/' + self.relative_path)")),
                     "implies(%s and self._filterable, truthy(self._filters))" % HOST,
                 ])
    reg.external("shlex.split", params=dict(s=STR), returns=List(STR), pure=True, ensures=["len(result) >= 1"],
                 note="shlex.split of a non-empty command line has at least one word (an empty command raises IndexError in the real code)")
    reg.external("which", params=dict(cmd=STR, env=PY), returns=PY)
    reg.contract(SF, "CommandOutputProvider.validate", params=dict(self=P),
                 raises={"ContentException": None, "BlacklistedSpec": None,
                         "NoFilterException": "?%s and self._filterable and not truthy(self._filters)" % HOST},
                 ensures=["implies(%s, not %s)" % (HOST, DENIED.format(S="uf('cmd_deny', Set(STR))", c="self.cmd")),
                          "implies(%s and self._filterable, truthy(self._filters))" % HOST])
    # other os.path functions a change might reach for: arbitrary (unrelated to realpath unless stated)
    for n in ("os.path.islink", "os.path.isfile", "os.path.isdir", "os.path.isabs"):
        reg.external(n, params=dict(p=STR), returns=BOOL, pure=True, ensures=["result == uf('%s', BOOL, p)" % n.replace(".", "_")])
    for n in ("os.path.normpath", "os.path.abspath", "os.path.basename", "os.path.dirname", "os.path.expanduser"):
        reg.external(n, params=dict(p=STR), returns=STR, pure=True, ensures=["result == uf('%s', STR, p)" % n.replace(".", "_")])
