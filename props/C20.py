"""C20 - configuration-tree queries return exactly the matching nodes."""
from contracts.query import M, B

SIDECARS = ["query"]
UNITS = [(M, "compile_queries.<locals>.match"), (M, "compile_queries.<locals>.inner"), (M, "_flatten.<locals>.inner"), (M, "_flatten"),
         (M, "Entry.root"), (M, "select"),
         (B, "Any.test"), (B, "All.test"), (B, "Not.test"), (B, "Predicate.test"), (B, "CaselessPredicate.test"),
         (M, "_AllAttrQuery.test"), (M, "_AnyAttrQuery.test"), (M, "ChildQuery.test"),
         (M, "_desugar_name.<locals>.predicate"), (M, "_desugar_attr.<locals>.predicate")] + \
        [(M, "_desugar_name.<locals>.<lambda>#%d" % k) for k in range(3)] + \
        [(M, "_desugar_attr.<locals>.<lambda>#0"), (M, "_desugar_attrs.<locals>.<lambda>#0"), (M, "_desugar.<locals>.<lambda>#0"),
         (M, "_desugar.<locals>.<lambda>#1")]
NOT_CARRIED = ["interpreted == compiled (Boolean.to_pyfunc / _EntryQuery.to_pyfunc): the compiled evaluator is text built by recursion and exec-ed, "
               "not source the verifier reads; covered only by the bounded stand-in (labelled bounded), which found the fixed defect 235dd9b",
               "which closure _desugar_name/_desugar_attr/_desugar_attrs/_desugar return for which kind of query (the dispatch on isinstance): "
               "each returned closure is verified as a unit, the dispatch is not under contract",
               "Entry.select/find/__getitem__, Result.select/__getitem__, ConfigComponent.select/find: *args/**kwargs forwarding to compile_queries/select "
               "(outside the subset); exercised by the bounded stand-in only",
               "MM (level-by-level matching) and pre (document order) are DEFINED as the results of match / _flatten.inner; what is proved is their "
               "defining equations (structural induction over the query list / the tree is the meta-step); termination on acyclic trees is assumed",
               "a Result is identified with the list of its children; nodes are immutable in the functions under contract"]


def bounded(check):
    """bounded stand-in: interpreted vs compiled boolean terms, and select/find against a reference on all small forests"""
    import json, os, subprocess
    n, d = (3, 2) if check.tier == "quick" else (3, 3)
    here = os.path.dirname(os.path.dirname(os.path.abspath(__file__)))
    p = subprocess.run(["/venv/bin/python", os.path.join(here, "bounded", "query_exhaustive.py"), check.repo.root, str(n), str(d)],
                       stdout=subprocess.PIPE, stderr=subprocess.PIPE, universal_newlines=True, timeout=3000)
    line = (p.stdout.strip().splitlines() or ["{}"])[-1]
    try:
        info = json.loads(line)
    except ValueError:
        info = {"error": (p.stderr or p.stdout)[-400:]}
    out = dict(name="interpreted == compiled boolean terms; select/find == reference on small forests", level="bounded",
               bound="boolean terms of depth <= %d over 10 leaves (incl. eq / ieq, startswith / istartswith over one argument) on 7 values; every forest with <= %d nodes (names a/b, attrs (), (1,), (1,2), (x,), (x,1); 19 queries incl. raising callables in attribute positions), "
                     "13 one-level and 20 two-level queries, deep x roots" % (d, n),
               result=info, violation=(p.returncode == 1), error=(p.returncode not in (0, 1)))
    if p.returncode == 1:
        os.makedirs(os.path.join(here, "replays"), exist_ok=True)
        path = os.path.join(here, "replays", "C20-bounded.json")
        json.dump(dict(obligation="bounded:query==reference", witness=info,
                       replay_cmd="/venv/bin/python %s %s %d %d" % (os.path.join(here, "bounded", "query_exhaustive.py"), check.repo.root, n, d)),
                  open(path, "w"), indent=1)
        out["replay"] = path
    return [out]
