"""BOUNDED stand-in (never counted as proved): the real _rpm_vercmp against the spec S for all pairs of strings over a small
alphabet up to a length bound, plus reflexivity / antisymmetry / (sampled) transitivity of the real function on the same set.
usage: /venv/bin/python rpm_vercmp_exhaustive.py <repo root> <max len> ; exit 1 + JSON line with a witness on a mismatch."""
import itertools, json, sys, os
root, maxlen = sys.argv[1], int(sys.argv[2])
sys.path.insert(0, root)
sys.path.insert(0, os.path.join(os.path.dirname(os.path.abspath(__file__)), "..", "specs"))
from rpmvercmp_spec import S
from insights.parsers.rpm_vercmp import _rpm_vercmp
ALPHA = "01ab.~^é"
strings = [""]
for n in range(1, maxlen + 1):
    strings += ["".join(t) for t in itertools.product(ALPHA, repeat=n)]
pairs = 0
val = {}
for a in strings:
    for b in strings:
        r = _rpm_vercmp(a, b)
        pairs += 1
        if r != S(a, b):
            print(json.dumps({"violation": "real != S", "a": a, "b": b, "real": r, "spec": S(a, b), "pairs": pairs}))
            sys.exit(1)
        val[(a, b)] = r
for a in strings:
    if val[(a, a)] != 0:
        print(json.dumps({"violation": "not reflexive", "a": a})); sys.exit(1)
    for b in strings:
        if val[(a, b)] != -val[(b, a)]:
            print(json.dumps({"violation": "not antisymmetric", "a": a, "b": b})); sys.exit(1)
# transitivity of <= on all triples of the (smaller) set of strings up to maxlen-1
small = [s for s in strings if len(s) <= max(1, maxlen - 1)]
triples = 0
for a in small:
    for b in small:
        if val[(a, b)] > 0:
            continue
        for c in small:
            triples += 1
            if val[(b, c)] <= 0 and val[(a, c)] > 0:
                print(json.dumps({"violation": "not transitive", "a": a, "b": b, "c": c})); sys.exit(1)
# long structured versions (the property names multi-digit numbers, leading zeros, several segments, separators, markers): every
# concatenation of <= 3 tokens from a fixed token set, all pairs - still bounded, but beyond any short-string enumeration
TOKENS = ["1", "10", "010", "9", "0000000010", "00000000010", "12345678901", "1234567890", "0000000001", "a", "ab", "B", ".", "-", "_", "~", "^", "é", "rc1", "00"]
longs = set()
for n in (1, 2, 3):
    for t in itertools.product(TOKENS, repeat=n):
        longs.add("".join(t))
longs = sorted(longs)
import random
rnd = random.Random(int(os.environ.get("VERIF_SEED", "0")))
lpairs = [(a, b) for a in longs[::7] for b in longs[::11]] + [(rnd.choice(longs), rnd.choice(longs)) for _ in range(40000)]
for a, b in lpairs:
    r = _rpm_vercmp(a, b)
    pairs += 1
    if r != S(a, b):
        print(json.dumps({"violation": "real != S (long structured versions)", "a": a, "b": b, "real": r, "spec": S(a, b), "pairs": pairs}))
        sys.exit(1)
    if r != -_rpm_vercmp(b, a):
        print(json.dumps({"violation": "not antisymmetric (long structured versions)", "a": a, "b": b})); sys.exit(1)


# ---------------------------------------------------------------- packages: epoch / version / release composition, the six operators, max / min
from insights.parsers.installed_rpms import InstalledRpm, InstalledRpms
from insights.parsers.rpm_vercmp import rpm_version_compare


class SubRpm(InstalledRpm):          # parsers derive their own package classes; comparisons across them must agree as well
    pass


def ref_cmp(a, b):
    ea, eb = int(a["epoch"]), int(b["epoch"])
    if ea != eb:
        return -1 if ea < eb else 1
    r = S(a["version"], b["version"])
    return r if r else S(a["release"], b["release"])


def sign(x):
    return (x > 0) - (x < 0)


EPOCHS = ["0", "1", "2", "9", "10", "32", "100"]
VERS = ["1.0", "1.10", "1.9", "2"]
RELS = ["1", "2.el8", "10.el8"]
pkgs = [dict(name="pkg", epoch=e, version=v, release=r, arch="x86_64") for e in EPOCHS for v in VERS for r in RELS]
objs = [(InstalledRpm(dict(p)), p) for p in pkgs] + [(SubRpm(dict(p)), p) for p in pkgs[::5]]
npk = 0
for (x, px) in objs:
    for (y, py) in objs:
        npk += 1
        want = ref_cmp(px, py)
        got = sign(rpm_version_compare(x, y))
        if got != want:
            print(json.dumps({"violation": "rpm_version_compare disagrees with epoch / version / release order", "a": px, "b": py, "got": got, "want": want}))
            sys.exit(1)
        ops = {"<": x < y, "==": x == y, ">": x > y, "<=": x <= y, ">=": x >= y, "!=": x != y}
        exp = {"<": want < 0, "==": want == 0, ">": want > 0, "<=": want <= 0, ">=": want >= 0, "!=": want != 0}
        if ops != exp:
            print(json.dumps({"violation": "the rich comparison operators do not agree with the order", "a": px, "b": py, "classes": [type(x).__name__, type(y).__name__],
                              "operators": ops, "expected": exp}))
            sys.exit(1)
for trio in itertools.permutations(objs[::9], 3):
    items = [o for o, _ in trio]
    best = max(trio, key=lambda t: (int(t[1]["epoch"]),))        # coarse reference: the maximum epoch must win when it is unique
    if [int(t[1]["epoch"]) for t in trio].count(int(best[1]["epoch"])) == 1 and max(items) is not best[0]:
        print(json.dumps({"violation": "max() does not return the newest package", "packages": [t[1] for t in trio]}))
        sys.exit(1)
print(json.dumps({"ok": True, "strings": len(strings), "pairs": pairs, "triples": triples, "alphabet": ALPHA, "maxlen": maxlen, "package_pairs": npk}))
