import sys
sys.path.insert(0,'/verif')
from pyvc import run as R
from pyvc.source import Repo
import z3
def get(sidecars, unit, suffix, scope=None, strmode="opaque"):
    reg = R.load_registry(sidecars)
    units=[k for k in reg.contracts if k[1]==unit]
    eng, results = R.generate(reg, units, [], Repo(), scope=scope, strmode=strmode)
    if results[0].error: print("ERR", results[0].error)
    return [o for o in results[0].obls if o.name.endswith(suffix)]
if __name__ == "__main__":
    obls = get(sys.argv[1].split(','), sys.argv[2], sys.argv[3])
    for o in obls[:int(sys.argv[4]) if len(sys.argv)>4 else 1]:
        print("TRACE", o.trace)
        print("GOAL", o.goal)
        for h in o.hyps: print("HYP", h)

def dump(o, path):
    s = z3.Solver(); s.add(*o.hyps); s.add(z3.Not(o.goal))
    open(path,'w').write("(set-logic ALL)\n"+s.to_smt2())
