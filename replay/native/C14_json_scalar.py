# A scalar JSON document used to be accepted by JSONParser (YAMLParser rejects the same document).
import sys, os
sys.path.insert(0, os.getcwd())
from insights.core import JSONParser
from insights.core.exceptions import ParseException
from insights.tests import context_wrap
try:
    p = JSONParser(context_wrap("42"))
    print("accepted scalar document, data =", repr(p.data)); sys.exit(1)
except ParseException as e:
    print("rejected:", e); sys.exit(0)
