"""Sidecar contracts for spec resolution (C05): RegistryPoint.__call__, _register_context_handler, add_ignore, add_dependency."""
import collections
from pyvc.dsl import *
from contracts.dr import Comp, Val, M as DR

M = "insights/core/spec_factory.py"
SC = Ref("SpecCls")
HT = Map(STR, Map(Comp, List(Comp)))       # context_handlers: spec name -> context -> handlers in registration order
IGN = "forall(x, Comp, forall(y, Comp, implies(x in old(IGNORE) and y in old(IGNORE)[x], x in IGNORE and y in IGNORE[x])))"


def WF(h, ig="IGNORE"):
    """every handler of a context except the most recently registered one ignores that context"""
    return ("forall(n, Str, forall(c, Comp, implies(n in {h} and c in {h}[n], forall(i, range(0, len({h}[n][c])), forall(j, range(0, len({h}[n][c])), "
            "implies(i < j, {h}[n][c][i] in {ig} and c in {ig}[{h}[n][c][i]]))))))").format(h=h, ig=ig)


NAME = "uf('attr_Comp___name__', STR, component)"
TGT = "parents[len(parents) - 1]"       # the class the handlers are registered on (last parent that knows the name)
CUR = "%s.context_handlers" % TGT
H0 = "at_old(%s, 'context_handlers')" % TGT
ROW0 = "row0(" + H0 + ", name, {x})"
OTHERS_SAME = "forall(p, Ref_SC, implies(p != %s, p.context_handlers == old(p.context_handlers)))" % TGT
ROWS_SAME = ("forall(n, Str, implies(n != name, (n in ctx_handlers) == (n in %s) and implies(n in %s, ctx_handlers[n] == %s[n])))" % (H0, H0, H0))
UNTOUCHED = ("forall(x, Comp, implies(forall(j, range(0, {n}), it_0[j] != x), "
             "  (name in ctx_handlers and x in ctx_handlers[name]) == (name in %s and x in %s[name]) and "
             "  implies(name in ctx_handlers and x in ctx_handlers[name], ctx_handlers[name][x] == %s[name][x])))" % (H0, H0, H0))
DONE = ("forall(j, range(0, {n}), name in ctx_handlers and it_0[j] in ctx_handlers[name] and "
        "  len(ctx_handlers[name][it_0[j]]) == len(" + ROW0.format(x="it_0[j]") + ") + 1 and "
        "  ctx_handlers[name][it_0[j]][len(" + ROW0.format(x="it_0[j]") + ")] == component and "
        "  forall(k, range(0, len(" + ROW0.format(x="it_0[j]") + ")), ctx_handlers[name][it_0[j]][k] == " + ROW0.format(x="it_0[j]") + "[k]))")
OLD_IGNORE = ("forall(j, range(0, {n}), forall(k, range(0, len(" + ROW0.format(x="it_0[j]") + ")), "
              + ROW0.format(x="it_0[j]") + "[k] in IGNORE and it_0[j] in IGNORE[" + ROW0.format(x="it_0[j]") + "[k]]))")
BASE = ["name == component.__name__", "len(parents) >= 1", IGN, OTHERS_SAME]
OUTER = BASE + ["ctx_handlers == %s" % CUR, ROWS_SAME, UNTOUCHED.format(n="i_0"), DONE.format(n="i_0"), OLD_IGNORE.format(n="i_0")]
INNER = BASE + ["ctx_handlers == %s" % CUR, "ctx_handlers == lold(ctx_handlers)", OLD_IGNORE.format(n="i_0"),
                "seq_eq(it_1, " + ROW0.format(x="c") + ")",
                "forall(j, range(0, i_1), it_1[j] in IGNORE and c in IGNORE[it_1[j]])"]
POST = [
    # the component is now the newest handler of every context it depends on (on the class that owns the spec name)
    "implies(len(parents) >= 1, forall(x, uf('ctxdeps', Set(Comp), component), "
    "   uf('attr_Comp___name__', STR, component) in %s and x in %s[uf('attr_Comp___name__', STR, component)] and "
    "   len(%s[uf('attr_Comp___name__', STR, component)][x]) >= 1 and "
    "   %s[uf('attr_Comp___name__', STR, component)][x][len(%s[uf('attr_Comp___name__', STR, component)][x]) - 1] == component))" % (CUR, CUR, CUR, CUR, CUR),
    "implies(len(parents) == 0, forall(p, Ref_SC, p.context_handlers == old(p.context_handlers)) and IGNORE == old(IGNORE))",
]


D = "uf('ctxdeps', Set(Comp), component)"
NM = "uf('attr_Comp___name__', STR, component)"
HN = "%s.context_handlers" % TGT
R0 = "row0(" + H0 + ", " + NM + ", x)"
# what the call did, stated over the set of contexts the component depends on (the lemma C05-WF derives the representation
# invariant of the handler table from these facts alone)
EXIT = [
    OTHERS_SAME,
    "implies(len(parents) >= 1, forall(n, Str, implies(n != %s, (n in %s) == (n in %s) and implies(n in %s, %s[n] == %s[n]))))" % (NM, HN, H0, H0, HN, H0),
    "implies(len(parents) >= 1, forall(x, Comp, implies(x not in %s, (%s in %s and x in %s[%s]) == (%s in %s and x in %s[%s]) and "
    "   implies(%s in %s and x in %s[%s], %s[%s][x] == %s[%s][x]))))" % (D, NM, HN, HN, NM, NM, H0, H0, NM, NM, HN, HN, NM, HN, NM, H0, NM),
    "implies(len(parents) >= 1, forall(x, %s, %s in %s and x in %s[%s] and len(%s[%s][x]) == len(%s) + 1 and %s[%s][x][len(%s)] == component and "
    "   forall(k, range(0, len(%s)), %s[%s][x][k] == %s[k] and %s[k] in IGNORE and x in IGNORE[%s[k]])))"
    % (D, NM, HN, HN, NM, HN, NM, R0, HN, NM, R0, R0, HN, NM, R0, R0, R0),
]


def declare(reg):
    reg.sort(Comp=Comp, Str=STR, Ref_SC=SC)
    reg.exc_files.append("insights/core/exceptions.py")
    reg.cls("Comp", __truthy__=True, __name__=STR)
    reg.cls("SpecCls", registry=Map(STR, Comp), context_handlers=HT)
    reg.specfun("row0", dict(h=HT, n=STR, x=Comp), List(Comp), "h[n][x] if (n in h and x in h[n]) else uf('no_handlers', List(Comp))")
    reg.axiom("len(uf('no_handlers', List(Comp))) == 0")
    reg.defaultdict_types = {HT.key: "{}", Map(Comp, List(Comp)).key: "[]", Map(Comp, Set(Comp)).key: "set()"}
    reg.glob(M, IGNORE=Map(Comp, Set(Comp)))
    reg.external("_get_ctx_dependencies", params=dict(component=Comp), returns=Set(Comp), pure=True,
                 ensures=["result == uf('ctxdeps', Set(Comp), component)"],
                 note="the execution contexts found in the dependency tree of a component (walk_tree): read-only")
    # the real function, verified against "every execution context in the dependency tree, whatever else the tree contains"; callers
    # see it as the function ctxdeps (verify_only)
    reg.external("dr.walk_tree", params=dict(root=Comp), returns=List(Comp), pure=True, ensures=["result == uf('tree_of', List(Comp), root)"],
                 note="dr.walk_tree(component): the nodes of the dependency tree (a generator, read once)")
    reg.external("issubclass", params=collections.OrderedDict(c=Comp, cls=None), returns=BOOL,
                 raises={"TypeError": "uf('not_a_class', BOOL, c)"}, raise_frame="unchanged", ensures=["result == uf('is_exec_ctx', BOOL, c)"],
                 note="issubclass(c, ExecutionContext) raises TypeError for a dependency that is not a class (a function component)")
    TREE = "uf('tree_of', List(Comp), component)"
    CTXK = "(not uf('not_a_class', BOOL, {t}[k]) and uf('is_exec_ctx', BOOL, {t}[k]))"
    reg.contract(M, "_get_ctx_dependencies", params=dict(component=Comp), returns=Set(Comp), raises={}, verify_only=True, locals=dict(ctxs=Set(Comp)),
                 loops={0: ["it_0 == %s" % TREE, "forall(x, Comp, (x in ctxs) == exists(k, range(0, i_0), it_0[k] == x and %s))" % CTXK.format(t="it_0")]},
                 ensures=["forall(x, Comp, (x in result) == exists(k, range(0, len(%s)), %s[k] == x and %s))" % (TREE, TREE, CTXK.format(t=TREE))])
    reg.external("dr.add_ignore", params=dict(c=Comp, i=Comp), modifies=["IGNORE"],
                 ensures=["forall(x, Comp, forall(y, Comp, (x in IGNORE and y in IGNORE[x]) == ((x in old(IGNORE) and y in old(IGNORE)[x]) or (x == c and y == i))))"],
                 note="dr.add_ignore(c, i): IGNORE[c].add(i) on a defaultdict(set) - one statement, stated as its effect")
    H0 = "old(parents[len(parents) - 1].context_handlers)"
    reg.contract(M, "_register_context_handler", params=dict(parents=List(SC), component=Comp),
                 modifies=["SpecCls.context_handlers", "IGNORE"],
                 requires=["forall(p, Ref_SC, %s)" % WF("p.context_handlers")],
                 locals=dict(ctx_handlers=HT, parents=List(SC)),
                 loops={0: OUTER, 1: INNER},
                 raises={},
                 ensures=[IGN] + POST + EXIT)

    # ------------------------------------------------------------------ RegistryPoint.__call__: the last implementation that produced a value
    from contracts import dr as DRS
    reg.external("dr.get_delegate", params=dict(c=Comp), returns=Ref("Delegate"), pure=True, ensures=["result == uf('delegate_of', Ref('Delegate'), c)"])
    DEPS = "uf('delegate_of', Ref('Delegate'), self).deps"
    reg.contract(M, "RegistryPoint.__call__", params=dict(self=Comp, broker=Ref("Broker")), returns=Opt(Val),
                 loops={0: ["forall(j, range(0, i_0), it_0[j] not in broker.instances)",
                            "forall(k, range(0, len(it_0)), it_0[k] == %s[len(%s) - 1 - k])" % (DEPS, DEPS), "len(it_0) == len(%s)" % DEPS]},
                 raises={"SkipComponent": "forall(j, range(0, len(%s)), %s[j] not in broker.instances)" % (DEPS, DEPS)}, raise_frame="unchanged",
                 ensures=[
                     # the value of the last declared (= most recently registered) implementation that is in the broker
                     "exists(j, range(0, len(%s)), %s[j] in broker.instances and result == broker.instances[%s[j]] and "
                     "       forall(k, range(j + 1, len(%s)), %s[k] not in broker.instances))" % (DEPS, DEPS, DEPS, DEPS, DEPS)])
    reg.contract(DR, "ComponentType.add_dependency", params=dict(self=Ref("Delegate"), dep=Comp),
                 modifies=["Delegate.at_least_one", "Delegate.deps", "Delegate.dependencies", "DEPENDENTS", "DEPENDENCIES", "COMPONENTS"],
                 requires=["len(self.at_least_one) >= 1"],
                 raises={"KeyError": None},
                 ensures=[
                     # registered later = later in deps (and in the single at-least-one group of a registry point)
                     "len(self.deps) == len(old(self.deps)) + 1 and self.deps[len(old(self.deps))] == dep",
                     "forall(j, range(0, len(old(self.deps))), self.deps[j] == old(self.deps)[j])",
                     "len(self.at_least_one) == len(old(self.at_least_one)) and len(self.at_least_one[0]) == len(old(self.at_least_one)[0]) + 1 and "
                     "self.at_least_one[0][len(old(self.at_least_one)[0])] == dep",
                     "self.dependencies == union(old(self.dependencies), single(dep))"])
