"""BOUNDED stand-in / native witness search for C17 (never counted as proved): the real marker / identifier functions on temporary configuration
directories, every history of <= H operations out of {read id, forced regeneration, register, unregister, delete registered marker, delete
unregistered marker}, from each initial state {empty directories, markers present, existing identifier, legacy un-hyphenated identifier,
symlinks (to an existing file, dangling) planted at the marker locations}.  Checked after every step: the identifier is a canonical UUID and stays the same until a new one is
requested; a read never rewrites the identifier file; the registered and unregistered markers never exist together in a directory; a planted
symlink is replaced, never followed (its target is untouched).  The initial state 'configuration directory absent' is NOT explored here: it
is the listed known finding (generate_machine_id is not stable there).
usage: /venv/bin/python client_markers_histories.py <repo root> <H> ; exit 1 + JSON line with a witness."""
import itertools, json, os, shutil, sys, tempfile, uuid
root, H = sys.argv[1], int(sys.argv[2])
sys.path.insert(0, root)
import logging
logging.disable(logging.CRITICAL)
from insights.client import utilities
from insights.client.constants import InsightsConstants as constants


def fail(**kw):
    print(json.dumps(kw, default=repr))
    sys.exit(1)


utilities._get_rhsm_identity = lambda: None
OPS = ["read", "regen", "register", "unregister", "del_reg", "del_unreg"]
INITS = ["empty", "registered", "unregistered", "id", "legacy_id", "symlink_reg", "symlink_unreg", "dangling_reg", "dangling_unreg"]
base = tempfile.mkdtemp(prefix="c17b_", dir="/var/tmp" if os.path.isdir("/var/tmp") else None)
n = 0
try:
    for init in INITS:
        for hist in itertools.product(OPS, repeat=H):
            d1, d2 = os.path.join(base, "conf1"), os.path.join(base, "conf2")
            for d in (d1, d2):
                shutil.rmtree(d, ignore_errors=True)
                os.makedirs(d)
            victim = os.path.join(base, "victim")
            open(victim, "w").write("victim")
            constants.registered_files = [os.path.join(d1, ".registered"), os.path.join(d2, ".registered")]
            constants.unregistered_files = [os.path.join(d1, ".unregistered"), os.path.join(d2, ".unregistered")]
            idfile = os.path.join(d1, "machine-id")
            current = None
            if init == "registered":
                for f in constants.registered_files:
                    open(f, "w").write("x")
            elif init == "unregistered":
                for f in constants.unregistered_files:
                    open(f, "w").write("x")
            elif init == "id":
                current = str(uuid.uuid4())
                open(idfile, "w").write(current)
            elif init == "legacy_id":
                u = uuid.uuid4()
                open(idfile, "w").write(u.hex)
                current = str(u)
            elif init == "symlink_reg":
                os.symlink(victim, constants.registered_files[0])
            elif init == "symlink_unreg":
                os.symlink(victim, constants.unregistered_files[1])
            elif init == "dangling_reg":
                os.symlink(os.path.join(base, "ghost"), constants.registered_files[1])       # the target does not exist
            elif init == "dangling_unreg":
                os.symlink(os.path.join(base, "ghost"), constants.unregistered_files[0])
            if os.path.lexists(os.path.join(base, "ghost")):
                os.remove(os.path.join(base, "ghost"))
            for step, op in enumerate(hist):
                ctx = dict(initial=init, history=list(hist[:step + 1]))
                before = (open(idfile).read(), os.stat(idfile).st_mtime_ns) if os.path.exists(idfile) else None
                if op in ("read", "regen"):
                    got = utilities.generate_machine_id(new=(op == "regen"), destination_file=idfile)
                    try:
                        canonical = str(uuid.UUID(got)) == got
                    except Exception:
                        canonical = False
                    if not canonical:
                        fail(violation="the identifier returned is not a canonical UUID", returned=got, **ctx)
                    if op == "read" and current is not None and got != current:
                        fail(violation="the identifier changed without a request for a new one", was=current, returned=got, **ctx)
                    if op == "read" and before is not None and str(uuid.UUID(before[0].strip())) == before[0].strip() \
                            and (open(idfile).read(), os.stat(idfile).st_mtime_ns) != before:
                        fail(violation="a read rewrote the identifier file", **ctx)
                    if op == "regen" and current is not None and got == current:
                        fail(violation="a forced regeneration returned the old identifier", **ctx)
                    current = got
                elif op == "register":
                    utilities.write_registered_file()
                elif op == "unregister":
                    utilities.write_unregistered_file()
                elif op == "del_reg":
                    utilities.delete_registered_file()
                else:
                    utilities.delete_unregistered_file()
                n += 1
                for r, u in zip(constants.registered_files, constants.unregistered_files):
                    if os.path.lexists(r) and os.path.lexists(u):
                        fail(violation="registered and unregistered markers exist together", directory=os.path.dirname(r), **ctx)
                if os.path.lexists(os.path.join(base, "ghost")):
                    fail(violation="a dangling symlink planted at a marker location was followed (its target was created)", **ctx)
                if open(victim).read() != "victim":
                    fail(violation="a symlink planted at a marker location was followed (its target was written)", **ctx)
                if op == "register" and any(os.path.islink(f) or not os.path.exists(f) for f in constants.registered_files):
                    fail(violation="after registering a marker is missing or still a symlink", **ctx)
                if op == "unregister" and any(os.path.islink(f) or not os.path.exists(f) for f in constants.unregistered_files):
                    fail(violation="after unregistering a marker is missing or still a symlink", **ctx)
finally:
    shutil.rmtree(base, ignore_errors=True)
print(json.dumps({"ok": True, "max_history": H, "initial_states": len(INITS), "steps": n}))
