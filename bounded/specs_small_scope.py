"""BOUNDED stand-in / native witness search for C05 (never counted as proved): every sequence of <= K implementations of one spec name, each
bound to HostContext, HostArchiveContext or both, each yielding a value or deliberately skipping; after EVERY registration the spec is
evaluated in a fresh broker for each active context (so look-ups interleave with registrations).  Reference, from the property: the value is
the one of the most recently registered implementation declared for the active context; earlier implementations for that context are not
executed; implementations for other contexts never contribute; if that implementation yields nothing the spec is absent.
usage: /venv/bin/python specs_small_scope.py <repo root> <K> ; exit 1 + JSON line with a witness."""
import itertools, json, sys
root, K = sys.argv[1], int(sys.argv[2])
sys.path.insert(0, root)
import logging
logging.disable(logging.CRITICAL)
from insights.core import dr
from insights.core.context import HostContext, HostArchiveContext
from insights.core.exceptions import SkipComponent
from insights.core.plugins import datasource
from insights.core.spec_factory import RegistryPoint, SpecSet

CTX = {"H": (HostContext,), "A": (HostArchiveContext,), "HA": (HostContext, HostArchiveContext)}
CALLS = []


def fail(**kw):
    print(json.dumps(kw, default=repr))
    sys.exit(1)


def impl(tag, ctxs, outcome):
    @datasource(list(ctxs) if len(ctxs) > 1 else ctxs[0])
    def thing(broker):
        CALLS.append(tag)
        if outcome == "skip":
            raise SkipComponent()
        return "value-" + tag
    return thing


n = 0
uid = itertools.count()
for k in range(1, K + 1):
    for seq in itertools.product(itertools.product(sorted(CTX), ("value", "skip")), repeat=k):
        Specs = type("Specs%d" % next(uid), (SpecSet,), {"thing": RegistryPoint()})
        registered = []
        for pos, (ck, outcome) in enumerate(seq):
            tag = "i%d" % pos
            type("Impl%d_%d" % (next(uid), pos), (Specs,), {"thing": impl(tag, CTX[ck], outcome)})
            registered.append((tag, CTX[ck], outcome))
            for active in (HostContext, HostArchiveContext):
                del CALLS[:]
                broker = dr.Broker()
                broker[active] = active()
                try:
                    dr.run(dr.get_dependency_graph(Specs.thing), broker)
                except Exception as ex:
                    fail(violation="evaluation raised", exc=repr(ex), sequence=[(c, o) for c, o in seq[:pos + 1]], active=active.__name__)
                n += 1
                mine = [(t, o) for t, cs, o in registered if active in cs]
                want_calls = [mine[-1][0]] if mine else []
                want_val = ("value-" + mine[-1][0]) if mine and mine[-1][1] == "value" else None
                got_val = broker.get(Specs.thing)
                if sorted(CALLS) != want_calls or got_val != want_val:
                    fail(violation="spec resolution differs from the reference", sequence=[(c, o) for c, o in seq[:pos + 1]], active=active.__name__,
                         executed=list(CALLS), expected_executed=want_calls, value=got_val, expected_value=want_val)
print(json.dumps({"ok": True, "max_implementations": K, "evaluations": n}))

# ---------------------------------------------------------------- implementations bound to ANOTHER spec instead of directly to a context
# Spec y gets implementations for contexts over time; a third spec z may be bound to y (which makes the framework look at y's contexts early);
# implementations of x are bound to a context or to y.  An implementation bound to y is declared for the contexts y was implemented for when
# it was registered.  (No implementation of y is registered after an x implementation bound to y: what that would mean is not stated.)
def impl_on(tag, spec, outcome):
    @datasource(spec)
    def thing(broker):
        CALLS.append(tag)
        if outcome == "skip":
            raise SkipComponent()
        return "value-" + tag
    return thing


OPS2 = [("Y", "H"), ("Y", "A"), ("Z", None)] + [("X", c, o) for c in ("H", "A", "onY") for o in ("value", "skip")]
n_b = 0
for k in range(1, (K if K >= 4 else 4) + 1):
    for seq in itertools.product(OPS2, repeat=k):
        seen_on_y = False
        bad = False
        for op in seq:
            if op[0] == "X" and op[1] == "onY":
                seen_on_y = True
            if op[0] == "Y" and seen_on_y:
                bad = True
        if bad or not any(op[0] == "X" for op in seq):
            continue
        S2 = type("SpecsB%d" % next(uid), (SpecSet,), {"x": RegistryPoint(), "y": RegistryPoint(), "z": RegistryPoint()})
        type("ImplY0_%d" % next(uid), (S2,), {"y": impl("y0", CTX["H"], "value")})          # y starts with a HostContext implementation
        y_ctx = {HostContext}
        x_impls = []
        for pos, op in enumerate(seq):
            tag = "i%d" % pos
            if op[0] == "Y":
                type("ImplY%d" % next(uid), (S2,), {"y": impl("y" + tag, CTX[op[1]], "value")})
                y_ctx |= set(CTX[op[1]])
            elif op[0] == "Z":
                type("ImplZ%d" % next(uid), (S2,), {"z": impl_on("z" + tag, S2.y, "value")})
            else:
                if op[1] == "onY":
                    type("ImplX%d" % next(uid), (S2,), {"x": impl_on(tag, S2.y, op[2])})
                    x_impls.append((tag, set(y_ctx), op[2]))
                else:
                    type("ImplX%d" % next(uid), (S2,), {"x": impl(tag, CTX[op[1]], op[2])})
                    x_impls.append((tag, set(CTX[op[1]]), op[2]))
        for active in (HostContext, HostArchiveContext):
            del CALLS[:]
            broker = dr.Broker()
            broker[active] = active()
            try:
                dr.run(dr.get_dependency_graph(S2.x), broker)
            except Exception as ex:
                fail(violation="evaluation raised", exc=repr(ex), sequence=list(seq), active=active.__name__)
            n_b += 1
            mine = [(t, o) for t, cs, o in x_impls if active in cs]
            want_calls = [mine[-1][0]] if mine else []
            want_val = ("value-" + mine[-1][0]) if mine and mine[-1][1] == "value" else None
            got_calls = sorted(c for c in CALLS if c.startswith("i"))
            if got_calls != want_calls or broker.get(S2.x) != want_val:
                fail(violation="spec resolution differs from the reference (implementations bound to another spec)", sequence=list(seq), active=active.__name__,
                     executed=got_calls, expected_executed=want_calls, value=broker.get(S2.x), expected_value=want_val)
print(json.dumps({"ok": True, "evaluations_with_bound_implementations": n_b}))
