"""BOUNDED stand-in / native witness search for C09 (never counted as proved): one real Cleaner instance, every sequence of <= L lines (spread over
two "specs") built from a small set of original IPv4 addresses, host names of the system's domain and MAC addresses, recurring on the same
line, on later lines and in the later spec.  Checked: the same original always gets the same substitute; different IPv4 addresses / host names
get different substitutes; the reported mapping pairs every replaced original with the substitute that appears in the output and lists no
original that occurred neither in the content nor as the system's own name.
usage: /venv/bin/python obfuscation_mapping.py <repo root> <L> ; exit 1 + JSON line with a witness."""
import itertools, json, sys
root, L = sys.argv[1], int(sys.argv[2])
sys.path.insert(0, root)
import logging
logging.disable(logging.CRITICAL)
from insights.cleaner import Cleaner
from insights.client.config import InsightsConfig


def fail(**kw):
    print(json.dumps(kw, default=repr))
    sys.exit(1)


FQDN = "node1.corp.test"
ORIG = {"ip": ["10.1.2.3", "10.1.2.4", "192.168.7.9"], "hostname": ["alpha.corp.test", "bravo.corp.test", FQDN], "mac": ["52:54:00:aa:bb:01", "52:54:00:aa:bb:02"]}
TOKENS = [(k, o) for k in ("ip", "hostname", "mac") for o in ORIG[k]]
LINES = [(t,) for t in TOKENS] + [(a, b) for a, b in itertools.product(TOKENS, repeat=2) if a[0] != "mac" or b[0] != "mac"][:40 if L < 3 else 64]
conf = InsightsConfig(obfuscate=True, obfuscate_hostname=True, obfuscate_mac=True)
n = 0
for seq in itertools.product(LINES, repeat=L):
    cl = Cleaner(conf, {}, FQDN)
    text = ["x %s y" % " z ".join(o for _, o in line) for line in seq]
    cut = max(1, len(text) // 2)
    out = cl.clean_content(text[:cut]) + (cl.clean_content(text[cut:]) if text[cut:] else [])       # two specs, one cleaner
    n += 1
    if len(out) != len(text):
        fail(violation="lines lost", lines=text, out=out)
    sub = {}
    for line, res in zip(seq, out):
        parts = res.split(" ")
        got = parts[1::2]
        if len(got) != len(line):
            fail(violation="cannot align output with input", line=line, out=res)
        for (kind, orig), s in zip(line, got):
            if s == orig:
                fail(violation="an original survived", original=orig, lines=text, out=out)
            if sub.setdefault((kind, orig), s) != s:
                fail(violation="the same original got two substitutes", original=orig, substitutes=[sub[(kind, orig)], s], lines=text, out=out)
    for kind in ("ip", "hostname"):
        vals = [s for (k, o), s in sub.items() if k == kind]
        if len(set(vals)) != len(vals):
            fail(violation="two different originals share a substitute", kind=kind, mapping={o: s for (k, o), s in sub.items() if k == kind}, lines=text)
    for kind in ("ip", "hostname", "mac"):
        rep = dict((m["original"], m["obfuscated"]) for m in cl.obfuscate[kind].mapping())
        seen = dict((o, s) for (k, o), s in sub.items() if k == kind)
        for o, s in seen.items():
            if rep.get(o) != s:
                fail(violation="the reported mapping does not pair an original with the substitute in the output", kind=kind, original=o, output=s,
                     reported=rep.get(o), lines=text)
        extra = [o for o in rep if o not in seen and o not in (FQDN, FQDN.split(".")[0], ".".join(FQDN.split(".")[1:]))]
        if extra:
            fail(violation="the reported mapping lists an original that never occurred", kind=kind, extra=extra, lines=text)
# ---- width-preserving substitution (used for column-aligned output): the address at line start, middle and at the very end of a line
for pos_line in ("10.1.2.3 rest", "a 10.1.2.3 rest", "a b 10.1.2.3", "10.1.2.3"):
    cl = Cleaner(conf, {}, FQDN)
    plain = cl.clean_content(["first 10.1.2.3 seen"])
    try:
        out = cl.clean_content([pos_line, "again 10.1.2.3 here"], width=True)
    except Exception:
        continue          # the content is rejected as a whole: nothing is emitted
    n += 1
    if any("10.1.2.3" in l for l in out):
        fail(violation="an original address survives width-preserving substitution", line=pos_line, out=out)
    rep = dict((m["original"], m["obfuscated"]) for m in cl.obfuscate["ip"].mapping())
    sub = plain[0].split(" ")[1]
    if rep.get("10.1.2.3") != sub or not all(sub in l for l in out):
        fail(violation="width-preserving substitution is not consistent with the substitute issued earlier", line=pos_line, out=out, issued=sub, reported=rep)
# ---- the mapping PRODUCED FOR THE USER (the RHSM facts file written at the end of a run): every replaced original - including two spellings
# of one address, which may share a substitute - is paired with the substitute that appears in the output, and nothing else is listed
import os, tempfile
facts_dir = tempfile.mkdtemp(prefix="c09b_")
try:
    conf6 = InsightsConfig(obfuscate=True, obfuscate_hostname=True, obfuscate_mac=True, obfuscate_ipv6=True)
    conf6.rhsm_facts_file = os.path.join(facts_dir, "insights-client.facts")
    SPELL = {"mac": ["fe:ab:04:ff:76:4b", "fe:ab:04:FF:76:4b", "52:54:00:aa:bb:01"], "ipv6": ["2001:db8::1a", "2001:DB8::1A", "fe80::5054:ff:fe12:3456"],
             "ip": ["10.1.2.3", "10.1.2.4"], "hostname": ["alpha.corp.test", "bravo.corp.test"]}
    for kinds in (("mac",), ("ipv6",), ("ip", "hostname"), ("mac", "ipv6", "ip", "hostname")):
        cl = Cleaner(conf6, {}, FQDN)
        seen = {}
        for kind in kinds:
            for o in SPELL[kind]:
                res = cl.clean_content(["x %s y" % o])[0].split(" ")
                if len(res) == 3 and res[1] != o:
                    seen[(kind, o)] = res[1]
        cl.generate_rhsm_facts()
        facts = json.load(open(conf6.rhsm_facts_file))
        n += 1
        for fk, kind in (("insights_client.obfuscated_mac", "mac"), ("insights_client.obfuscated_ipv6", "ipv6"), ("insights_client.obfuscated_ipv4", "ip"),
                         ("insights_client.obfuscated_hostname", "hostname")):
            listed = json.loads(facts[fk])
            rep = dict((m["original"], m["obfuscated"]) for m in listed)
            for (k, o), sub_ in seen.items():
                if k == kind and rep.get(o) != sub_:
                    fail(violation="the mapping written for the user (RHSM facts) does not pair a replaced original with the substitute in the output",
                         kind=kind, original=o, output=sub_, reported=rep.get(o), listed=listed)
            extra = [o for o in rep if (kind, o) not in seen and o not in (FQDN, FQDN.split(".")[0], ".".join(FQDN.split(".")[1:]))]
            if extra:
                fail(violation="the mapping written for the user (RHSM facts) lists an original that never occurred", kind=kind, extra=extra)
finally:
    import shutil
    shutil.rmtree(facts_dir, ignore_errors=True)
print(json.dumps({"ok": True, "max_lines": L, "sequences": n, "line_shapes": len(LINES)}))
