# Two different plays used to serialise to the same text (keys were formatted unescaped): one digest for both.
import sys, os
sys.path.insert(0, os.getcwd())
from insights.client.apps.ansible.playbook_verifier.serializer import PlaybookSerializer as S
a = {"a', 1), ('b": 2}
b = {"a": 1, "b": 2}
c, d = {1: "x"}, {"1": "x"}
print(S.serialize(a)); print(S.serialize(b)); print(S.serialize(c)); print(S.serialize(d))
sys.exit(1 if (S.serialize(a) == S.serialize(b) or S.serialize(c) == S.serialize(d)) else 0)
