"""Sidecar contracts for insights/cleaner/__init__.py: Cleaner.clean_content and its per-line pipeline (C10, C08 application half)."""
import collections
from pyvc.dsl import *

M = "insights/cleaner/__init__.py"
STAGE = Ref("Stage")
KW = Map(STR, PY)
ENTRY = Tup(STAGE, KW)
ST = U("StageState")
OUT = "uf('stage_out', Opt(STR), {p}, {s}, {l}, {k})"
NEXT = "uf('stage_next', U('StageState'), {p}, {s}, {l}, {k})"


def declare(reg):
    reg.sort(Str=STR, Ref_Stage=STAGE)
    reg.cls("Stage", state=ST)
    reg.cls("Cleaner", redact=Map(STR, Opt(STAGE)), obfuscate=Map(STR, Opt(STAGE)))
    reg.glob(M, MAX_LINE_LENGTH=INT)
    for n in ("logger.debug", "logger.info", "logger.warning"):
        reg.external(n, drop=True)
    # every stage (Pattern, AllowFilter, Keyword, Password, IPv4, IPv6, Hostname, Mac) implements parse_line(line, **kwargs):
    # a deterministic function of the stage, its state, the line and the keyword arguments; an empty / None line passes through
    reg.interface("Stage", "parse_line", params=dict(self=STAGE, line=Opt(STR), kwargs=KW), returns=Opt(STR),
                  modifies=["Stage.state"], raises={},
                  ensures=["result == " + OUT.format(p="self", s="old(self.state)", l="line", k="kwargs"),
                           "self.state == " + NEXT.format(p="self", s="old(self.state)", l="line", k="kwargs"),
                           "forall(o, Ref_Stage, implies(o != self, o.state == old(o.state)))"],
                  note="parse_line of the concrete stages: assumed deterministic in (stage, state, line, kwargs), touching only its own "
                       "state (the allow-list budget copy handed over in kwargs counts as state of that entry); never raises")

    CHAIN = ("forall(k, range(0, {n}), tr[k + 1] == " + OUT.format(p="parsers[k][0]", s="old(parsers[k][0].state)", l="tr[k]", k="parsers[k][1]") + ")")
    reg.contract(M, "Cleaner.clean_content.<locals>._clean_line", params=dict(line=Opt(STR)), free=dict(parsers=List(ENTRY)),
                 returns=Opt(STR), modifies=["Stage.state"],
                 requires=["line is not None",
                           "forall(a, range(0, len(parsers)), forall(b, range(0, len(parsers)), implies(a < b, parsers[a][0] != parsers[b][0])))"],
                 ghosts=dict(tr=(List(Opt(STR)), "[]")), locals=dict(tr=List(Opt(STR)), line=Opt(STR)),
                 ghost_on=[("@for (parser, kwargs)", "tr = [line]", "before"),
                           ("line = parser.parse_line(line, **kwargs)", "tr.append(line)", "after")],
                 loops={0: ["len(tr) == i_0 + 1", "line == tr[i_0]", "it_0 == parsers",
                            "tr[0] == (old(line) if len(some(old(line))) <= MAX_LINE_LENGTH else some(old(line))[:MAX_LINE_LENGTH])",
                            CHAIN.format(n="i_0"),
                            "forall(k, range(0, i_0), parsers[k][0].state == " + NEXT.format(p="parsers[k][0]", s="old(parsers[k][0].state)", l="tr[k]", k="parsers[k][1]") + ")",
                            "forall(o, Ref_Stage, implies(forall(k, range(0, i_0), parsers[k][0] != o), o.state == old(o.state)))"]},
                 raises={},
                 ensures=["len(tr) == len(parsers) + 1", "result == tr[len(parsers)]",
                          # the line (cut to the maximal length) goes through every stage of the list, left to right
                          "tr[0] == (old(line) if len(some(old(line))) <= MAX_LINE_LENGTH else some(old(line))[:MAX_LINE_LENGTH])",
                          CHAIN.format(n="len(parsers)"),
                          "forall(o, Ref_Stage, implies(forall(k, range(0, len(parsers)), parsers[k][0] != o), o.state == old(o.state)))"])

    # ------------------------------------------------------------------ Cleaner.clean_content
    C = Ref("Cleaner")
    EXEMPT = "(no_obfuscate is not None and {n} in elems(some(no_obfuscate)))"
    ACTIVE = "({n} in self.obfuscate and self.obfuscate[{n}] is not None and not " + EXEMPT + ")"
    PAT = "(self.redact['pattern'] is not None and not no_redact)"
    reg.contract(M, "Cleaner.clean_content",
                 params=dict(self=C, lines=List(STR), no_obfuscate=Opt(List(STR)), no_redact=BOOL, allowlist=Opt(Map(STR, INT)), width=BOOL),
                 returns=List(STR), modifies=["Stage.state"], empties=dict(dictval=PY),
                 requires=["'pattern' in self.redact and 'allow_filter' in self.redact and self.redact['allow_filter'] is not None",
                           # one stage object per role
                           "forall(a, Str, forall(b, Str, implies(a in self.obfuscate and b in self.obfuscate and a != b and self.obfuscate[a] is not None, "
                           "       self.obfuscate[a] != self.obfuscate[b])))",
                           "forall(a, Str, implies(a in self.obfuscate and self.obfuscate[a] is not None, "
                           "       self.obfuscate[a] != self.redact['pattern'] and self.obfuscate[a] != self.redact['allow_filter']))",
                           "self.redact['pattern'] != self.redact['allow_filter']"],
                 locals=dict(parsers=List(ENTRY), result=List(STR), gp=List(ENTRY), src=List(INT), cl=Map(INT, Opt(STR)), kept=List(STR),
                             sidx=Map(INT, INT)),
                 ghosts=collections.OrderedDict(gp=(List(ENTRY), "[]"), src=(List(INT), "[]"), cl=(Map(INT, Opt(STR)), "{}"),
                                                kept=(List(STR), "[]"), sidx=(Map(INT, INT), "{}")),
                 ghost_on=[("result = []", "gp = parsers", "before"),
                           ("line = _clean_line(lines[idx])", "cl[idx] = line", "after"),
                           ("result.append(line) if line is not None else None",
                            "if line is not None:\n    sidx[idx] = len(src)\n    src.append(idx)", "after"),
                           ("result.reverse()", "kept = result", "before"),
                           ("return []", "kept = result", "before")],
                 order_insensitive=True,
                 loops={1: [
                     "parsers == gp",
                     "forall(k, range(0, len(it_1)), it_1[k] == len(lines) - 1 - k)", "i_1 <= len(lines)",
                     "len(src) == len(result)",
                     "forall(j, range(0, len(src)), 0 <= src[j] and src[j] < len(lines) and src[j] > len(lines) - 1 - i_1 and src[j] in cl and "
                     "       cl[src[j]] is not None and result[j] == some(cl[src[j]]))",
                     "forall(a, range(0, len(src)), forall(b, range(0, len(src)), implies(a < b, src[a] > src[b])))",
                     "forall(i, range(len(lines) - i_1, len(lines)), i in cl and implies(cl[i] is not None, i in sidx and 0 <= sidx[i] and sidx[i] < len(src) and src[sidx[i]] == i))",
                 ]},
                 raises={},
                 ensures=[
                     # --- the stage list (C08: which stage, in which order, under which exemption)
                     "implies(%s, len(gp) >= 1 and gp[0][0] == some(self.redact['pattern']))" % PAT,
                     "implies(allowlist is not None, len(gp) > (1 if %s else 0) and gp[(1 if %s else 0)][0] == some(self.redact['allow_filter']))" % (PAT, PAT),
                     "forall(j, range(0, len(gp)), (j == 0 and %s and gp[j][0] == some(self.redact['pattern'])) or "
                     "   (j == (1 if %s else 0) and allowlist is not None and gp[j][0] == some(self.redact['allow_filter'])) or "
                     "   exists(n, Str, %s and gp[j][0] == some(self.obfuscate[n])))" % (PAT, PAT, ACTIVE.format(n="n")),
                     "forall(n, Str, implies(%s, exists(j, range(0, len(gp)), gp[j][0] == some(self.obfuscate[n]))))" % ACTIVE.format(n="n"),
                     # --- order / one input line per output line (src: strictly decreasing positions of the kept lines, newest first)
                     "len(src) == len(kept)",
                     "forall(j, range(0, len(src)), 0 <= src[j] and src[j] < len(lines) and cl[src[j]] is not None and kept[j] == some(cl[src[j]]))",
                     "forall(a, range(0, len(src)), forall(b, range(0, len(src)), implies(a < b, src[a] > src[b])))",
                     "forall(i, range(0, len(lines)), i in cl and implies(cl[i] is not None, i in sidx and 0 <= sidx[i] and sidx[i] < len(src) and src[sidx[i]] == i))",
                     # --- collapse: all kept lines blank -> nothing; otherwise the kept lines in input order
                     "implies(not exists(j, range(0, len(kept)), truthy(kept[j])), len(result) == 0)",
                     "implies(exists(j, range(0, len(kept)), truthy(kept[j])), len(result) == len(kept) and "
                     "        forall(j, range(0, len(result)), result[j] == kept[len(kept) - 1 - j]))",
                 ],
                 note="verified for `lines` given as a list (the single-string form returns _clean_line(lines) directly)")
