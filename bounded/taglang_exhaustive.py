"""BOUNDED stand-in (never counted as proved): insights.core.taglang.parse(e).test(tags) against boolean evaluation under the stated
precedence (! high, & medium, | and , low; parentheses group) for every expression with at most <max atoms> tags from {a,b,c}, parentheses
nested at most once, on all 8 tag sets.
usage: /venv/bin/python taglang_exhaustive.py <repo root> <max atoms> ; exit 1 + JSON line with a witness on a mismatch."""
import itertools, json, sys
root, maxatoms = sys.argv[1], int(sys.argv[2])
sys.path.insert(0, root)
from insights.core.taglang import parse
TAGS = "abc"
OPS = "&|,"


def exprs(n, depth):
    """all (text, tree) with exactly n atoms; tree: ('t', x) | ('!', t) | (op, l, r) built with reference precedence"""
    def factors(k, depth):
        out = []
        if k == 1:
            for t in TAGS:
                out.append((t, ("t", t)))
        if depth > 0 and k >= 2:
            for txt, tree in flat(k, depth - 1):
                out.append(("(" + txt + ")", tree))
        res = []
        for txt, tree in out:
            res.append((txt, tree))
            res.append(("!" + txt, ("!", tree)))
        return res

    def flat(k, depth):
        """sequences factor (op factor)* with k atoms in total; the tree is computed by the REFERENCE reading"""
        out = []
        def rec(remaining, items):
            if remaining == 0:
                out.append(list(items))
                return
            for size in range(1, remaining + 1):
                for f in factors(size, depth):
                    if items:
                        for op in OPS:
                            rec(remaining - size, items + [op, f])
                    else:
                        rec(remaining - size, [f])
        rec(k, [])
        res = []
        for items in out:
            txt = " ".join(x if isinstance(x, str) else x[0] for x in items)
            # reference: split on low operators, each piece is a &-chain
            terms, cur = [], [items[0][1]]
            for i in range(1, len(items), 2):
                if items[i] == "&":
                    cur.append(items[i + 1][1])
                else:
                    terms.append(cur); cur = [items[i + 1][1]]
            terms.append(cur)
            tree = None
            for t in terms:
                a = t[0]
                for x in t[1:]:
                    a = ("&", a, x)
                tree = a if tree is None else ("|", tree, a)
            res.append((txt, tree))
        return res
    return flat(n, depth)


def ev(tree, tags):
    if tree[0] == "t":
        return tree[1] in tags
    if tree[0] == "!":
        return not ev(tree[1], tags)
    if tree[0] == "&":
        return ev(tree[1], tags) and ev(tree[2], tags)
    return ev(tree[1], tags) or ev(tree[2], tags)


count = 0
for n in range(1, maxatoms + 1):
    for txt, tree in exprs(n, 1):
        p = parse(txt)
        count += 1
        for r in range(len(TAGS) + 1):
            for tags in itertools.combinations(TAGS, r):
                got, want = bool(p.test(list(tags))), ev(tree, set(tags))
                if got != want:
                    print(json.dumps({"violation": "taglang != reference", "expr": txt, "tags": list(tags), "real": got, "spec": want}))
                    sys.exit(1)
print(json.dumps({"ok": True, "expressions": count, "maxatoms": maxatoms, "tags": TAGS}))
