"""Sidecar contracts for the base parsers in insights/core/__init__.py (C14): CommandParser, JSONParser, YAMLParser."""
import collections
from pyvc.dsl import *

M = "insights/core/__init__.py"
CP = Ref("CommandParser")
BAD = ("(truthy({r}) and exists(b, range(0, len({sel})), exists(i, range(0, len({r})), {sel}[b] in uf('str_lower', STR, {r}[i]))))")


def declare(reg):
    reg.sort(Str=STR)
    reg.exc_files.append("insights/core/exceptions.py")
    reg.cls("Context", content=List(STR))
    reg.cls("CommandParser", __bad_single_lines=List(STR), __bad_lines=List(STR), inited_with=Opt(Ref("Context")), __class__=PY)
    SEL = "(bad_lines if len(results) > 1 else bad_single_lines)"
    reg.contract(M, "CommandParser.validate_lines", params=dict(results=List(STR), bad_single_lines=List(STR), bad_lines=List(STR)),
                 returns=BOOL, static=True, pure=False, raises={},
                 # documented switch: one line -> the single-line phrases, several lines -> the multi-line phrases; any letter case
                 ensures=["result == (not %s)" % BAD.format(r="results", sel=SEL)])
    reg.contract("<base>", "Parser.__init__", params=dict(self=CP, context=Ref("Context")), modifies=["CommandParser.inited_with"], external=True,
                 ensures=["self.inited_with == context", "forall(o, Ref_CP, implies(o != self, o.inited_with == old(o.inited_with)))"],
                 note="Parser.__init__(context) keeps the context and parses its content (not under contract here)")
    reg.sort(Ref_CP=CP)
    C = "context.content"
    BUILTIN_BAD = BAD.format(r=C, sel="(self.__bad_lines if len(%s) > 1 else self.__bad_single_lines)" % C)
    EXTRA_BAD = "(extra_bad_lines is not None and truthy(extra_bad_lines) and %s)" % BAD.format(r=C, sel="some(extra_bad_lines)")
    reg.contract(M, "CommandParser.__init__", params=dict(self=CP, context=Ref("Context"), extra_bad_lines=Opt(List(STR))),
                 defaults=dict(extra_bad_lines="None"), modifies=["CommandParser.inited_with"],
                 requires=["self.inited_with is None"],
                 # output that is itself an error message is never parsed: the content error is raised and no parser object results
                 raises={"ContentException": "%s or %s" % (BUILTIN_BAD, EXTRA_BAD)}, raise_frame="unchanged",
                 # any other output reaches the parser unchanged (the same context object)
                 ensures=["self.inited_with == context", "context.content == old(context.content)"])

    # ------------------------------------------------------------------ JSON / YAML base parsers
    reg.cls("DocParser", pyclasses=["JSONParser", "YAMLParser"], data=PY, unparsed_lines=List(STR), ignore_lines=List(STR), __class__=PY)
    DP = Ref("DocParser")
    reg.external("sys.exc_info", returns=Tup(PY, PY, PY))
    reg.external("six.reraise", params=dict(tp=None, value=EXC, tb=None), raises={"Exception": "True"}, raise_frame="unchanged",
                 ensures_raise={"Exception": ["exc == value"]}, note="six.reraise(tp, value, tb) raises `value`")
    reg.external("json.loads", params=dict(s=STR), returns=PY, raises={"Exception": None}, raise_frame="unchanged",
                 ensures=["result is uf('json_value', PY, s)"], note="json.loads: a function of the text, or some exception")
    reg.external("yaml.load", params=dict(s=STR, Loader=None), returns=PY, raises={"Exception": None}, raise_frame="unchanged",
                 ensures=["result is uf('yaml_value', PY, s)"])
    DOC = "(isinstance(self.data, dict) or isinstance(self.data, list))"
    STARTS = "(truthy(uf('str_strip', STR, content[{k}])) and uf('str_strip', STR, content[{k}]).startswith('{{') or uf('str_strip', STR, content[{k}]).startswith('['))"
    reg.contract(M, "JSONParser.parse_content", params=dict(self=DP, content=List(STR)), modifies=["DocParser.data", "DocParser.unparsed_lines"],
                 locals=dict(actual_start_index=INT, line=STR),
                 ghosts=dict(gs=(INT, "0")), ghost_on=[("self.unparsed_lines = content[:actual_start_index]", "gs = actual_start_index", "before")],
                 loops={0: ["actual_start_index == 0", "forall(k, range(0, i_0), not %s)" % STARTS.format(k="k"),
                            "forall(k, range(0, len(it_0)), it_0[k][0] == k and it_0[k][1] == content[k])", "len(it_0) == len(content)"]},
                 # never another exception type
                 raises={"SkipComponent": None, "ParseException": None},
                 ensures=[
                     # the start line: the first line that (stripped) starts with { or [, else the first line
                     "0 <= gs and gs <= len(content) and forall(k, range(0, gs), not %s)" % STARTS.format(k="k"),
                     "gs == 0 or %s" % STARTS.format(k="gs"),
                     "seq_eq(self.unparsed_lines, content[:gs])",
                     # exactly the document's value; null is a skip; anything but a mapping or sequence is a parse error
                     "self.data is uf('json_value', PY, uf('str_join', STR, '\\n', content[gs:]))",
                     "self.data is not None",
                     DOC,
                 ])
    reg.contract(M, "YAMLParser.parse_content", params=dict(self=DP, content=List(STR)), modifies=["DocParser.data"],
                 raises={"SkipComponent": None, "ParseException": None},
                 ensures=["self.data is not None", DOC])

    # ------------------------------------------------------------------ log line search (TextFileOutput)
    LS = U("LineSearch")          # what _valid_search returns: a total predicate on a line
    PL = U("ParsedLine")
    Chk = U("CheckFn")            # all / any (or another reducer of booleans)
    reg.sort(LineSearch=LS, CheckFn=Chk)
    reg.cls("TFO", pyclasses=["TextFileOutput", "LogFileOutput"], lines=List(STR))
    TFO = Ref("TFO")
    LSEM = "uf('lsem', BOOL, {f}, {l})"
    reg.callable_sorts = getattr(reg, "callable_sorts", {})
    reg.callable_sorts["LineSearch"] = reg.external("<line predicate>", params=collections.OrderedDict(f=LS, l=STR), returns=BOOL, pure=True, raises={},
                                                    ensures=["result == %s" % LSEM.format(f="f", l="l")],
                                                    note="the closure _valid_search returns: total and pure; lsem(f, line) is its truth value")
    reg.callable_sorts["CheckFn"] = reg.external("<check>", params=collections.OrderedDict(c=Chk, bs=List(BOOL)), returns=BOOL, pure=True, raises={},
                                                 ensures=["result == uf('chk', BOOL, c, bs)"], note="`check` is all / any: a pure function of the booleans")
    reg.interface("TFO", "_parse_line", params=dict(self=TFO, line=STR), returns=PL, pure=True, raises={},
                  ensures=["result == uf('pl', U('ParsedLine'), self, line)"], note="_parse_line: a pure function of the line (overridden by subclasses)")
    # the two closures _valid_search builds: substring test; check() over the substring tests of the words
    reg.contract(M, "TextFileOutput._valid_search.<locals>.<lambda>#0", params=dict(l=STR), returns=BOOL, free=dict(s=STR), raises={},
                 ensures=["result == (s in l)"])
    reg.contract(M, "TextFileOutput._valid_search.<locals>.<lambda>#1", params=dict(l=STR), returns=BOOL, free=collections.OrderedDict(s=List(STR), check=Chk), raises={},
                 ensures=["result == uf('chk', BOOL, check, [(w in l) for w in s])"])
    BADS = "uf('bad_search', BOOL, s)"
    reg.interface("TFO", "_valid_search", params=collections.OrderedDict(self=TFO, s=PY, check=Chk), defaults=dict(check="uf('const_all', U('CheckFn'))"),
                  returns=Opt(LS), pure=True,
                  raises={"TypeError": BADS}, raise_frame="unchanged",
                  ensures=["(result is None) == (s is None)", "implies(s is not None, some(result) == uf('search_of', U('LineSearch'), s, check))"],
                  note="_valid_search(s, check): TypeError for anything but a string / non-empty list of strings / None; None for None; otherwise "
                       "the predicate search_of(s, check) (its two closures are verified as units; the dispatch on the kind of s is not)")
    SRCH = "uf('search_of', U('LineSearch'), s, check)"
    MATCH = LSEM.format(f=SRCH, l="{l}")
    # get(): the first `num` matching lines in scan order (from the tail when reverse), returned in original order
    GI = ["len(gi) == len(ret)", "it_0 == lines",
          "forall(k, range(0, len(gi)), 0 <= gi[k] and gi[k] < i_0 and %s and ret[k] == uf('pl', U('ParsedLine'), self, lines[gi[k]]))" % MATCH.format(l="lines[gi[k]]"),
          "forall(a, range(0, len(gi)), forall(b, range(0, len(gi)), implies(a < b, gi[a] < gi[b])))",
          "implies(num is not None, len(gi) <= unbox_int(num) or len(gi) == 0)",
          "implies(s is None and i_0 > 0, num is not None and unbox_int(num) <= 0)",
          # nothing that matches is skipped, except once the limit is reached
          "forall(j, range(0, i_0), implies(%s, exists(k, range(0, len(gi)), gi[k] == j) or (num is not None and len(gi) >= unbox_int(num) and "
          "(len(gi) == 0 or j > gi[len(gi) - 1]))))" % MATCH.format(l="lines[j]")]
    reg.contract(M, "TextFileOutput.get", params=collections.OrderedDict(self=TFO, s=PY, check=Chk, num=PY, reverse=BOOL),
                 defaults=collections.OrderedDict(check="uf('const_all', U('CheckFn'))", num="None", reverse="False"), returns=List(PL),
                 locals=dict(ret=List(PL), gi=List(INT), lines=List(STR)),
                 ghosts=collections.OrderedDict(gi=(List(INT), "[]")),
                 ghost_on=[("ret.append(self._parse_line(l))", "gi.append(i_0)", "after")],
                 loops={0: GI},
                 # None as search: not callable - a TypeError as soon as one line is actually tested
                 raises={"TypeError": "(num is not None and not isinstance(num, int)) or %s or "
                                      "(s is None and len(self.lines) > 0 and (num is None or unbox_int(num) > 0))" % BADS}, raise_frame="unchanged",
                 ensures=[t.replace("i_0", "len(lines)") for t in GI[2:]] + [
                     "len(gi) == len(result)",
                     "implies(not reverse, lines == self.lines and seq_eq(result, ret))",
                     "implies(reverse, len(lines) == len(self.lines) and forall(k, range(0, len(lines)), lines[k] == self.lines[len(lines) - 1 - k]) and "
                     "forall(k, range(0, len(result)), result[k] == ret[len(ret) - 1 - k]))"])
    reg.contract(M, "TextFileOutput.__contains__", params=collections.OrderedDict(self=TFO, s=PY), returns=BOOL,
                 raises={"TypeError": "%s or (s is None and len(self.lines) > 0)" % BADS}, raise_frame="unchanged",
                 ensures=["result == exists(k, range(0, len(self.lines)), %s)" % LSEM.format(f="uf('search_of', U('LineSearch'), s, uf('const_all', U('CheckFn')))", l="self.lines[k]")])

    # ------------------------------------------------------------------ time-based search: the inclusion state machine of get_after
    DT, TD = U("DT"), U("TD")
    PF = U("ParseFn")
    reg.sort(DT=DT, TD=TD, ParseFn=PF)
    reg.cls("DT", year=INT)
    reg.cls("Regex")
    reg.cls("Match", __truthy__=True)
    reg.operators = {("DT", "Sub", "DT"): (TD, "dt_sub"), ("TD", "Gt", "TD"): (BOOL, "td_gt"), ("DT", "GtE", "DT"): (BOOL, "dt_ge"),
                     # datetimes and timedeltas are totally ordered: the other comparisons are derived from >= / >
                     ("DT", "Lt", "DT"): (BOOL, "dt_ge", "not"), ("DT", "LtE", "DT"): (BOOL, "dt_ge", "swap"), ("DT", "Gt", "DT"): (BOOL, "dt_ge", "notswap"),
                     ("TD", "Lt", "TD"): (BOOL, "td_gt", "swap"), ("TD", "LtE", "TD"): (BOOL, "td_gt", "not"), ("TD", "GtE", "TD"): (BOOL, "td_gt", "notswap")}
    reg.interface("DT", "replace", params=collections.OrderedDict(self=DT, year=INT), returns=DT, pure=True, raises={},
                  ensures=["result == uf('dt_with_year', U('DT'), self, year)"],
                  note="datetime.replace(year=y): a function of the stamp and the year (29 February in a non-leap year raises ValueError: not modelled)")
    reg.interface("Regex", "search", params=collections.OrderedDict(self=Ref("Regex"), line=STR), returns=Opt(Ref("Match")), pure=True, raises={},
                  ensures=["result == uf('ts_match', Opt(Ref('Match')), self, line)"], note="re.search: a pure function of pattern and line")
    reg.interface("Match", "group", params=collections.OrderedDict(self=Ref("Match"), n=INT), returns=STR, pure=True, raises={},
                  ensures=["result == uf('m_group', STR, self, n)"])
    reg.callable_sorts["ParseFn"] = reg.external("<timestamp parser>", params=collections.OrderedDict(f=PF, text=STR), returns=DT, pure=True, raises={},
                                                 ensures=["result == uf('parse_ts', U('DT'), f, text)"],
                                                 note="strptime on a timestamp-shaped substring: total here (the property quantifies over logs whose "
                                                      "timestamp-shaped substrings are valid dates in the parser's format)")
    reg.external("datetime.timedelta", params=dict(days=INT), returns=TD, pure=True, ensures=["result == uf('td_days', U('TD'), days)"])
    L = "self.lines[{k}]"
    SEL = "(not truthy(s) or %s)" % LSEM.format(f="uf('search_of', U('LineSearch'), s, uf('const_all', U('CheckFn')))", l=L)
    TS = "(time_re.search(%s) is not None)" % L
    RAW = "parse_fn(time_re.search(%s).group(0))" % L
    ADJ = "%s.replace(year=timestamp.year)" % RAW
    # the year inference: a stamp without year gets the reference year, moved one year back / forward when that lands more than 330 days
    # after / before the reference time
    EFF = ("({raw} if logs_have_year else ({adj}.replace(year=timestamp.year - 1) if ({adj} - timestamp) > eleven_months else "
           "({adj}.replace(year=timestamp.year + 1) if (timestamp - {adj}) > eleven_months else {adj})))").format(raw=RAW, adj=ADJ)
    LATER = "(%s >= timestamp)" % EFF
    SELTS = "(%s and %s)" % (SEL, TS)
    # lt[k]: the last selected, timestamped line before line k (-1: none)
    LT_OK = ("(0 - 1 <= {v} and {v} < {k} and implies({v} >= 0, %s) and forall(m, range({v} + 1, {k}), not %s))"
             % (SELTS.format(k="{v}"), SELTS.format(k="m")))
    # line k is returned iff it is selected and: it carries a time stamp at or after the given time, or it carries none and the last
    # selected time-stamped line before it was returned (continuation lines)
    INC = "(%s and (%s if %s else (lt[{k}] >= 0 and %s)))" % (SEL, LATER, TS, LATER.format(k="lt[{k}]"))
    GA = ["it_0 == self.lines", "len(lt) == i_0", "eleven_months == uf('td_days', U('TD'), 330)",
          "(search_by_expression is None) == (s is None) and implies(s is not None, some(search_by_expression) == uf('search_of', U('LineSearch'), s, uf('const_all', U('CheckFn'))))",
          "forall(k, range(0, i_0), %s)" % LT_OK.format(v="lt[k]", k="k"),
          LT_OK.format(v="last", k="i_0"),
          "including_lines == (last >= 0 and %s)" % LATER.format(k="last"),
          "len(yi) == len(yields_)",
          "forall(a, range(0, len(yi)), forall(b, range(0, len(yi)), implies(a < b, yi[a] < yi[b])))",
          "forall(m, range(0, len(yi)), 0 <= yi[m] and yi[m] < i_0 and yields_[m] == uf('pl', U('ParsedLine'), self, self.lines[yi[m]]))",
          "forall(k, range(0, i_0), exists(m, range(0, len(yi)), yi[m] == k) == %s)" % INC.format(k="k")]
    reg.contract(M, "LogFileOutput.get_after", params=collections.OrderedDict(self=TFO, timestamp=DT, s=PY), defaults=dict(s="None"), yields=PL,
                 from_stmt="eleven_months = datetime.timedelta(days=330)",
                 locals=collections.OrderedDict(time_re=Ref("Regex"), parse_fn=PF, logs_have_year=BOOL, eleven_months=TD, including_lines=BOOL,
                                                search_by_expression=Opt(LS), lt=List(INT), yi=List(INT), last=INT, logstamp=DT),
                 ghosts=collections.OrderedDict(lt=(List(INT), "[]"), yi=(List(INT), "[]"), last=(INT, "0 - 1")),
                 ghost_on=[("continue", "lt.append(last)", "before"), ("match = time_re.search(line)", "lt.append(last)", "before"),
                           # len(lt) - 1 is the index of the current line (lt got its entry for this line already); before the loop it is -1
                           ("including_lines = True", "last = len(lt) - 1", "after"), ("including_lines = False", "last = len(lt) - 1", "after"),
                           ("yield self._parse_line(line)", "yi.append(len(lt) - 1)", "after")],
                 loops={0: GA},
                 raises={"TypeError": BADS}, raise_frame="unchanged",
                 ensures=[t.replace("i_0", "len(self.lines)") for t in GA[4:6] + GA[7:]] + ["len(lt) == len(self.lines)", "seq_eq(result, yields_)"])
