"""BOUNDED stand-in (never counted as proved) for the RECOGNITION half of C08: the real Cleaner on generated lines in which sensitive tokens
stand at line start / end, next to punctuation, repeated and mixed on one line; nothing sensitive may survive except where it coincides
with a substitute the obfuscator issued itself.
  IPv4 (obfuscate on): K addresses x prefixes x suffixes, one and two per line, loopback kept
  host names (obfuscate_hostname): short name, fqdn, another host of the domain
  MAC (obfuscate_mac): delimited by non-word characters
  password: the secret after a 'password' key in the accepted notations, up to 3 occurrences per line
  keywords / exclusion patterns (plain and regex): every occurrence replaced / every matching line removed
usage: /venv/bin/python cleaner_exhaustive.py <repo root> <level 1|2> ; exit 1 + JSON line with a witness on a leak."""
import itertools, json, sys
root, level = sys.argv[1], int(sys.argv[2])
sys.path.insert(0, root)
import logging
logging.disable(logging.CRITICAL)
from insights.cleaner import Cleaner
from insights.client.config import InsightsConfig


def fail(**kw):
    print(json.dumps(kw, default=repr))
    sys.exit(1)


count = dict(ip=0, host=0, mac=0, password=0, keyword=0, pattern=0)
PRE = ["", " ", "=", "(", "[", "\"", ":", "from ", "x=", "\t"]
SUF = ["", " ", ".", ",", ":", ")", "]", "\"", "/24", ":22", ". next", ";", "_x", "-x", "/x"]
if level < 2:
    PRE, SUF = PRE[:7], SUF[:9] + SUF[12:]

# ---------------------------------------------------------------- IPv4
ADDRS = ["192.168.122.45", "8.8.4.4", "10.0.0.255", "172.16.8.9", "203.0.113.77"][:3 if level < 2 else 5]
conf = InsightsConfig(obfuscate=True, obfuscate_hostname=True, obfuscate_mac=True)
FQDN = "host1.example.org"


def fresh():
    return Cleaner(conf, {}, FQDN)


def issued(cl, key):
    ob = cl.obfuscate.get(key)
    return set(m["obfuscated"] for m in ob.mapping()) if ob is not None else set()


for a in ADDRS:
    for p, s in itertools.product(PRE, SUF):
        line = "msg %s%s%s" % (p, a, s)
        cl = fresh()
        out = cl.clean_content(line)
        count["ip"] += 1
        if a in out and a not in issued(cl, "ip"):
            fail(violation="IPv4 address survives", line=line, out=out, address=a)
for a, b in itertools.permutations(ADDRS[:3], 2):
    for s in SUF[:6]:
        line = "%s%s and %s%s %s" % (a, s, b, s, a)
        cl = fresh()
        out = cl.clean_content(line)
        count["ip"] += 1
        left = [x for x in (a, b) if x in out and x not in issued(cl, "ip")]
        if left:
            fail(violation="IPv4 address survives (two on a line)", line=line, out=out, address=left)
cl = fresh()
out = cl.clean_content("listen 127.0.0.1:80")
if "127.0.0.1" not in out:
    fail(violation="loopback was replaced", out=out)

# ---------------------------------------------------------------- host names
for tok in (FQDN, "host1", "db2.example.org"):
    for p, s in itertools.product(PRE, SUF[:8] + ["_access.log", "-old", "/path"]):
        if s.startswith("/2") or s.startswith(":22"):
            continue
        line = "msg %s%s%s end" % (p, tok, s)
        cl = fresh()
        out = cl.clean_content(line)
        count["host"] += 1
        if tok in out and tok not in issued(cl, "hostname"):
            # the short name may legitimately remain as part of an issued substitute only
            fail(violation="host name survives", line=line, out=out, token=tok)

# ---------------------------------------------------------------- MAC
for mac in ("52:54:00:ab:cd:ef", "00:1A:2B:3C:4D:5E"):
    for p, s in itertools.product([" ", "=", "(", "[", "\"", "\t"], [" ", ",", ")", "]", "\"", ";"]):
        line = "link/ether%s%s%s brd" % (p, mac, s)
        cl = fresh()
        out = cl.clean_content(line)
        count["mac"] += 1
        if mac in out and mac not in issued(cl, "mac"):
            fail(violation="MAC address survives", line=line, out=out, mac=mac)

# ---------------------------------------------------------------- passwords (do not depend on obfuscate)
plain = Cleaner(InsightsConfig(), {}, FQDN)
FORMS = ["password=%s", "password: %s", "password = %s", "password_x=%s", "password \"= \"%s", "password %s", "password --md5 %s"]
for form in FORMS:
    for n in (1, 2, 3):
        secrets = ["S3cr3t%dx" % i for i in range(n)]
        line = " ; ".join(form % s for s in secrets)
        out = plain.clean_content(line)
        count["password"] += 1
        left = [s for s in secrets if s in out]
        if left:
            fail(violation="secret after a password key survives", line=line, out=out, secrets=left)

# ---------------------------------------------------------------- keywords and exclusion patterns
kw = Cleaner(InsightsConfig(), {"keywords": ["sekrit", "Top.Secret"]}, FQDN)
for tok in ("sekrit", "Top.Secret"):
    for p, s in itertools.product(PRE, SUF[:8]):
        line = "a %s%s%s b %s" % (p, tok, s, tok)
        out = kw.clean_content(line)
        count["keyword"] += 1
        if tok in out:
            fail(violation="keyword survives", line=line, out=out, keyword=tok)
for rm, bad, good in (({"patterns": ["forbidden", "a.b"]}, ["x forbidden y", "forbidden", "1 a.b 2"], ["allowed", "a-b"]),
                      ({"patterns": {"regex": ["for+bid", "^secret[0-9]+$"]}}, ["it is forrrbid den", "secret123"], ["fobid", "secret12x"]),
                      # groups and a numeric back-reference in a later pattern; POSIX classes
                      ({"patterns": {"regex": ["api[_-]?(key|token)", "([\"'])s3cr3t\\1", "pin[[:space:]]*=[[:space:]]*[[:digit:]]{4}"]}},
                       ["my api_key here", "auth = \"s3cr3t\"", "auth2 = 's3cr3t'", "pin = 7777"], ["auth = \"s3cr3t'", "pin = 77", "apiless"])):
    pc = Cleaner(InsightsConfig(), rm, FQDN)
    out = pc.clean_content(list(bad) + list(good))
    count["pattern"] += 1
    if any(b in out for b in bad) or [g for g in good if g not in out]:
        fail(violation="exclusion pattern: a matching line remains or another line was removed", config=rm, out=out)
print(json.dumps(dict(ok=True, level=level, **count)))
