#!/bin/bash
# collect_round3.sh <pid>... : copy a finished round-2 agent's output (/tmp/wt5_<pid>/_out) into seeded/<pid>-C and -D, quick demo validation
for pid in "$@"; do
  src=/tmp/wt5_$pid/_out
  [ -f $src/A.diff ] || { echo "$pid: no output yet"; continue; }
  for pair in "A I" "B J"; do set -- $pair; X=$1; Y=$2
    d=/verif/seeded/$pid-$Y; mkdir -p $d
    cp $src/$X.diff $d/patch.diff; cp $src/demo_$X.py $d/demo.py; cp $src/notes.md $d/notes.md 2>/dev/null
    # demo on pristine and on the changed tree (scratch copy)
    SCR=/tmp/scr_val_$pid$Y; rm -rf $SCR; mkdir -p $SCR/_out; rsync -a /repo/insights $SCR/; cp $d/demo.py $SCR/_out/demo.py
    (cd $SCR && /venv/bin/python _out/demo.py > /dev/null 2>&1); p=$?
    (cd $SCR && git init -q . && git apply $d/patch.diff 2>/dev/null); a=$?
    (cd $SCR && /venv/bin/python _out/demo.py > /dev/null 2>&1); m=$?
    rm -rf $SCR
    python3 - "$d" "$pid" "$Y" "$p" "$a" "$m" <<'PY'
import json, sys, os
d, pid, Y, p, a, m = sys.argv[1:7]
notes = open(os.path.join(d, "notes.md")).read() if os.path.exists(os.path.join(d, "notes.md")) else ""
json.dump({"property_id": pid, "change": Y, "round": 5,
           "source": "independent sub-agent (fifth round) given only the property record and a scratch worktree; pointed at the functions newly put under contract in the extension session (walk_dependencies, dr.run body, get_registry_points, run_components outcome storage, provider constructors and factories, _load_config_file, String/Lift/builders)",
           "notes_excerpt": notes[:6000],
           "confirmed": {"how": "tools/collect_round3.sh: demo on a pristine scratch copy and on the copy with the patch applied; the agent ran the full suite (see notes)",
                         "result": "demo_pristine_exit=%s apply_exit=%s demo_mutant_exit=%s" % (p, a, m)},
           "detected_by": None}, open(os.path.join(d, "meta.json"), "w"), indent=1)
PY
    echo "$pid-$Y demo_pristine=$p apply=$a demo_mutant=$m"
  done
done
