"""Sidecar contracts for the base parsers in insights/core/__init__.py (C14): CommandParser, JSONParser, YAMLParser."""
import collections
from pyvc.dsl import *

M = "insights/core/__init__.py"
CP = Ref("CommandParser")
BAD = ("(truthy({r}) and exists(b, range(0, len({sel})), exists(i, range(0, len({r})), {sel}[b] in uf('str_lower', STR, {r}[i]))))")


def declare(reg):
    reg.sort(Str=STR)
    reg.exc_files.append("insights/core/exceptions.py")
    reg.cls("Context", content=List(STR))
    reg.cls("CommandParser", __bad_single_lines=List(STR), __bad_lines=List(STR), inited_with=Opt(Ref("Context")), __class__=PY)
    SEL = "(bad_lines if len(results) > 1 else bad_single_lines)"
    reg.contract(M, "CommandParser.validate_lines", params=dict(results=List(STR), bad_single_lines=List(STR), bad_lines=List(STR)),
                 returns=BOOL, static=True, pure=False, raises={},
                 # documented switch: one line -> the single-line phrases, several lines -> the multi-line phrases; any letter case
                 ensures=["result == (not %s)" % BAD.format(r="results", sel=SEL)])
    reg.contract("<base>", "Parser.__init__", params=dict(self=CP, context=Ref("Context")), modifies=["CommandParser.inited_with"], external=True,
                 ensures=["self.inited_with == context", "forall(o, Ref_CP, implies(o != self, o.inited_with == old(o.inited_with)))"],
                 note="Parser.__init__(context) keeps the context and parses its content (not under contract here)")
    reg.sort(Ref_CP=CP)
    C = "context.content"
    BUILTIN_BAD = BAD.format(r=C, sel="(self.__bad_lines if len(%s) > 1 else self.__bad_single_lines)" % C)
    EXTRA_BAD = "(extra_bad_lines is not None and truthy(extra_bad_lines) and %s)" % BAD.format(r=C, sel="some(extra_bad_lines)")
    reg.contract(M, "CommandParser.__init__", params=dict(self=CP, context=Ref("Context"), extra_bad_lines=Opt(List(STR))),
                 defaults=dict(extra_bad_lines="None"), modifies=["CommandParser.inited_with"],
                 requires=["self.inited_with is None"],
                 # output that is itself an error message is never parsed: the content error is raised and no parser object results
                 raises={"ContentException": "%s or %s" % (BUILTIN_BAD, EXTRA_BAD)}, raise_frame="unchanged",
                 # any other output reaches the parser unchanged (the same context object)
                 ensures=["self.inited_with == context", "context.content == old(context.content)"])

    # ------------------------------------------------------------------ JSON / YAML base parsers
    reg.cls("DocParser", pyclasses=["JSONParser", "YAMLParser"], data=PY, unparsed_lines=List(STR), ignore_lines=List(STR), __class__=PY)
    DP = Ref("DocParser")
    reg.external("sys.exc_info", returns=Tup(PY, PY, PY))
    reg.external("six.reraise", params=dict(tp=None, value=EXC, tb=None), raises={"Exception": "True"}, raise_frame="unchanged",
                 ensures_raise={"Exception": ["exc == value"]}, note="six.reraise(tp, value, tb) raises `value`")
    reg.external("json.loads", params=dict(s=STR), returns=PY, raises={"Exception": None}, raise_frame="unchanged",
                 ensures=["result is uf('json_value', PY, s)"], note="json.loads: a function of the text, or some exception")
    reg.external("yaml.load", params=dict(s=STR, Loader=None), returns=PY, raises={"Exception": None}, raise_frame="unchanged",
                 ensures=["result is uf('yaml_value', PY, s)"])
    DOC = "(isinstance(self.data, dict) or isinstance(self.data, list))"
    STARTS = "(truthy(uf('str_strip', STR, content[{k}])) and uf('str_strip', STR, content[{k}]).startswith('{{') or uf('str_strip', STR, content[{k}]).startswith('['))"
    reg.contract(M, "JSONParser.parse_content", params=dict(self=DP, content=List(STR)), modifies=["DocParser.data", "DocParser.unparsed_lines"],
                 locals=dict(actual_start_index=INT, line=STR),
                 ghosts=dict(gs=(INT, "0")), ghost_on=[("self.unparsed_lines = content[:actual_start_index]", "gs = actual_start_index", "before")],
                 loops={0: ["actual_start_index == 0", "forall(k, range(0, i_0), not %s)" % STARTS.format(k="k"),
                            "forall(k, range(0, len(it_0)), it_0[k][0] == k and it_0[k][1] == content[k])", "len(it_0) == len(content)"]},
                 # never another exception type
                 raises={"SkipComponent": None, "ParseException": None},
                 ensures=[
                     # the start line: the first line that (stripped) starts with { or [, else the first line
                     "0 <= gs and gs <= len(content) and forall(k, range(0, gs), not %s)" % STARTS.format(k="k"),
                     "gs == 0 or %s" % STARTS.format(k="gs"),
                     "seq_eq(self.unparsed_lines, content[:gs])",
                     # exactly the document's value; null is a skip; anything but a mapping or sequence is a parse error
                     "self.data is uf('json_value', PY, uf('str_join', STR, '\\n', content[gs:]))",
                     "self.data is not None",
                     DOC,
                 ])
    reg.contract(M, "YAMLParser.parse_content", params=dict(self=DP, content=List(STR)), modifies=["DocParser.data"],
                 raises={"SkipComponent": None, "ParseException": None},
                 ensures=["self.data is not None", DOC])
