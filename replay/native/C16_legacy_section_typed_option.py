"""Native reproduction (C16): a configuration file that uses the legacy section name [redhat-access-insights] and holds a typed option
(retries / cmd_timeout / http_timeout / a boolean).  Before the fix the typed getters were asked for the section [insights-client], which such a
file does not have: NoSectionError escaped option loading and the file's values were never applied.
usage: /venv/bin/python replay/native/C16_legacy_section_typed_option.py [repo root]  -> exit 0 if the options take the file's values, 1 otherwise"""
import os, sys, tempfile, shutil
sys.path.insert(0, sys.argv[1] if len(sys.argv) > 1 else "/repo")
from insights.client.config import InsightsConfig
d = tempfile.mkdtemp(prefix="c16n_")
try:
    p = os.path.join(d, "c.conf")
    open(p, "w").write("[redhat-access-insights]\nretries=3\nobfuscate=True\nhttp_timeout=7.5\nbase_url=legacy.example.org/r\n")
    c = InsightsConfig(_print_errors=False, conf=p)
    try:
        c._load_config_file()
    except Exception as e:
        print("VIOLATED: loading the configuration file raised %s: %s" % (type(e).__name__, e))
        sys.exit(1)
    got = (c.retries, c.obfuscate, c.http_timeout, c.base_url)
    if got != (3, True, 7.5, "legacy.example.org/r"):
        print("VIOLATED: options do not take the values of the configuration file:", got)
        sys.exit(1)
    print("OK", got)
finally:
    shutil.rmtree(d, ignore_errors=True)
