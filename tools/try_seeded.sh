#!/bin/bash
# try_seeded.sh <diff> <check id>... : apply a patch to a scratch copy of /repo's working tree and run checks against it
D=$1; shift
SCR=/tmp/scr_try_$$
mkdir -p $SCR && rsync -a /repo/insights $SCR/ && cd $SCR && git init -q . && git add -A >/dev/null && git -c user.email=a@b -c user.name=x commit -qm base >/dev/null
if ! git apply $D 2>/tmp/apply_err_$$; then echo "APPLY-FAILED: $(head -2 /tmp/apply_err_$$)"; rm -rf $SCR /tmp/apply_err_$$; exit 9; fi
cd /verif
for c in "$@"; do VERIF_REPO=$SCR timeout 3000 ./check $c 2>&1 | grep -E "VIOLATION|CHECKER-ERROR|UNDECIDED|exit [0-9]" | cut -c1-260; done
rm -rf $SCR /tmp/apply_err_$$
git -C /verif checkout -- evidence 2>/dev/null
