"""Engine fixtures run by setup: one obligation that must prove, one that must be refuted at finite scope,
one set-iteration determinism check (arbitrary enumeration orders may differ)."""
import z3
from . import core
from .core import CTX, U, List, Set, fresh, wf


def main():
    ok = True
    CTX.reset()
    Comp = U("Comp")
    l = fresh(List(Comp), "l")
    x = fresh(Comp, "x")
    s = z3.Solver()
    s.set("timeout", 10000)
    s.add(*wf(l))
    s.add(z3.Not(core.ssubset(core.elems(l), core.elems(core.lappend(l, x)))))
    r1 = s.check()
    ok &= (r1 == z3.unsat)
    CTX.reset(scope=2)
    Comp = U("Comp")
    l = fresh(List(Comp), "l")
    x = fresh(Comp, "x")
    s = z3.Solver()
    s.set("timeout", 10000)
    s.add(*wf(l))
    s.add(z3.Not(core.ssubset(core.elems(core.lappend(l, x)), core.elems(l))))
    s.add(*CTX.scope_constraints)
    r2 = s.check()
    ok &= (r2 == z3.sat)
    CTX.reset()
    print("pyvc selftest: must-prove=%s must-refute(finite scope)=%s -> %s" % (r1, r2, "ok" if ok else "FAILED"))
    return 0 if ok else 1
