"""BOUNDED stand-in / native witness search for the verifier half of C18 (never counted as proved): the real verify() end to end, with only GPG's
verdict and the bytes of the shipped revocation list substituted.  Scenarios: a play is accepted iff its signature is valid and its digest is
not on the revocation list - whatever way the list spells the hex digest (lower / upper case, grouped); the digest ignores exactly the declared
dynamic parts (hosts, vars/insights_signature, excluded vars) and changes for every other edit (task text, a key, a type, nesting).
usage: /venv/bin/python playbook_verify_scenarios.py <repo root> ; exit 1 + JSON line with a witness."""
import binascii, copy, json, os, shutil, sys, tempfile
from unittest import mock
root = sys.argv[1]
sys.path.insert(0, root)
import logging
logging.disable(logging.CRITICAL)
from insights.client.constants import InsightsConstants as constants
from insights.client.apps.ansible import playbook_verifier as pv


def fail(**kw):
    print(json.dumps(kw, default=repr))
    sys.exit(1)


PLAY = "\n".join(["---", "- name: a play", "  hosts: localhost", "  vars:",
                  "    insights_signature_exclude: /hosts,/vars/insights_signature",
                  "    insights_signature: !!binary |", "      YzJsbmJtRjBkWEps", "    keep: 1",
                  "  tasks:", "    - name: task one", "      command: id", ""])
REVOKED = "\n".join(["- name: revocation list", "  timestamp: 1632510092", "  vars:",
                     "    insights_signature_exclude: /vars/insights_signature",
                     "    insights_signature: !!binary |", "      YzJsbmJtRjBkWEps", "  revoked_playbooks:",
                     "    - name: other.yml 00000000", "      hash: '{other}'", "    - name: this.yml", "      hash: '{digest}'", ""])
real_get_data = pv.pkgutil.get_data


class Verdict(object):          # stands for gnupg's result object: truthy iff the signature is valid
    def __init__(self, valid):
        self.valid, self.status = valid, "mocked"

    def __bool__(self):
        return self.valid
    __nonzero__ = __bool__


def run_verify(play, spelled, gpg_valid=True):
    data = REVOKED.format(other="0f" * 32, digest=spelled).encode("utf-8")

    def fake(package, resource):
        return data if (package, resource) == ("insights", "revoked_playbooks.yaml") else real_get_data(package, resource)
    home = tempfile.mkdtemp(prefix="c18v_")
    try:
        with mock.patch.object(constants, "insights_core_lib_dir", home), mock.patch.object(pv.pkgutil, "get_data", side_effect=fake), \
                mock.patch.object(pv.gnupg.GPG, "verify_data", return_value=Verdict(gpg_valid)):
            try:
                pv.verify(play)
            except pv.PlaybookVerificationError as err:
                return err.message
            return None
    finally:
        shutil.rmtree(home, ignore_errors=True)


def digest_of(play):
    return pv.hash_play(pv.serialize_play(pv.exclude_dynamic_elements(play)))


n = 0
play = pv.load_playbook_yaml(PLAY)[0]
d = digest_of(play)
low = binascii.hexlify(d).decode("ascii")
if run_verify(play, "ab" * 32) is not None:
    fail(violation="a validly signed play that is not revoked was rejected")
if run_verify(play, "ab" * 32, gpg_valid=False) is None:
    fail(violation="a play whose signature is not valid was accepted")
for title, spelled in (("lower case", low), ("upper case", low.upper()), ("grouped", " ".join(low[i:i + 16] for i in range(0, 64, 16)))):
    n += 1
    if run_verify(play, spelled) is None:
        fail(violation="a play whose digest is on the revocation list was accepted", spelling=title, listed_as=spelled)
# ---- what the digest covers
def edited(fn):
    p = copy.deepcopy(play)
    fn(p)
    return p


def set_(path, value):
    def f(p):
        node = p
        for k in path[:-1]:
            node = node[k]
        node[path[-1]] = value
    return f


SAME = [("hosts changed", set_(["hosts"], "all")), ("signature changed", set_(["vars", "insights_signature"], b"other"))]
DIFFERENT = [("task command changed", set_(["tasks", 0, "command"], "rm -rf /")), ("task renamed", set_(["tasks", 0, "name"], "task 1")),
             ("a variable that is not excluded changed", set_(["vars", "keep"], 2)), ("a variable's type changed", set_(["vars", "keep"], "1")),
             ("play renamed", set_(["name"], "b play")), ("a key added", set_(["become"], True)),
             ("nesting changed", set_(["tasks", 0, "command"], {"cmd": "id"}))]
for title, fn in SAME:
    n += 1
    if digest_of(edited(fn)) != d:
        fail(violation="the digest changed although only a declared dynamic part was edited", edit=title)
for title, fn in DIFFERENT:
    n += 1
    if digest_of(edited(fn)) == d:
        fail(violation="the digest did not change although a signed part was edited", edit=title)
print(json.dumps({"ok": True, "scenarios": n}))
