# A datasource that implements no spec raises CalledProcessError: before the fix nothing at all was recorded.
import sys, os
sys.path.insert(0, os.getcwd())
from insights.core import dr
from insights.core.plugins import datasource
from insights.core.exceptions import CalledProcessError
@datasource()
def bare(broker):
    raise CalledProcessError(1, "cmd", "boom")
b = dr.Broker()
dr.run(dr.get_dependency_graph(bare), broker=b)
print(dict(b.exceptions), len(b.tracebacks))
sys.exit(0 if bare in b.exceptions and len(b.tracebacks) == 1 else 1)
