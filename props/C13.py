"""C13 - package version comparison is RPM's ordering."""
import collections, json, os, subprocess
from contracts.rpm import V, I, R, RVC
from pyvc.dsl import STR

SIDECARS = ["rpm"]
UNITS = [(V, "rpm_version_compare")] + [(I, "InstalledRpm." + n) for n in ("__eq__", "__lt__", "__ne__", "__gt__", "__ge__", "__le__")] + \
        [(I, "RpmList.get_max"), (I, "RpmList.get_min")]
# C13-L1 (contracts only): for two packages of the same name exactly one of older / equal / newer holds and all six operators agree
_LT, _EQ, _GT = "(rvc(a, b) < 0)", "(rvc(a, b) == 0)", "(rvc(b, a) < 0)"
LEMMAS = [dict(
    name="C13-L1-operators",
    decls=collections.OrderedDict(a=R, b=R),
    hyps=[],
    goals=["rvc(a, b) == 0 - rvc(b, a)",                                  # antisymmetric composition of an antisymmetric S
           "rvc(a, a) == 0",
           "(%s and not %s and not %s) or (not %s and %s and not %s) or (not %s and not %s and %s)" % (_LT, _EQ, _GT, _LT, _EQ, _GT, _LT, _EQ, _GT),
           "(not %s) == (%s or %s)" % (_LT, _EQ, _GT),                     # >= is: not <
           "(not %s) == (%s or %s)" % (_GT, _EQ, _LT),                     # <= is: not >
           ])]


def _bounded0(check):
    """bounded stand-in for `_rpm_vercmp == S` and for S's order properties (labelled bounded, never counted as proved)"""
    maxlen = 3 if check.tier == "quick" else 4
    here = os.path.dirname(os.path.dirname(os.path.abspath(__file__)))
    p = subprocess.run(["/venv/bin/python", os.path.join(here, "bounded", "rpm_vercmp_exhaustive.py"), check.repo.root, str(maxlen)],
                       stdout=subprocess.PIPE, stderr=subprocess.PIPE, universal_newlines=True, timeout=3000)
    line = (p.stdout.strip().splitlines() or ["{}"])[-1]
    try:
        info = json.loads(line)
    except ValueError:
        info = {"error": (p.stderr or p.stdout)[-400:]}
    out = dict(name="_rpm_vercmp == S (transliteration of rpmvercmp.c), reflexive, antisymmetric, transitive; rpm_version_compare and the six operators "
                    "== epoch (numeric) / version / release order, also across package subclasses", level="bounded",
               bound="all strings over the alphabet 01ab.~^é up to length %d; plus ~1.25 million pairs of long structured versions (concatenations of <= 3 tokens "
                     "from 20: multi-digit and zero-padded numbers of 10-11 digits, letters, separators, ~ ^, non-ASCII); 84 packages (7 epochs incl. multi-digit x 4 versions x 3 releases) + subclass "
                     "instances, all pairs" % maxlen, result=info, violation=(p.returncode == 1), error=(p.returncode not in (0, 1)))
    if p.returncode == 1:
        os.makedirs(os.path.join(here, "replays"), exist_ok=True)
        path = os.path.join(here, "replays", "C13-bounded.json")
        cmd = "/venv/bin/python -c 'from insights.parsers.rpm_vercmp import _rpm_vercmp; print(_rpm_vercmp(%r, %r))'" % (info.get("a"), info.get("b"))
        json.dump(dict(obligation="bounded:_rpm_vercmp==S", witness=info, replay_cmd=cmd), open(path, "w"), indent=1)
        out["replay"] = path
    return [out]


NOT_CARRIED = ["_rpm_vercmp == S for ALL strings: layer 2 (array-encoded proof of the tokenising loop) was not built; the claim rests on the "
               "bounded exhaustive comparison (labelled bounded) - quick: length <= 3, thorough: length <= 4",
               "transitivity beyond the bounded alphabet (the property itself bounds the triple claim)",
               "that S is RPM's algorithm: a hand transliteration of rpmvercmp.c (trusted), agreeing with the real function on every bounded pair"]


def bounded(check):
    from props._xcheck import xcheck
    return list(_bounded0(check)) + [xcheck(check, ["rpm"], "rpm")]
