# A sibling directory sharing a name prefix with the root ("root2" next to "root") used to pass the containment check.
import sys, os, tempfile, shutil
sys.path.insert(0, os.getcwd())
from insights.core.spec_factory import TextFileProvider
tmp = tempfile.mkdtemp(prefix="c06_", dir="/var/tmp" if os.path.isdir("/var/tmp") else None)
try:
    os.makedirs(os.path.join(tmp, "root")); os.makedirs(os.path.join(tmp, "root2"))
    open(os.path.join(tmp, "root2", "secret"), "w").write("TOPSECRET\n")
    try:
        p = TextFileProvider("../root2/secret", root=os.path.join(tmp, "root"))
        print("content served from outside the root:", p.content)
        sys.exit(1)
    except Exception as e:
        print("refused:", e)
        sys.exit(0)
finally:
    shutil.rmtree(tmp, ignore_errors=True)
