"""BOUNDED stand-in / native witness search for C12 (never counted as proved): real rules with every kind of ending, evaluated by the real
SingleEvaluator and by JsonFormat:
  typed responses (fail, pass, info, fingerprint, none, returning None) -> reported exactly once under their own heading with key, component
  name, declared tags and links; a rule with a missing dependency -> exactly one skip entry naming it; a crashing rule, a rule returning a
  non-response (truthy or falsy junk), a response with a missing / non-string key or a reserved argument name -> a recorded exception and no
  report; a deliberate skip or a disabled rule -> nothing at all; an oversized response -> a stub that keeps type and key only.
All subsets of the rule kinds of size <= K are evaluated together (accounting must not depend on the company a rule keeps).
usage: /venv/bin/python rules_small_scope.py <repo root> <K> ; exit 1 + JSON line with a witness."""
import itertools, json, sys
root, K = sys.argv[1], int(sys.argv[2])
sys.path.insert(0, root)
import logging
logging.disable(logging.CRITICAL)
from six import StringIO
from insights import dr, rule, make_fail, make_pass, make_info, make_fingerprint, make_none
from insights.core.plugins import component, settings as plugin_settings
from insights.core.exceptions import SkipComponent
from insights.core.evaluators import SingleEvaluator
from insights.formats._json import JsonFormat


def fail(**kw):
    print(json.dumps(kw, default=repr))
    sys.exit(1)


@component()
def never():
    raise SkipComponent()


LIMIT = plugin_settings.defaults["max_detail_length"] if hasattr(plugin_settings, "defaults") else 32768
BIG = "x" * (LIMIT + 10)
KINDS = {}


def kind(name, expect, heading=None, type_=None, key=None, **deco):
    def wrap(f):
        f.__name__ = f.__qualname__ = "r_" + name
        r = rule(*deco.pop("deps", ()), **deco)(f)
        KINDS[name] = dict(rule=r, expect=expect, heading=heading, type=type_, key=key, tags=set(deco.get("tags", [])), links=deco.get("links") or {})
        return r
    return wrap


kind("fail", "report", "reports", "rule", "K_FAIL", tags=["t1", "t2"], links={"kcs": ["https://example.org/1"]})(lambda: make_fail("K_FAIL", n=1))
kind("pass", "report", "pass", "pass", "K_PASS", tags=["t3"])(lambda: make_pass("K_PASS"))
kind("info", "report", "info", "info", "K_INFO")(lambda: make_info("K_INFO", a="b"))
kind("fingerprint", "report", "fingerprints", "fingerprint", "K_FP")(lambda: make_fingerprint("K_FP", v=1))
kind("none_resp", "report", "none", "none", "NONE_KEY")(lambda: make_none())
kind("returns_none", "report", "none", "none", "NONE_KEY")(lambda: None)
kind("missing_dep", "skip", deps=(never,))(lambda n: make_pass("NEVER"))
kind("crash", "exception")(lambda: 1 / 0)
kind("junk_truthy", "exception")(lambda: {"error_key": "X"})
kind("junk_false", "exception")(lambda: False)
kind("junk_zero", "exception")(lambda: 0)
kind("junk_empty", "exception")(lambda: "")
kind("no_key", "exception")(lambda: make_fail(None))
kind("int_key", "exception")(lambda: make_fail(42))
kind("reserved_arg", "exception")(lambda: make_pass("K_RES", type="mine"))
kind("deliberate_skip", "nothing")(lambda: (_ for _ in ()).throw(SkipComponent()))
kind("disabled", "nothing")(lambda: make_fail("K_DISABLED"))
kind("oversized", "stub", "reports", "rule", "K_BIG")(lambda: make_fail("K_BIG", payload=BIG))
# rules that carry a content template (rendered only on request): a template that does not render must not make the rule's response disappear
kind("tpl_good", "report", "reports", "rule", "K_TG", content="good: {{ n }} item(s)")(lambda: make_fail("K_TG", n=1))
kind("tpl_typo", "report", "reports", "rule", "K_TT", content="broken: {{ n } item(s)")(lambda: make_fail("K_TT", n=2))
kind("tpl_stub", "stub", "reports", "rule", "K_TS", content="usage {{ pct|round(1) }}%")(lambda: make_fail("K_TS", pct=3.14159, payload=BIG))
dr.set_enabled(KINDS["disabled"]["rule"], False)


def accounted(resp):
    seen = {}
    for heading in ("reports", "fingerprints", "pass", "info", "none"):
        for item in resp.get(heading, []):
            seen.setdefault(item["component"], []).append((heading, item))
    skips = {}
    for s in resp.get("skips", []):
        skips.setdefault(s["rule_fqdn"], []).append(s)
    return seen, skips


def check(names, resp, broker, who):
    seen, skips = accounted(resp)
    for n in names:
        k = KINDS[n]
        comp = k["rule"]
        cname = dr.get_name(comp)
        ctx = dict(rule=n, evaluated_with=list(names), evaluator=who)
        got = seen.get(cname, [])
        if k["expect"] in ("report", "stub"):
            if len(got) != 1:
                fail(violation="a typed response is not reported exactly once", reported=[(h, i["type"], i["key"]) for h, i in got], **ctx)
            heading, item = got[0]
            if heading != k["heading"] or item["type"] != k["type"] or item["key"] != k["key"]:
                fail(violation="reported under the wrong heading / type / key", heading=heading, type=item["type"], key=item["key"], **ctx)
            if set(item.get("tags", [])) != k["tags"] or (item.get("links") or {}) != k["links"]:
                fail(violation="tags or links of the report differ from the declaration", tags=item.get("tags"), links=item.get("links"), **ctx)
            if k["expect"] == "stub":
                d = item["details"]
                if BIG in json.dumps(d, default=str) or d.get("type") != "rule" or d.get("error_key") != k["key"]:
                    fail(violation="an oversized response was not replaced by a stub keeping type and key", details_keys=sorted(d), **ctx)
            if broker.exceptions.get(comp) or cname in skips:
                fail(violation="a reported rule also has an exception or a skip entry", **ctx)
        else:
            if got:
                fail(violation="a rule that must not be reported is reported", reported=[(h, i["type"], i["key"]) for h, i in got], **ctx)
            has_exc, has_skip = bool(broker.exceptions.get(comp)), cname in skips
            want = {"skip": (False, True), "exception": (True, False), "nothing": (False, False)}[k["expect"]]
            if who == "JsonFormat":
                has_skip = want[1]          # the JSON formatter prints the skip list only on request: not compared here
            if (has_exc, has_skip) != want:
                fail(violation="wrong accounting: expected %s" % k["expect"], has_exception=has_exc, has_skip_entry=has_skip, **ctx)
            if has_skip and who != "JsonFormat" and (len(skips[cname]) != 1 or dr.get_name(never) not in json.dumps(skips[cname][0], default=str)):
                fail(violation="the skip entry does not name the missing dependency exactly once", entry=skips[cname], **ctx)


n = 0
names_all = sorted(KINDS)
for k in range(1, K + 1):
    for names in itertools.combinations(names_all, k):
        comps = [KINDS[x]["rule"] for x in names]
        broker = dr.Broker()
        with SingleEvaluator(broker) as ev:
            try:
                dr.run(comps, broker=broker)
            except Exception as ex:
                fail(violation="evaluation raised", rules=list(names), exc=repr(ex))
            resp = ev.get_response()
        check(names, resp, broker, "SingleEvaluator")
        broker = dr.Broker()
        out = StringIO()
        with JsonFormat(broker, show_rules=["rule", "pass", "info", "none", "fingerprint"], stream=out):
            dr.run(comps, broker=broker)
        check(names, json.loads(out.getvalue()), broker, "JsonFormat")
        if any(x.startswith("tpl_") for x in names) or k == 1:
            broker = dr.Broker()
            out = StringIO()
            with JsonFormat(broker, show_rules=["rule", "pass", "info", "none", "fingerprint"], render_content=True, stream=out):
                dr.run(comps, broker=broker)
            check(names, json.loads(out.getvalue()), broker, "JsonFormat")
        n += 1
print(json.dumps({"ok": True, "rule_kinds": len(KINDS), "max_together": K, "evaluations": n}))
