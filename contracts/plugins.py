"""Sidecar contracts for insights/core/plugins.py (invoke overrides, rule.process)."""
from pyvc.dsl import *
from contracts.dr import M as DR, Comp, Val, MISSING

P = "insights/core/plugins.py"

IGNORED = "any(i in broker.instances for i in (IGNORE[self.component] if self.component in IGNORE else set()))"
ALL_PRESENT = ("(all(r in broker.instances for r in self.requires) and "
               " all(any(m in broker.instances for m in g) for g in self.at_least_one))")
ARGS = "[results.get(d) for d in self.deps]"
ARGS_B = "[broker.get(d) for d in self.deps]"

# recording discipline shared by every invoke(): exceptions are only appended, only under the component itself or
# one of its registry points, each with a traceback; instances / missing_requirements are not touched
def REC(b):
    return [
        "forall(c, Comp, implies(c in old(%s.exceptions), c in %s.exceptions))" % (b, b),
        "forall(c, Comp, implies(c != self.component and c not in regpoints(self.component), "
        "  (c in %s.exceptions) == (c in old(%s.exceptions)) and "
        "  implies(c in %s.exceptions, seq_eq(%s.exceptions[c], old(%s.exceptions)[c]))))" % (b, b, b, b, b),
        "forall(o, Ref_Broker, implies(o != %s, o.exceptions == old(o.exceptions) and o.tracebacks == old(o.tracebacks)))" % b,
    ]


def declare(reg):
    # ------------------------------------------------------------------ ComponentType.invoke / process (dr.py)
    reg.contract(DR, "ComponentType.invoke", params=dict(self=Ref("Delegate"), results=Ref("Broker")), returns=Opt(Val),
                 raises={"Exception": "body_raises(self.component, %s)" % ARGS}, raise_frame="unchanged",
                 ensures=["result == body_value(self.component, %s)" % ARGS],
                 ensures_raise={"Exception": ["exc == body_exc(self.component, %s)" % ARGS]})

    # interface of invoke() as process() sees it (overrides: PluginType, datasource, parser - verified against it below)
    reg.interface("Delegate", "invoke", params=dict(self=Ref("Delegate"), broker=Ref("Broker")), returns=Opt(Val),
                  modifies=["Broker.exceptions", "Broker.tracebacks"], raises={"Exception": None},
                  ensures=REC("broker"), ensures_raise={"Exception": REC("broker")})

    reg.contract(DR, "ComponentType.process", params=dict(self=Ref("Delegate"), broker=Ref("Broker")), returns=Opt(Val),
                 modifies=["Broker.exceptions", "Broker.tracebacks"],
                 ghosts=dict(ninv=(INT, "0")), locals=dict(ninv=INT),
                 ghost_on=[("return self.invoke(broker)", "ninv = ninv + 1", "before")],
                 raises={"Exception": None},
                 ensures=["not old(%s)" % IGNORED, "old(%s)" % ALL_PRESENT, "ninv == 1"] + REC("broker"),
                 ensures_raise={"Exception": [
                     # an ignored context present: skip signal, body not invoked
                     "implies(old(%s), exc_is(exc, SkipComponent) and ninv == 0)" % IGNORED,
                     # requirements not met: MissingRequirements naming exactly the missing ones, body not invoked
                     "implies(not old(%s) and not old(%s), exc_is(exc, MissingRequirements) and ninv == 0 and "
                     "  seq_eq(exc.requirements[0], old([r for r in self.requires if r not in broker.instances])) and "
                     "  seq_eq(exc.requirements[1], old([g for g in self.at_least_one if not any(m in broker.instances for m in g)])))"
                     % (IGNORED, ALL_PRESENT),
                     # otherwise the exception is invoke()'s
                     "implies(not old(%s) and old(%s), ninv == 1)" % (IGNORED, ALL_PRESENT),
                 ] + REC("broker")})

    # ------------------------------------------------------------------ calling conventions of component bodies
    INST = Map(Comp, Opt(Val))
    for n, ps in (("ds", dict(c=Comp, inst=INST)), ("p", dict(c=Comp, v=Opt(Val)))):
        reg.specfun(n + "_raises", ps, BOOL, None)
        reg.specfun(n + "_value", ps, Opt(Val), None)
        reg.specfun(n + "_exc", ps, EXC, None)
    conv_b = reg.external("<datasource body>", params=dict(c=Comp, broker=Ref("Broker")), returns=Opt(Val),
                          raises={"Exception": "ds_raises(c, broker.instances)"}, raise_frame="unchanged",
                          ensures=["result == ds_value(c, broker.instances)"],
                          ensures_raise={"Exception": ["exc == ds_exc(c, broker.instances)"]},
                          note="a datasource body is called with the broker; assumed deterministic in the broker's values, "
                               "not to write Broker fields, and to raise only Exception subclasses")
    conv_c = reg.external("<parser body>", params=dict(c=Comp, v=Opt(Val)), returns=Opt(Val),
                          raises={"Exception": "p_raises(c, v)"}, raise_frame="unchanged",
                          ensures=["result == p_value(c, v)"], ensures_raise={"Exception": ["exc == p_exc(c, v)"]},
                          note="a parser body is called with one value; deterministic, no Broker writes")
    reg.callables[("Delegate", "component")] = [reg.callables[("Delegate", "component")], conv_b, conv_c]

    reg.cls("Delegate", continue_on_error=BOOL, timeout=INT)
    reg.cls("Val", __isinstance__={"list": "is_list_val(self)"})
    reg.specfun("is_list_val", dict(v=Val), BOOL, None)
    reg.specfun("val_items", dict(v=Val), List(Opt(Val)), None)
    reg.specfun("val_of_list", dict(l=List(Opt(Val))), Val, None)
    reg.iter_views = getattr(reg, "iter_views", {})
    reg.iter_views["Val"] = ("val_items", List(Opt(Val)))
    reg.coercions = getattr(reg, "coercions", {})
    reg.coercions[(List(Opt(Val)).key, Val.key)] = "val_of_list"
    reg.glob(P, component=Comp, HostContext=Comp)
    for n in ("log.info", "log.debug", "log.exception", "log.warning", "log.error", "signal.signal", "signal.alarm"):
        reg.external(n, drop=True)
    reg.external("dr.get_registry_points", params=dict(component=Comp, datasource=Opt(BOOL)), defaults=dict(datasource="None"),
                 returns=Set(Comp), pure=True, ensures=["result == regpoints(component)"])
    reg.external("dr.get_name", params=dict(component=Comp), returns=STR, pure=True)

    LAST = lambda k, e: ("%s in broker.exceptions and len(broker.exceptions[%s]) >= 1 and "
                         "broker.exceptions[%s][len(broker.exceptions[%s]) - 1] == %s and "
                         "%s in broker.tracebacks and broker.tracebacks[%s] is not None") % (k, k, k, k, e, e, e)
    BODY_A = "body_exc(self.component, %s)" % ARGS_B
    CC = "(isinstance_exc(%s, ContentException) or isinstance_exc(%s, CalledProcessError))" % (BODY_A, BODY_A)
    # ------------------------------------------------------------------ PluginType.invoke
    reg.contract(P, "PluginType.invoke", params=dict(self=Ref("Delegate"), broker=Ref("Broker")), returns=Opt(Val),
                 modifies=["Broker.exceptions", "Broker.tracebacks", "Broker.missing_requirements"],
                 raises={"Exception": "body_raises(self.component, %s)" % ARGS_B},
                 ensures=["result == body_value(self.component, %s)" % ARGS_B,
                          "broker.exceptions == old(broker.exceptions)"] + REC("broker"),
                 ensures_raise={"Exception": REC("broker") + [
                     # content / command errors: recorded against the component itself with a traceback, then a skip
                     "implies(%s, exc_is(exc, SkipComponent))" % CC,
                     "implies(%s, self.component in broker.exceptions and len(broker.exceptions[self.component]) >= 1)" % CC,
                     "implies(%s, broker.exceptions[self.component][len(broker.exceptions[self.component]) - 1] == %s)" % (CC, BODY_A),
                     "implies(%s, %s in broker.tracebacks and broker.tracebacks[%s] is not None)" % (CC, BODY_A, BODY_A),
                     # anything else propagates unchanged and nothing is recorded here
                     "implies(not (isinstance_exc(%s, ContentException) or isinstance_exc(%s, CalledProcessError)), "
                     "        exc == %s and broker.exceptions == old(broker.exceptions))" % (BODY_A, BODY_A, BODY_A),
                     "forall(b, Ref_Broker, b.missing_requirements == old(b.missing_requirements))",
                 ]})
