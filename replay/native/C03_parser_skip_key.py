import sys, os
sys.path.insert(0, os.getcwd())
from insights.core import dr
from insights.core.plugins import datasource, parser, component
from insights.core.exceptions import SkipComponent
from insights.core import Parser
@datasource()
def ds(broker): return [1,2,3]
@parser(ds)
class P(Parser):
    def __init__(self, v):
        if v == 2: raise SkipComponent("skip me")
        self.v = v
b = dr.Broker(); b.store_skips = True
dr.run(dr.get_dependency_graph(P), broker=b)
print(list(b.exceptions.keys()))
sys.exit(0 if list(b.exceptions.keys()) == [P] else 1)
