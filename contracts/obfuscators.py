"""Sidecar contracts for the obfuscator databases (C09): IPv4._ip2db / mapping, Hostname._hn2db / mapping, Mac, IPv6."""
import collections
from pyvc.dsl import *

IP = "insights/cleaner/ip.py"
HN = "insights/cleaner/hostname.py"
MAC = "insights/cleaner/mac.py"
V4 = Ref("IPv4")
H = Ref("Hostname")

INJ4 = "forall(a, self._ip_db, forall(b, self._ip_db, implies(self._ip_db[a] == self._ip_db[b], a == b)))"
INJH = "forall(a, self._hn_db, forall(b, self._hn_db, implies(self._hn_db[a] == self._hn_db[b], a == b)))"
KEYSH = ("forall(k, self._hn_db, k == self._obfuscated_fqdn or (1 <= uf('hn_index', INT, k) and uf('hn_index', INT, k) <= self._hostname_count))")


def declare(reg):
    reg.sort(Str=STR, Int=INT, Ref_V4=V4, Ref_H=H)
    for n in ("logger.debug", "logger.info", "logger.warning"):
        reg.external(n, drop=True)
    # ------------------------------------------------------------------ IPv4
    reg.cls("IPv4", _ip_db=Map(INT, INT), _start_ip=STR)
    reg.interface("IPv4", "_ip2int", params=dict(self=V4, ipstr=STR), returns=INT, pure=True, raises={},
                  ensures=["result == uf('ip2int', INT, ipstr)"], note="inet_aton/struct: a function from dotted text to an integer")
    reg.interface("IPv4", "_int2ip", params=dict(self=V4, num=INT), returns=STR, pure=True, raises={},
                  ensures=["result == uf('int2ip', STR, num)"], note="inet_ntoa/struct: a function from an integer to dotted text")
    N = "uf('ip2int', INT, ip)"
    KNOWN = "exists(k, old(self._ip_db), old(self._ip_db)[k] == %s)" % N
    reg.contract(IP, "IPv4._ip2db", params=dict(self=V4, ip=STR), returns=STR, modifies=["IPv4._ip_db"],
                 requires=[INJ4],
                 locals=dict(ret_ip=STR, ip_found=BOOL, db=Map(INT, INT), gk=INT),
                 ghosts=dict(gk=(INT, "0 - 1")), ghost_on=[("db[new_ip] = ip_num", "gk = new_ip", "after")],
                 loops={0: ["ip_found == exists(j, range(0, i_0), it_0[j][1] == ip_num)",
                            "implies(ip_found, exists(j, range(0, i_0), it_0[j][1] == ip_num and ret_ip == uf('int2ip', STR, it_0[j][0])))",
                            "db == self._ip_db and self._ip_db == old(self._ip_db)", "ip_num == %s" % N]},
                 raises={},
                 ensures=[INJ4,
                          "forall(o, Ref_V4, implies(o != self, o._ip_db == old(o._ip_db)))",
                          # an original already in the database: nothing changes, its (unique) substitute is returned
                          "implies(%s, self._ip_db == old(self._ip_db) and exists(k, self._ip_db, self._ip_db[k] == %s and result == uf('int2ip', STR, k)))" % (KNOWN, N),
                          # a new original: exactly one entry is added under a key that was not in use, nothing is overwritten
                          "implies(not %s, gk not in old(self._ip_db) and self._ip_db == store(old(self._ip_db), gk, %s) and result == uf('int2ip', STR, gk))" % (KNOWN, N),
                          ])
    MAPT = List(Map(STR, STR))
    reg.contract(IP, "IPv4.mapping", params=dict(self=V4), returns=MAPT, locals=dict(mapping=MAPT), empties=dict(list=MAPT), raises={},
                 ensures=[
                     # exactly one reported pair per database entry, original / obfuscated on the right sides
                     "forall(k, self._ip_db, exists(j, range(0, len(result)), result[j]['obfuscated'] == uf('int2ip', STR, k) and "
                     "       result[j]['original'] == uf('int2ip', STR, self._ip_db[k])))",
                     "forall(j, range(0, len(result)), exists(k, self._ip_db, result[j]['obfuscated'] == uf('int2ip', STR, k) and "
                     "       result[j]['original'] == uf('int2ip', STR, self._ip_db[k])))",
                 ])
    # the constructor establishes the invariant (an empty database is injective): base case of the induction over the call history
    reg.classes["IPv4"].update(_ignore_list=List(STR), pattern=STR)
    reg.contract(IP, "IPv4.__init__", params=dict(self=V4), modifies=["IPv4._ip_db", "IPv4._start_ip", "IPv4._ignore_list", "IPv4.pattern"], raises={},
                 ensures=["isempty(keys(self._ip_db))", INJ4, "forall(o, Ref_V4, implies(o != self, o._ip_db == old(o._ip_db)))"])
    # ------------------------------------------------------------------ Hostname
    reg.cls("Hostname", _hn_db=Map(STR, STR), _hostname_count=INT, _dn_db=Map(STR, STR), _obfuscated_domain=STR, _obfuscated_fqdn=STR, _fqdn=STR)
    FMT = "uf('fmt_host_s__s', STR, n, d)"
    reg.axiom("forall(n, Int, forall(d, Str, uf('hn_index', INT, uf('fmt_host_s__s', STR, n, d)) == n))")
    reg.assume("'host%s.%s' % (n, domain) determines n (hn_index is its inverse in the number); the hashed substitute of the system's own "
               "name is not of that form")
    KNOWNH = "exists(k, old(self._hn_db), old(self._hn_db)[k] == hn)"
    reg.contract(HN, "Hostname._hn2db", params=dict(self=H, hn=STR), returns=STR, modifies=["Hostname._hn_db", "Hostname._hostname_count"],
                 requires=[INJH, KEYSH, "self._hostname_count >= 0", "uf('hn_index', INT, self._obfuscated_fqdn) == 0"],
                 locals=dict(ret_hn=STR, hn_found=BOOL, db=Map(STR, STR), o_domain=STR),
                 loops={0: ["hn_found == exists(j, range(0, i_0), it_0[j][1] == hn)",
                            "implies(hn_found, exists(j, range(0, i_0), it_0[j][1] == hn and ret_hn == it_0[j][0]))",
                            "db == self._hn_db and self._hn_db == old(self._hn_db) and self._hostname_count == old(self._hostname_count)"],
                        1: ["self._hn_db == old(self._hn_db) and self._hostname_count == old(self._hostname_count) + 1 and db == self._hn_db"]},
                 raises={},
                 ensures=[INJH, KEYSH,
                          "forall(o, Ref_H, implies(o != self, o._hn_db == old(o._hn_db) and o._hostname_count == old(o._hostname_count)))",
                          "implies(%s, self._hn_db == old(self._hn_db) and self._hostname_count == old(self._hostname_count) and "
                          "        result in self._hn_db and self._hn_db[result] == hn)" % KNOWNH,
                          "implies(not %s, result not in old(self._hn_db) and self._hn_db == store(old(self._hn_db), result, hn) and "
                          "        self._hostname_count == old(self._hostname_count) + 1)" % KNOWNH,
                          ])
    # the constructor ESTABLISHES the database invariant _hn2db preserves (base case of the induction over the call history): exactly the
    # system's own name is in the database, under its hashed substitute
    reg.classes["Hostname"].update(_hostname=STR, _domain=Opt(STR), _domain_count=INT)
    reg.external("six.PY3", returns=BOOL, pure=True)
    reg.external("hashlib.sha1", params=dict(b=None), returns=Ref("Sha"), pure=True)
    reg.cls("Sha")
    reg.interface("Sha", "hexdigest", params=dict(self=Ref("Sha")), returns=STR, pure=True, raises={})
    for n in ("logger.debug", "logger.warning"):
        reg.external(n, drop=True)
    reg.contract(HN, "Hostname._domains2db", params=dict(self=H), returns=Opt(BOOL), modifies=["Hostname._dn_db", "Hostname._domain_count"], raises={},
                 ensures=["forall(o, Ref_H, o._hn_db == old(o._hn_db) and o._hostname_count == old(o._hostname_count))"])
    reg.contract(HN, "Hostname.__init__", params=collections.OrderedDict(self=H, fqdn=STR),
                 modifies=["Hostname." + f for f in ("_fqdn", "_hostname", "_domain", "_hn_db", "_hostname_count", "_obfuscated_domain", "_dn_db",
                                                     "_domain_count", "_obfuscated_fqdn")],
                 locals=dict(name_list=List(STR)), raises={},
                 assume=["uf('hn_index', INT, self._obfuscated_fqdn) == 0"],
                 ensures=["self._fqdn == fqdn", "self._hostname_count == 1",
                          "self._obfuscated_fqdn in self._hn_db and self._hn_db[self._obfuscated_fqdn] == fqdn",
                          "forall(k, self._hn_db, k == self._obfuscated_fqdn)",
                          # the invariant of _hn2db (its precondition)
                          INJH, KEYSH, "self._hostname_count >= 0"],
                 note="the hashed substitute of the system's own name is not of the form host<n>.<domain> (assumed, as for _hn2db)")
    MAPS = List(Map(STR, STR))
    reg.contract(HN, "Hostname.mapping", params=dict(self=H), returns=MAPS, locals=dict(mapping=MAPS), empties=dict(list=MAPS), raises={},
                 ensures=["forall(k, self._hn_db, exists(j, range(0, len(result)), result[j]['obfuscated'] == k and result[j]['original'] == self._hn_db[k]))",
                          "forall(j, range(0, len(result)), result[j]['obfuscated'] in self._hn_db and result[j]['original'] == self._hn_db[result[j]['obfuscated']])"])

    # ------------------------------------------------------------------ Mac / IPv6: original -> substitute, hash derived
    MC = Ref("Mac")
    V6 = Ref("IPv6")
    reg.sort(Ref_Mac=MC, Ref_V6=V6)
    reg.exc_extra.update({})
    reg.cls("Mac", _mac_db=Map(STR, STR))
    reg.cls("IPv6", _ipv6_db=Map(STR, STR))
    reg.contract(MAC, "Mac._mac2db.<locals>.obfuscate_hex", params=dict(_hex=STR, lower=BOOL), defaults=dict(lower="True"), returns=STR,
                 pure=True, external=True, ensures=["result == uf('mac_hex', STR, _hex, lower)"],
                 note="obfuscate_hex (sha1 of the lower-cased group, cut to its length): assumed a deterministic function")
    reg.contract(IP, "IPv6._ip2db.<locals>.obfuscate_hex", params=dict(_hex=STR), returns=STR,
                 pure=True, external=True, ensures=["result == uf('v6_hex', STR, _hex)"],
                 note="obfuscate_hex (sha1 of the group without leading zeros): assumed a deterministic function")

    def DB(field, self_sort, others, arg):
        ISSUED = "exists(k, old(self.{f}), old(self.{f})[k] == {a})".format(f=field, a=arg)
        return dict(
            raises={"Exception": None},
            ensures=[
                "forall(o, %s, implies(o != self, o.%s == old(o.%s)))" % (others, field, field),
                # entries are never overwritten: same original -> same substitute on every later call
                "forall(k, old(self.%s), k in self.%s and self.%s[k] == old(self.%s)[k])" % (field, field, field, field),
                "implies(%s in old(self.%s), result == old(self.%s)[%s] and self.%s == old(self.%s))" % (arg, field, field, arg, field, field),
                # an issued substitute is not obfuscated again
                "implies(%s not in old(self.%s) and %s, result is None and self.%s == old(self.%s))" % (arg, field, ISSUED, field, field),
                "implies(%s not in old(self.%s) and not %s, result is not None and %s in self.%s and self.%s[%s] == some(result) and "
                "        forall(k, self.%s, k == %s or k in old(self.%s)))" % (arg, field, ISSUED, arg, field, field, arg, field, arg, field),
            ])
    reg.contract(MAC, "Mac._mac2db", params=dict(self=MC, mac=STR), returns=Opt(STR), modifies=["Mac._mac_db"], **DB("_mac_db", "Mac", "Ref_Mac", "mac"))
    reg.contract(IP, "IPv6._ip2db", params=dict(self=V6, ip=STR), returns=Opt(STR), modifies=["IPv6._ipv6_db"], **DB("_ipv6_db", "IPv6", "Ref_V6", "ip"))
    for (mod, cls, field, sort) in ((MAC, "Mac", "_mac_db", MC), (IP, "IPv6", "_ipv6_db", V6)):
        reg.contract(mod, cls + ".mapping", params=dict(self=sort), returns=MAPS, locals=dict(mapping=MAPS), empties=dict(list=MAPS), raises={},
                     ensures=["forall(k, self.%s, exists(j, range(0, len(result)), result[j]['original'] == k and result[j]['obfuscated'] == self.%s[k]))" % (field, field),
                              "forall(j, range(0, len(result)), result[j]['original'] in self.%s and result[j]['obfuscated'] == self.%s[result[j]['original']])" % (field, field)])
    # ------------------------------------------------------------------ Keyword.mapping
    KM = "insights/cleaner/keyword.py"
    reg.cls("Keyword", _kw_db=Map(STR, STR), _obfuscated=Set(STR))
    reg.contract(KM, "Keyword.mapping", params=dict(self=Ref("Keyword")), returns=MAPS, locals=dict(mapping=MAPS), empties=dict(list=MAPS),
                 requires=["subset(self._obfuscated, keys(self._kw_db))"], raises={},
                 ensures=["forall(k, self._obfuscated, exists(j, range(0, len(result)), result[j]['original'] == k and result[j]['obfuscated'] == self._kw_db[k]))",
                          "forall(j, range(0, len(result)), result[j]['original'] in self._obfuscated)"])
