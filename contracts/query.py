"""Sidecar contracts for insights/parsr/query (C20): level-by-level matching, deep flattening, roots mapping, the interpreted
boolean algebra.  Nodes are opaque immutable objects here (none of the functions under contract writes a node field)."""
import collections
from pyvc.dsl import *

M = "insights/parsr/query/__init__.py"
B = "insights/parsr/query/boolean.py"
Node = U("Node")
Q = U("Q")          # a desugared query: a total predicate on nodes
NODES = List(Node)
ONODES = List(Opt(Node))      # a result list may hold None (Entry.root of a parentless node)
QSEM = "uf('qsem', BOOL, {q}, {n})"


def declare(reg):
    reg.sort(Node=Node, Q=Q)
    reg.cls("Node", pyclasses=["Entry"], children=NODES, parent=Opt(Node), _name=PY, attrs=List(PY))
    reg.callable_sorts = getattr(reg, "callable_sorts", {})
    reg.callable_sorts["Q"] = reg.external("<query>", params=dict(q=Q, e=Node), returns=BOOL, pure=True, raises={},
                                           ensures=["result == %s" % QSEM.format(q="q", n="e")],
                                           note="a desugared query is a total, pure predicate on a node (every closure built by _desugar* catches "
                                                "what its callable raises); its truth value is the uninterpreted qsem(q, node)")
    # Result(children=L) is observed through its children only (Entry.__iter__/__len__/__getitem__ go through .children):
    # modelled as the list itself
    reg.external("Result", params=dict(children=ONODES), returns=ONODES, pure=True, raises={}, ensures=["result == children"],
                 note="a Result is identified with the list of its children (Result.__init__: `children or []`, iteration and indexing "
                      "delegate to .children)")
    FILT = "[n for n in {ns} if %s]" % QSEM.format(q="{q}", n="n")
    KIDS = "concat_all([n.children for n in %s])" % FILT
    # MM(qs, nodes) is DEFINED as what match returns (call_ensures); the ensures below are its defining equations, proved with the
    # recursive call replaced by MM: one query -> the matching sub-list in order; more -> the rest of the queries over the children of
    # the matches, concatenated in order
    reg.specfun("MM", collections.OrderedDict(qs=List(Q), ns=NODES), NODES, None,
                # MM is match's result: its third postcondition (nothing in, nothing out) holds of every MM term; used for the strictly
                # shorter query list of the recursive equation only
                inst_axioms=[(["qs", "ns"], "implies(len(ns) == 0, len(MM(qs, ns)) == 0)")])
    reg.contract(M, "compile_queries.<locals>.match", params=collections.OrderedDict(qs=List(Q), nodes=NODES), returns=NODES,
                 requires=["len(qs) >= 1"], raises={}, locals=dict(gc=NODES),
                 call_ensures=["result == MM(qs, nodes)", "implies(len(nodes) == 0, len(result) == 0)"],
                 ensures=["implies(len(old(qs)) == 1, seq_eq(result, %s))" % FILT.format(ns="nodes", q="old(qs)[0]"),
                          "implies(len(old(qs)) > 1, seq_eq(result, MM(old(qs)[1:], %s)))" % KIDS.format(ns="nodes", q="old(qs)[0]"),
                          "implies(len(nodes) == 0, len(result) == 0)"])

    # ------------------------------------------------------------------ document order
    # pre(n) is DEFINED as what _flatten.inner yields for n; its defining equation (proved): the node itself, then the pre-order
    # of each child, in order
    reg.specfun("pre", dict(n=Node), NODES, None)
    reg.contract(M, "_flatten.<locals>.inner", params=dict(n=Node), yields=Node, pure=True, raises={},
                 call_ensures=["result == pre(n)"],
                 loops={0: ["len(yields_) == 1 + i_0 and yields_[0] == n", "forall(k, range(0, i_0), yields_[k + 1] == it_0[k])",
                            "it_0 == concat_all([pre(c) for c in n.children])"]},
                 ensures=["seq_eq(result, [n] + concat_all([pre(c) for c in n.children]))"],
                 note="termination (acyclic children) is not proved")
    FLAT = "concat_all([pre(n) for n in {ns}])"
    reg.contract(M, "_flatten", params=dict(nodes=NODES), returns=NODES, pure=True, raises={},
                 ensures=["result == %s" % FLAT.format(ns="nodes")])

    # ------------------------------------------------------------------ compiled query function and select
    QF = U("QF")
    reg.sort(QF=QF)
    RUN = "uf('qrun', List(Node), {f}, {ns})"
    reg.callable_sorts["QF"] = reg.external("<compiled query>", params=dict(f=QF, nodes=NODES), returns=NODES, pure=True, raises={},
                                            ensures=["result == %s" % RUN.format(f="f", ns="nodes")],
                                            note="the function returned by compile_queries: a pure function of the node list")
    reg.contract(M, "compile_queries.<locals>.inner", params=dict(nodes=NODES), returns=ONODES, free=dict(queries=List(Q)),
                 requires=["len(queries) >= 1"], raises={},
                 ensures=["seq_eq(result, MM(queries, nodes))"])
    # the ultimate ancestor: a proper ancestor without parent; None for a node without parent (documented by Entry.root)
    reg.specfun("anc", collections.OrderedDict(a=Node, b=Node), BOOL, None)
    reg.axiom("forall(a, Node, implies(a.parent is not None, anc(a, some(a.parent))))")
    reg.axiom("forall(a, Node, forall(b, Node, implies(anc(a, b) and b.parent is not None, anc(a, some(b.parent)))))")
    reg.contract(M, "Entry.root", params=dict(self=Node), returns=Opt(Node), pure=True, raises={}, locals=dict(p=Opt(Node)),
                 loops={0: ["implies(p is not None, anc(self, some(p)))", "(p is None) == (self.parent is None)"]},
                 call_ensures=["result == uf('rootof', Opt(Node), self)", "(result is None) == (self.parent is None)",
                               "implies(result is not None, anc(self, some(result)) and some(result).parent is None)"],
                 ensures=["(result is None) == (self.parent is None)",
                          "implies(result is not None, anc(self, some(result)) and some(result).parent is None)"])
    ROOT = "uf('rootof', Opt(Node), {r})"
    SRC = "({run_deep} if deep else {run})".format(run_deep=RUN.format(f="query", ns=FLAT.format(ns="nodes")), run=RUN.format(f="query", ns="nodes"))
    reg.contract(M, "select", params=collections.OrderedDict(query=QF, nodes=NODES, deep=BOOL, roots=BOOL), defaults=dict(deep="False", roots="False"),
                 returns=ONODES, raises={}, locals=dict(top=List(Opt(Node)), seen=Set(Opt(Node)), fi=List(INT)),
                 ghosts=collections.OrderedDict(fi=(List(INT), "[]")),
                 ghost_on=[("top.append(root)", "fi.append(i_0)", "after")],
                 loops={0: ["len(fi) == len(top)", "it_0 == results", "seen == elems(top)", "distinct(top)",
                            "forall(k, range(0, len(top)), 0 <= fi[k] and fi[k] < i_0 and top[k] == %s and forall(j, range(0, fi[k]), %s != top[k]))"
                            % (ROOT.format(r="results[fi[k]]"), ROOT.format(r="results[j]")),
                            "forall(a, range(0, len(top)), forall(b, range(0, len(top)), implies(a < b, fi[a] < fi[b])))",
                            "forall(j, range(0, i_0), %s in elems(top))" % ROOT.format(r="results[j]")]},
                 ensures=["implies(not roots, seq_eq(result, %s))" % SRC,
                          # roots: the ultimate ancestors of the results, each once, in order of first occurrence (fi: witness positions)
                          "results == %s" % SRC,
                          "implies(roots, len(fi) == len(result) and forall(k, range(0, len(result)), 0 <= fi[k] and fi[k] < len(results) and "
                          "result[k] == %s and forall(j, range(0, fi[k]), %s != result[k])))" % (ROOT.format(r="results[fi[k]]"), ROOT.format(r="results[j]")),
                          "implies(roots, forall(a, range(0, len(result)), forall(b, range(0, len(result)), implies(a < b, fi[a] < fi[b]))))",
                          "implies(roots, forall(j, range(0, len(results)), %s in elems(result)))" % ROOT.format(r="results[j]"),
                          "implies(roots, distinct(result))"])

    # ------------------------------------------------------------------ the interpreted boolean algebra (boolean.py)
    BR = Ref("Bool")
    Fun = U("Fun")
    reg.sort(Fun=Fun)
    reg.cls("Bool", pyclasses=["Boolean", "Any", "All", "Not", "Predicate", "CaselessPredicate"], exprs=List(BR), query=BR, func=Fun, args=List(PY))
    BSEM = "uf('bsem', BOOL, {b}, value)"
    reg.interface("Bool", "test", params=dict(self=BR, value=PY), returns=BOOL, pure=True, raises={},
                  ensures=["result == %s" % BSEM.format(b="self")],
                  note="Boolean.test is observed through its truth value only (any/all/not/filters); bsem(b, v) is that truth value; every "
                       "test() is total (Predicate.test catches Exception)")
    reg.contract(B, "Any.test", params=dict(self=BR, value=PY), returns=BOOL, raises={},
                 ensures=["result == exists(k, range(0, len(self.exprs)), %s)" % BSEM.format(b="self.exprs[k]")])
    reg.contract(B, "All.test", params=dict(self=BR, value=PY), returns=BOOL, raises={},
                 ensures=["result == forall(k, range(0, len(self.exprs)), %s)" % BSEM.format(b="self.exprs[k]")])
    reg.contract(B, "Not.test", params=dict(self=BR, value=PY), returns=BOOL, raises={},
                 ensures=["result == (not %s)" % BSEM.format(b="self.query")])
    # a user function applied to (value, *args): may return anything or raise any Exception
    reg.callables = getattr(reg, "callables", {})
    reg.callables[("Bool", "func")] = reg.external(
        "<predicate function>", params=collections.OrderedDict(f=Fun, value=PY, args=List(PY)), returns=PY,
        raises={"Exception": "uf('f_raises', BOOL, f, value, args)"}, raise_frame="unchanged",
        ensures=["result is uf('f_value', PY, f, value, args)"],
        note="a predicate's function is deterministic in its arguments and raises only Exception subclasses")
    reg.contract(B, "Predicate.test", params=dict(self=BR, value=PY), returns=PY, raises={},
                 ensures=["implies(uf('f_raises', BOOL, self.func, value, self.args), result is False)",
                          "implies(not uf('f_raises', BOOL, self.func, value, self.args), result is uf('f_value', PY, self.func, value, self.args))"])
    FR = "uf('f_raises', BOOL, self.func, {v}, self.args)"
    FV = "uf('f_value', PY, self.func, {v}, self.args)"
    reg.contract(B, "CaselessPredicate.test", params=dict(self=BR, lhs=PY), returns=PY, raises={},
                 ensures=["implies(not isinstance(lhs, str), implies(%s, result is False) and implies(not %s, result is %s))"
                          % (FR.format(v="lhs"), FR.format(v="lhs"), FV.format(v="lhs")),
                          # a string is lower-cased before the function sees it
                          "implies(isinstance(lhs, str), implies(%s, result is False) and implies(not %s, result is %s))"
                          % (FR.format(v="box(lhs.lower())"), FR.format(v="box(lhs.lower())"), FV.format(v="box(lhs.lower())"))])

    # ------------------------------------------------------------------ attribute / child queries
    AF = U("AF")
    reg.sort(AF=AF)
    reg.cls("AttrQ", pyclasses=["_AllAttrQuery", "_AnyAttrQuery"], expr=AF)
    reg.cls("ChildQ", pyclasses=["ChildQuery"], expr=Q)
    ASEM = "uf('asem', BOOL, {f}, {a})"
    reg.callable_sorts["AF"] = reg.callables[("AttrQ", "expr")] = reg.external("<attribute predicate>", params=collections.OrderedDict(f=AF, a=PY), returns=BOOL, pure=True, raises={},
                                                     ensures=["result == %s" % ASEM.format(f="f", a="a")],
                                                     note="a desugared attribute predicate is total and pure; asem(f, a) is its truth value")
    reg.callables[("ChildQ", "expr")] = reg.callable_sorts["Q"]
    reg.contract(M, "_AllAttrQuery.test", params=dict(self=Ref("AttrQ"), e=Node), returns=BOOL, raises={},
                 ensures=["result == forall(k, range(0, len(e.attrs)), %s)" % ASEM.format(f="self.expr", a="e.attrs[k]")])
    reg.contract(M, "_AnyAttrQuery.test", params=dict(self=Ref("AttrQ"), e=Node), returns=BOOL, raises={},
                 ensures=["result == exists(k, range(0, len(e.attrs)), %s)" % ASEM.format(f="self.expr", a="e.attrs[k]")])
    reg.contract(M, "ChildQuery.test", params=dict(self=Ref("ChildQ"), e=Node), returns=BOOL, raises={},
                 ensures=["result == exists(k, range(0, len(e.children)), %s)" % QSEM.format(q="self.expr", n="e.children[k]")])

    # ------------------------------------------------------------------ query desugaring: the closures _desugar* return
    NF = U("NF")        # a user callable applied to a name / an attribute value: may return anything, may raise
    reg.sort(NF=NF)
    reg.callable_sorts["NF"] = reg.external("<user predicate>", params=collections.OrderedDict(f=NF, v=PY), returns=PY,
                                            raises={"Exception": "uf('u_raises', BOOL, f, v)"}, raise_frame="unchanged",
                                            ensures=["result is uf('u_value', PY, f, v)"],
                                            note="a user callable in a query is deterministic in its argument and raises only Exception subclasses "
                                                 "(the bare `except:` also catches BaseException, not modelled)")
    CATCH = ["implies(uf('u_raises', BOOL, q, {v}), result is False)", "implies(not uf('u_raises', BOOL, q, {v}), result is uf('u_value', PY, q, {v}))"]
    # a predicate that raises counts as not matching
    reg.contract(M, "_desugar_name.<locals>.predicate", params=dict(e=Node), returns=PY, free=dict(q=NF), raises={},
                 ensures=[c.format(v="e._name") for c in CATCH])
    reg.contract(M, "_desugar_attr.<locals>.predicate", params=dict(v=PY), returns=PY, free=dict(q=NF), raises={},
                 ensures=[c.format(v="v") for c in CATCH])
    # literal queries: equality on the name / on the attribute value; None: everything
    reg.contract(M, "_desugar_name.<locals>.<lambda>#0", params=dict(_=Node), returns=BOOL, raises={}, ensures=["result"])
    reg.contract(M, "_desugar_name.<locals>.<lambda>#2", params=dict(e=Node), returns=BOOL, free=dict(q=PY), raises={},
                 ensures=["result == (e._name == q)"], note="__eq__ of names is py_eq and does not raise")
    reg.contract(M, "_desugar_attr.<locals>.<lambda>#0", params=dict(v=PY), returns=BOOL, free=dict(q=PY), raises={}, ensures=["result == (v == q)"])
    # a Boolean on the name: the compiled function applied to the name
    CF = U("CF")
    reg.sort(CF=CF)
    reg.callable_sorts["CF"] = reg.external("<compiled boolean>", params=collections.OrderedDict(f=CF, v=PY), returns=BOOL, pure=True, raises={},
                                            ensures=["result == uf('csem', BOOL, f, v)"],
                                            note="the function Boolean.to_pyfunc() returns: total (its generated body catches Exception); csem is its truth value. "
                                                 "csem == bsem (compiled == interpreted) is NOT decided deductively: the code is exec-ed text")
    reg.contract(M, "_desugar_name.<locals>.<lambda>#1", params=dict(e=Node), returns=BOOL, free=dict(f=CF), raises={},
                 ensures=["result == uf('csem', BOOL, f, e._name)"])
    # conf[name, q0, q1]: name and (q0 or q1) for any attribute
    reg.contract(M, "_desugar_attrs.<locals>.<lambda>#0", params=dict(v=PY), returns=BOOL, free=dict(attr_queries=List(AF)), raises={},
                 ensures=["result == exists(k, range(0, len(attr_queries)), %s)" % ASEM.format(f="attr_queries[k]", a="v")])
    reg.contract(M, "_desugar.<locals>.<lambda>#0", params=dict(e=Node), returns=BOOL, free=dict(name_query=Q, aq=Q), raises={},
                 ensures=["result == (%s and %s)" % (QSEM.format(q="name_query", n="e"), QSEM.format(q="aq", n="e"))])
    reg.contract(M, "_desugar.<locals>.<lambda>#1", params=dict(_=Node), returns=BOOL, raises={}, ensures=["result"])
