"""BOUNDED stand-in / native witness search for C07 (never counted as proved):
 (1) registration / look-up interleavings: one filterable spec with two implementations, a parser on the spec and a combiner on the parser; every
     sequence of <= K operations out of {add 'a'/'b' on impl1, impl2, spec, parser, combiner; look up impl1, impl2, spec}: every look-up must
     return the union of what was registered so far on that implementation, on the spec, or through the parser / combiner;
 (2) AllowFilter.filter_content on every content of <= L lines over {'', 'a', 'b', 'ab', 'x', '-a', 'a.*'} with budgets in {1, 2, many}: an
     order-preserving sub-sequence, every kept line contains a filter string, the last line matching each filter is kept, no matching line is
     dropped unless a budget is used up; no filter -> nothing.
usage: /venv/bin/python filters_small_scope.py <repo root> <K> <L> ; exit 1 + JSON line with a witness."""
import itertools, json, sys
root, K, L = sys.argv[1], int(sys.argv[2]), int(sys.argv[3])
sys.path.insert(0, root)
import logging
logging.disable(logging.CRITICAL)
from insights.core import filters, dr, Parser
from insights.core.context import HostContext
from insights.core.plugins import datasource, parser, combiner
from insights.core.spec_factory import RegistryPoint, SpecSet
from insights.cleaner.filters import AllowFilter


def fail(**kw):
    print(json.dumps(kw, default=repr))
    sys.exit(1)


filters.ENABLED = True
uid = itertools.count()


def world():
    Specs = type("FSpecs%d" % next(uid), (SpecSet,), {"thing": RegistryPoint(filterable=True)})

    def mk():
        @datasource(HostContext)
        def thing(broker):
            return []
        return thing
    I1 = type("FImpl%d" % next(uid), (Specs,), {"thing": mk()})
    I2 = type("FImpl%d" % next(uid), (Specs,), {"thing": mk()})
    P = parser(Specs.thing)(type("FParser%d" % next(uid), (Parser,), {"parse_content": lambda self, c: None}))

    @combiner(P)
    def comb(p):
        return p
    comb.__name__ = "fcomb%d" % next(uid)
    return {"impl1": I1.thing, "impl2": I2.thing, "spec": Specs.thing, "parser": P, "combiner": comb}


OPS = [("add", t, s) for t in ("impl1", "impl2", "spec", "parser", "combiner") for s in ("a", "b")] + [("get", t, None) for t in ("impl1", "impl2", "spec")]
n1 = 0
for k in range(1, K + 1):
    for seq in itertools.product(OPS, repeat=k):
        if seq[-1][0] != "get":
            continue
        w = world()
        reg = dict((t, set()) for t in w)
        for op, t, s in seq:
            if op == "add":
                filters.add_filter(w[t], s)
                reg[t].add(s)
            else:
                got = set(filters.get_filters(w[t]))
                shared = reg["spec"] | reg["parser"] | reg["combiner"]
                # every implementation also sees what was registered on its sibling? no: on itself, on the spec, or through dependents
                want = shared | (reg[t] if t != "spec" else set())
                n1 += 1
                if got != want:
                    fail(violation="filter set in force differs from the union registered so far", sequence=[(o, x, y) for o, x, y in seq], looked_up=t,
                         got=sorted(got), want=sorted(want))

# ---------------------------------------------------------------- (2) content filtering
LINES = ["", "a", "b", "ab", "x", "-a", "a.*"]
n2 = 0
for n in range(0, L + 1):
    for content in itertools.product(LINES, repeat=n):
        content = list(content)
        for allow in ({}, {"a": 10000}, {"a": 1}, {"a": 2, "b": 1}, {"b": 10000, "a.*": 1}, {"-a": 1, "x": 10000}):
            before = dict(allow)
            out = AllowFilter.filter_content(list(content), allow)
            n2 += 1
            ctx = dict(content=content, allowlist=before, out=out)
            if allow != before:
                fail(violation="the caller's allow list was modified", **ctx)
            it = iter(enumerate(content))
            pos = []
            for line in out:                      # order-preserving sub-sequence (greedy match from the left is enough for a witness check)
                for i, c in it:
                    if c == line:
                        pos.append(i)
                        break
                else:
                    fail(violation="output is not an order-preserving sub-sequence of the input", **ctx)
            if any(not any(f in line for f in before) for line in out):
                fail(violation="a kept line contains no filter string", **ctx)
            if not before and out:
                fail(violation="lines kept without any filter", **ctx)
            for f in before:
                idx = [i for i, c in enumerate(content) if f in c]
                if idx and content[idx[-1]] not in out:
                    fail(violation="the last line matching a filter was dropped", filter=f, **ctx)
            if all(v >= 10000 for v in before.values()) and before:
                want = [c for c in content if any(f in c for f in before)]
                if out != want:
                    fail(violation="a matching line was dropped although no budget is used up", want=want, **ctx)
print(json.dumps({"ok": True, "lookups": n1, "contents": n2, "K": K, "L": L}))
