import re
"""Sidecar contracts for the parser combinators of insights/parsr/__init__.py (C19): each process() against the defining equation of
its denotation, children abstract.  den(p, pos, data) = Fail | Ok(npos, val) is given by three uninterpreted functions."""
import collections
from pyvc.dsl import *

M = "insights/parsr/__init__.py"
P = Ref("P")
Chr = U("Chr")
PVal = U("PVal")
DATA = List(Opt(Chr))
OK = "uf('ok', BOOL, {p}, {pos}, data)"
NP = "uf('npos', INT, {p}, {pos}, data)"
VL = "uf('val', U('PVal'), {p}, {pos}, data)"
# the input: characters followed by one terminal None; positions stay inside it
WFD = ["len(data) >= 1", "data[len(data) - 1] is None", "forall(k, range(0, len(data) - 1), data[k] is not None)", "0 <= pos and pos < len(data)"]
RES = Tup(INT, PVal)


def declare(reg):
    from pyvc import core as _core
    _core.STR_LIKE_SORTS.add("Chr")          # a character IS a one-character string: `p == "\\"` is a real comparison
    reg.sort(Ref_P=P, ChrT=Chr)
    reg.cls("P", pyclasses=["Parser", "AnyChar", "Char", "InSet", "Sequence", "Choice", "Many", "FollowedBy", "NotFollowedBy", "KeepLeft",
                            "KeepRight", "Opt", "Wrapper", "Forward", "EOF", "Literal", "Until", "Map"],
            children=List(P), char=Chr, values=Set(Chr), lower=INT, default=PVal, name=PY, chars=List(Chr), ignore_case=BOOL, value=PY, _NULL=PY)
    reg.specfun("val_py", dict(v=PY), PVal, None)
    reg.specfun("val_chars", dict(l=List(Chr)), PVal, None)
    reg.specfun("val_str", dict(s=STR), PVal, None)
    reg.exc_files.append(M)
    reg.exc_attrs["Backtrack"] = collections.OrderedDict(msg=STR)
    reg.cls("PCtx")
    reg.interface("PCtx", "set", params=dict(self=Ref("PCtx"), pos=INT, msg=None), raises={},
                  note="Context.set only records error positions / messages")
    reg.specfun("val_chr", dict(c=Chr), PVal, None)
    reg.specfun("val_list", dict(l=List(PVal)), PVal, None)
    reg.coercions = {(Chr.key, PVal.key): "val_chr", (List(PVal).key, PVal.key): "val_list", (PY.key, PVal.key): "val_py",
                     (List(Chr).key, PVal.key): "val_chars", (STR.key, PVal.key): "val_str"}
    # the protocol every parser follows (what a combinator may assume of its children)
    reg.interface("P", "process", params=dict(self=P, pos=INT, data=DATA, ctx=Ref("PCtx")), returns=RES,
                  requires=WFD,
                  raises={"Exception": "not %s" % OK.format(p="self", pos="pos")}, raise_frame="unchanged",
                  ensures=["result[0] == %s and result[1] == %s" % (NP.format(p="self", pos="pos"), VL.format(p="self", pos="pos")),
                           "pos <= result[0] and result[0] < len(data)"],
                  note="interface contract of process(): returns (new position, value) iff the denotation is Ok, raises some Exception iff it "
                       "is Fail, never moves backwards or beyond the terminal; the _ParserMeta debug wrapper around process is not modelled")
    common = dict(params=dict(self=P, pos=INT, data=DATA, ctx=Ref("PCtx")), returns=RES, requires=WFD)

    def O(t):
        """parameters are rebindable locals: a postcondition speaks about their values at entry"""
        return re.sub(r"(?<![A-Za-z_.])pos(?![A-Za-z_\[])", "old(pos)", t)

    def prim(name, ok, npos, val, **kw):
        reg.contract(M, name + ".process", raises={"Exception": "not (%s)" % ok}, raise_frame="unchanged",
                     ensures=[O("result[0] == %s" % npos), O("result[1] == %s" % val), "old(pos) <= result[0] and result[0] < len(data)"], **dict(common, **kw))
    prim("AnyChar", "data[pos] is not None", "pos + 1", "val_chr(some(data[pos]))")
    prim("Char", "data[pos] == self.char", "pos + 1", "val_chr(self.char)", assume=["True"])
    prim("InSet", "data[pos] is not None and some(data[pos]) in self.values", "pos + 1", "val_chr(some(data[pos]))")

    C0, C1 = "self.children[0]", "self.children[1]"
    TWO = ["len(self.children) == 2"]
    # --- two-child combinators (straight-line)
    L_OK = OK.format(p=C0, pos="pos")
    L_NP = NP.format(p=C0, pos="pos")
    L_VL = VL.format(p=C0, pos="pos")
    R_OK = OK.format(p=C1, pos=L_NP)
    def two(name, ok, npos, val):
        reg.contract(M, name + ".process", raises={"Exception": "not (%s)" % ok}, raise_frame="unchanged", assume=TWO,
                     note="a two-child combinator has exactly two children (set by its constructor)",
                     ensures=[O("result[0] == %s" % npos), O("result[1] == %s" % val), "old(pos) <= result[0] and result[0] < len(data)"], **common)
    # look-ahead consumes nothing: the position returned is the left parser's, never the predicate's
    two("FollowedBy", "%s and %s" % (L_OK, R_OK), L_NP, L_VL)
    two("NotFollowedBy", "%s and not %s" % (L_OK, R_OK), L_NP, L_VL)
    two("KeepLeft", "%s and %s" % (L_OK, R_OK), NP.format(p=C1, pos=L_NP), L_VL)
    two("KeepRight", "%s and %s" % (L_OK, R_OK), NP.format(p=C1, pos=L_NP), VL.format(p=C1, pos=L_NP))
    # option: greedy (the child's result whenever it succeeds), otherwise the default at the original position; never fails
    reg.contract(M, "Opt.process", raises={}, assume=["len(self.children) >= 1"],
                 ensures=[O("implies(%s, result[0] == %s and result[1] == %s)" % (L_OK, L_NP, L_VL)),
                          O("implies(not %s, result[0] == pos and result[1] == self.default)" % L_OK),
                          "old(pos) <= result[0] and result[0] < len(data)"], **common)
    # ordered choice: the first alternative that succeeds AT THE ORIGINAL POSITION wins; a failed alternative leaves no trace
    FIRST = "exists(j, range(0, len(self.children)), %s and forall(k, range(0, j), not %s) and result[0] == %s and result[1] == %s)" % (
        OK.format(p="self.children[j]", pos="pos"), OK.format(p="self.children[k]", pos="pos"),
        NP.format(p="self.children[j]", pos="pos"), VL.format(p="self.children[j]", pos="pos"))
    reg.contract(M, "Choice.process", raises={"Exception": "forall(j, range(0, len(self.children)), not %s)" % OK.format(p="self.children[j]", pos="pos")},
                 raise_frame="unchanged",
                 loops={0: ["forall(j, range(0, i_0), not %s)" % OK.format(p="it_0[j]", pos="pos"), "it_0 == self.children", "pos == old(pos)"]},
                 ensures=[O(FIRST), "old(pos) <= result[0] and result[0] < len(data)"], **common)
    # sequence: left to right, each child starts where the previous one stopped; the first failure fails the whole
    CHAIN = ("len(ps) == {n} + 1 and ps[0] == old(pos) and forall(k, range(0, {n}), %s and ps[k + 1] == %s and rs[k] == %s and ps[k] <= ps[k + 1] and ps[k + 1] < len(data))"
             % (OK.format(p="self.children[k]", pos="ps[k]"), NP.format(p="self.children[k]", pos="ps[k]"), VL.format(p="self.children[k]", pos="ps[k]")))
    reg.contract(M, "Sequence.process", locals=dict(results=List(PVal), ps=List(INT), rs=List(PVal)),
                 ghosts=collections.OrderedDict(ps=(List(INT), "[pos]"), rs=(List(PVal), "[]")),
                 ghost_on=[("results.append(res)", "ps.append(pos); rs.append(res)", "after")],
                 loops={0: [CHAIN.format(n="i_0"), "pos == ps[i_0]", "len(rs) == i_0 and seq_eq(results, rs)", "it_0 == self.children", "0 <= pos and pos < len(data)", "old(pos) <= pos"]},
                 raises={"Exception": None}, raise_frame="unchanged",
                 ensures=[CHAIN.format(n="len(self.children)"), "result[0] == ps[len(self.children)]", "result[1] == val_list(results) and seq_eq(results, rs)",
                          "old(pos) <= result[0] and result[0] < len(data)"],
                 ensures_raise={"Exception": [
                     # it fails exactly when some child fails at the position the chain reached
                     "exists(k, range(0, len(self.children)), len(ps) == k + 1 and not %s)" % OK.format(p="self.children[k]", pos="ps[k]")]},
                 **common)

    # repetition: greedy - the child is applied from where it stopped until it fails; at least `lower` successes
    MCH = ("len(ps) == {n} + 1 and ps[0] == old(pos) and forall(k, range(0, {n}), %s and ps[k + 1] == %s and rs[k] == %s and ps[k + 1] < len(data))"
           % (OK.format(p=C0, pos="ps[k]"), NP.format(p=C0, pos="ps[k]"), VL.format(p=C0, pos="ps[k]")))
    reg.contract(M, "Many.process", locals=dict(results=List(PVal), ps=List(INT), rs=List(PVal), p=P),
                 assume=["len(self.children) >= 1"],
                 ghosts=collections.OrderedDict(ps=(List(INT), "[pos]"), rs=(List(PVal), "[]")),
                 ghost_on=[("results.append(res)", "ps.append(pos); rs.append(res)", "after")],
                 loops={0: [MCH.format(n="len(rs)"), "pos == ps[len(rs)]", "seq_eq(results, rs)", "p == self.children[0]", "orig == old(pos)",
                            "0 <= pos and pos < len(data)", "old(pos) <= pos"]},
                 raises={"Exception": None}, raise_frame="unchanged",
                 ensures=[MCH.format(n="len(rs)"), "result[0] == ps[len(rs)]", "result[1] == val_list(results) and seq_eq(results, rs)",
                          # greedy: it stopped because the child fails at the position reached; lower bound respected
                          "not %s" % OK.format(p=C0, pos="ps[len(rs)]"), "len(rs) >= self.lower",
                          "old(pos) <= result[0] and result[0] < len(data)"],
                 ensures_raise={"Exception": [MCH.format(n="len(rs)"), "not %s" % OK.format(p=C0, pos="ps[len(rs)]"), "len(rs) < self.lower"]},
                 **common)

    # --- wrappers: exactly the child
    for name in ("Wrapper", "Forward"):
        reg.contract(M, name + ".process", raises={"Exception": "not %s" % L_OK}, raise_frame="unchanged", assume=["len(self.children) >= 1"],
                     ensures=[O("result[0] == %s" % L_NP), O("result[1] == %s" % L_VL), "old(pos) <= result[0] and result[0] < len(data)"], **common)
    # --- end of input: succeeds exactly on the terminal, consumes nothing
    reg.specfun("val_none", dict(), PVal, None)
    reg.coercions[(NONE.key, PVal.key)] = "val_none"
    prim("EOF", "data[pos] is None", "pos", "val_none()")
    # --- literal text: every character matches in turn (lower-cased input when ignore_case); consumes exactly the literal
    reg.interface("Chr", "lower", params=dict(self=Chr), returns=Chr, pure=True, raises={}, ensures=["result == uf('chr_lower', U('Chr'), self)"])
    LIT_OK = ("forall(k, range(0, len(self.chars)), pos + k < len(data) and data[pos + k] is not None and "
              "(uf('chr_lower', U('Chr'), some(data[pos + k])) if self.ignore_case else some(data[pos + k])) == self.chars[k])")
    reg.contract(M, "Literal.process", raises={"Exception": "not (%s)" % LIT_OK}, raise_frame="unchanged",
                 locals=dict(old=INT, result=List(Opt(Chr))),
                 loops={0: ["it_0 == self.chars", "pos == old + i_0 and old == old(pos) and pos < len(data)",
                            "forall(k, range(0, i_0), data[old + k] is not None and some(data[old + k]) == self.chars[k])"],
                        1: ["it_1 == self.chars", "pos == old + i_1 and old == old(pos) and pos < len(data)", "len(result) == i_1",
                            "forall(k, range(0, i_1), data[old + k] is not None and uf('chr_lower', U('Chr'), some(data[old + k])) == self.chars[k] and result[k] == data[old + k])"]},
                 ensures=["result[0] == old(pos) + len(self.chars)", "old(pos) <= result[0] and result[0] < len(data)",
                          # the value: the stored value if one was given, else the literal (the text actually read when case is ignored)
                          "implies(self.value is not self._NULL, result[1] == val_py(self.value))",
                          "implies(self.value is self._NULL and not self.ignore_case, result[1] == val_chars(self.chars))"],
                 **common)
    # --- until: the parser is applied until the predicate succeeds (the predicate consumes nothing) or the parser fails
    UCH = ("len(ps) == {n} + 1 and ps[0] == old(pos) and forall(k, range(0, {n}), not %s and %s and ps[k + 1] == %s and rs[k] == %s and ps[k + 1] < len(data))"
           % (OK.format(p=C1, pos="ps[k]"), OK.format(p=C0, pos="ps[k]"), NP.format(p=C0, pos="ps[k]"), VL.format(p=C0, pos="ps[k]")))
    reg.contract(M, "Until.process", locals=dict(results=List(PVal), ps=List(INT), rs=List(PVal), parser=P, pred=P), assume=TWO,
                 ghosts=collections.OrderedDict(ps=(List(INT), "[pos]"), rs=(List(PVal), "[]")),
                 ghost_on=[("results.append(res)", "ps.append(pos); rs.append(res)", "after")],
                 loops={0: [UCH.format(n="len(rs)"), "pos == ps[len(rs)]", "seq_eq(results, rs)", "parser == self.children[0] and pred == self.children[1]",
                            "0 <= pos and pos < len(data)", "old(pos) <= pos"]},
                 raises={}, 
                 ensures=[UCH.format(n="len(rs)"), "result[0] == ps[len(rs)]", "result[1] == val_list(results) and seq_eq(results, rs)",
                          # it stopped because the predicate succeeds here, or the parser fails here
                          "%s or not %s" % (OK.format(p=C1, pos="ps[len(rs)]"), OK.format(p=C0, pos="ps[len(rs)]")),
                          "old(pos) <= result[0] and result[0] < len(data)"],
                 **common)
    # --- map: the child's position, the function applied to the child's value; fails if the child fails or the function raises
    reg.external("traceback.format_exc", returns=STR)
    reg.external("os.linesep", returns=STR, pure=True)
    MapF = U("MapFn")
    reg.sort(MapFn=MapF)
    reg.classes["P"]["func"] = MapF
    reg.classes["PCtx"] = dict(reg.classes.get("PCtx", {}), function_error=PY)
    reg.callables = getattr(reg, "callables", {})
    reg.callables[("P", "func")] = reg.external("<map function>", params=collections.OrderedDict(f=MapF, v=PVal), returns=PVal,
                                                raises={"Exception": "uf('mf_raises', BOOL, f, v)"}, raise_frame="unchanged",
                                                ensures=["result == uf('mf_value', U('PVal'), f, v)"],
                                                note="a mapped function is deterministic in its argument and raises only Exception subclasses")
    reg.contract(M, "Map.process", raises={"Exception": "not %s or uf('mf_raises', BOOL, self.func, %s)" % (L_OK, L_VL)},
                 assume=["len(self.children) >= 1"], modifies=["PCtx.function_error"],
                 ensures=[O("result[0] == %s" % L_NP), O("result[1] == uf('mf_value', U('PVal'), self.func, %s)" % L_VL),
                          "old(pos) <= result[0] and result[0] < len(data)"], **common)

    # --- string of characters from a set: greedy; an escape character followed by an escapable one contributes the escaped character
    PS = Ref("PStr")
    reg.cls("PStr", pyclasses=["String"], chars=Set(Opt(Chr)), echars=Set(Opt(Chr)), min_length=INT)
    STEP_E = "(data[ps[{k}]] == '\\\\' and data[ps[{k}] + 1] in self.echars)"
    STEP_C = "(data[ps[{k}]] in self.chars)"
    SCH = ("len(ps) == len(rs) + 1 and ps[0] == old(pos) and forall(k, range(0, len(rs)), ps[k] < len(data) - 1 and ps[k + 1] < len(data) and "
           "(ps[k + 1] == ps[k] + 2 and rs[k] == some(data[ps[k] + 1]) if %s else %s and ps[k + 1] == ps[k] + 1 and rs[k] == some(data[ps[k]])))"
           % (STEP_E.format(k="k"), STEP_C.format(k="k")))
    reg.contract(M, "String.process", locals=dict(results=List(Chr), ps=List(INT), rs=List(Chr), p=Opt(Chr), old=INT),
                 ghosts=collections.OrderedDict(ps=(List(INT), "[pos]"), rs=(List(Chr), "[]")),
                 ghost_on=[("pos += 2", "ps.append(pos); rs.append(some(data[pos - 1]))", "after"),
                           ("pos += 1", "ps.append(pos); rs.append(some(data[pos - 1]))", "after")],
                 loops={0: [SCH, "pos == ps[len(rs)] and old == old(pos)", "seq_eq(results, rs)", "p == data[pos]", "0 <= pos and pos < len(data)", "old(pos) <= pos"]},
                 raises={"Exception": None}, raise_frame="unchanged",
                 assume=["None not in self.chars and None not in self.echars"],
                 note="String.__init__ builds both character sets from the characters of strings: the terminal None is in neither",
                 ensures=[SCH, "result[0] == ps[len(rs)]", "result[1] == val_str(''.join(results)) and seq_eq(results, rs)", "len(rs) >= self.min_length",
                          # greedy: it stopped because neither an escaped nor a plain character of the set is next
                          "not %s and not %s" % (STEP_E.format(k="len(rs)"), STEP_C.format(k="len(rs)")),
                          "old(pos) <= result[0] and result[0] < len(data)"],
                 ensures_raise={"Exception": [SCH, "not %s and not %s" % (STEP_E.format(k="len(rs)"), STEP_C.format(k="len(rs)")), "len(rs) < self.min_length"]},
                 **dict(common, params=dict(self=PS, pos=INT, data=DATA, ctx=Ref("PCtx"))))

    # --- position marker: exactly the wrapped parser; the value is paired with the line / column of the ORIGINAL position
    reg.interface("PCtx", "line", params=dict(self=Ref("PCtx"), pos=INT), returns=INT, pure=True, raises={}, ensures=["result == uf('ctx_line', INT, self, pos)"],
                  note="Context.line / Context.col: read-only functions of the context and the position (bisect over the line table)")
    reg.interface("PCtx", "col", params=dict(self=Ref("PCtx"), pos=INT), returns=INT, pure=True, raises={}, ensures=["result == uf('ctx_col', INT, self, pos)"])
    reg.external("Mark", params=collections.OrderedDict(lineno=INT, col=INT, value=PVal), returns=PVal, pure=True, raises={},
                 ensures=["result == uf('val_mark', U('PVal'), lineno, col, value)"], note="Mark(lineno, col, value) stores its three arguments")
    reg.contract(M, "PosMarker.process", raises={"Exception": "not %s" % L_OK}, raise_frame="unchanged", assume=["len(self.children) >= 1"],
                 ensures=[O("result[0] == %s" % L_NP),
                          O("result[1] == uf('val_mark', U('PVal'), uf('ctx_line', INT, ctx, pos) + 1, uf('ctx_col', INT, ctx, pos) + 1, %s)" % L_VL),
                          "old(pos) <= result[0] and result[0] < len(data)"], **common)
    # --- lift: the children in sequence (each starts where the previous one stopped), then the function applied to all their values
    PL = Ref("PLift")
    LiftF = U("LiftFn")
    reg.sort(LiftFn=LiftF)
    reg.cls("PLift", pyclasses=["Lift"], children=List(P), name=PY, func=LiftF)
    reg.callables[("PLift", "func")] = reg.external("<lifted function>", params=collections.OrderedDict(f=LiftF, vs=List(PVal)), returns=PVal,
                                                    raises={"Exception": "uf('lf_raises', BOOL, f, vs)"}, raise_frame="unchanged",
                                                    ensures=["result == uf('lf_value', U('PVal'), f, vs)"],
                                                    note="a lifted function is deterministic in its arguments and raises only Exception subclasses")
    reg.contract(M, "Lift.process", locals=dict(results=List(PVal), ps=List(INT), rs=List(PVal)),
                 ghosts=collections.OrderedDict(ps=(List(INT), "[pos]"), rs=(List(PVal), "[]")),
                 ghost_on=[("results.append(res)", "ps.append(pos); rs.append(res)", "after")],
                 loops={0: [CHAIN.format(n="i_0"), "pos == ps[i_0]", "len(rs) == i_0 and seq_eq(results, rs)", "it_0 == self.children", "0 <= pos and pos < len(data)", "old(pos) <= pos"]},
                 raises={"Exception": None}, modifies=["PCtx.function_error"],
                 ensures=[CHAIN.format(n="len(self.children)"), "result[0] == ps[len(self.children)]",
                          "result[1] == uf('lf_value', U('PVal'), self.func, results) and seq_eq(results, rs)",
                          "not uf('lf_raises', BOOL, self.func, results)",
                          "old(pos) <= result[0] and result[0] < len(data)"],
                 ensures_raise={"Exception": [
                     # it fails exactly when some child fails where the chain arrived, or every child succeeded and the function raises
                     "exists(k, range(0, len(self.children)), len(ps) == k + 1 and not %s) or "
                     "(%s and uf('lf_raises', BOOL, self.func, results) and seq_eq(results, rs))"
                     % (OK.format(p="self.children[k]", pos="ps[k]"), CHAIN.format(n="len(self.children)"))]},
                 **dict(common, params=dict(self=PL, pos=INT, data=DATA, ctx=Ref("PCtx"))))

    # --- the operators and helpers that BUILD combinators: which class, over which children, in which order.  The class constructors are
    # assumed (they store the children they are given); `kind` is the class of a parser object
    KINDS = collections.OrderedDict(Sequence=1, Choice=2, KeepLeft=3, KeepRight=4, FollowedBy=5, NotFollowedBy=6, Until=7, Map=8)
    KIND = "uf('kind', INT, {p})"
    for cname in ("Sequence", "Choice"):
        reg.external(cname, params=dict(children=List(P)), returns=P, raises={},
                     ensures=["seq_eq(result.children, children)", "%s == %d" % (KIND.format(p="result"), KINDS[cname])],
                     note="%s(children): a parser of that class over exactly the given children, in order (set_children appends each in turn)" % cname)
    for cname in ("KeepLeft", "KeepRight", "FollowedBy", "NotFollowedBy", "Until"):
        reg.external(cname, params=collections.OrderedDict(left=P, right=P), returns=P, raises={},
                     ensures=["len(result.children) == 2 and result.children[0] == left and result.children[1] == right",
                              "%s == %d" % (KIND.format(p="result"), KINDS[cname])],
                     note="%s(left, right): a two-child parser of that class over (left, right)" % cname)
    reg.external("Map", params=collections.OrderedDict(child=P, func=MapF), returns=P, raises={},
                 ensures=["len(result.children) == 1 and result.children[0] == child and result.func == func", "%s == %d" % (KIND.format(p="result"), KINDS["Map"])])
    BIN = dict(params=collections.OrderedDict(self=P, other=P), returns=P, raises={}, modifies=[])
    PAIR = "len(result.children) == 2 and result.children[0] == self and result.children[1] == other"
    # a + b on a parser that is not itself a sequence / a | b on one that is not itself a choice: a NEW two-child node (no flattening of the operands)
    reg.contract(M, "Parser.__add__", ensures=[PAIR, "%s == 1" % KIND.format(p="result")], **BIN)
    reg.contract(M, "Parser.__or__", ensures=[PAIR, "%s == 2" % KIND.format(p="result")], **BIN)
    reg.contract(M, "Parser.__lshift__", ensures=[PAIR, "%s == 3" % KIND.format(p="result")], **BIN)
    reg.contract(M, "Parser.__rshift__", ensures=[PAIR, "%s == 4" % KIND.format(p="result")], **BIN)
    reg.contract(M, "Parser.__and__", ensures=[PAIR, "%s == 5" % KIND.format(p="result")], **BIN)
    reg.contract(M, "Parser.__truediv__", ensures=[PAIR, "%s == 6" % KIND.format(p="result")], **BIN)
    reg.contract(M, "Parser.until", params=collections.OrderedDict(self=P, pred=P), returns=P, raises={}, modifies=[],
                 ensures=["len(result.children) == 2 and result.children[0] == self and result.children[1] == pred", "%s == 7" % KIND.format(p="result")])
    reg.contract(M, "Parser.map", params=collections.OrderedDict(self=P, func=MapF), returns=P, raises={}, modifies=[],
                 ensures=["len(result.children) == 1 and result.children[0] == self and result.func == func", "%s == 8" % KIND.format(p="result")])
    # accumulation: (a + b) + c and (a | b) | c append to the SAME node, at the end; the other children keep their places
    ACC = ["result == self", "seq_eq(self.children, old(self.children) + [other])",
           "forall(q, Ref_P, implies(q != self, q.children == old(q.children)))"]
    reg.interface("P", "add_child", params=collections.OrderedDict(self=P, child=P), returns=P, raises={}, modifies=["P.children"],
                  ensures=[t.replace("other", "child") for t in ACC])
    reg.contract(M, "Node.add_child", params=collections.OrderedDict(self=P, child=P), returns=P, raises={}, modifies=["P.children"],
                 ensures=[t.replace("other", "child") for t in ACC])
    reg.contract(M, "Sequence.__add__", params=collections.OrderedDict(self=P, other=P), returns=P, raises={}, modifies=["P.children"], ensures=ACC)
    reg.contract(M, "Choice.__or__", params=collections.OrderedDict(self=P, other=P), returns=P, raises={}, modifies=["P.children"], ensures=ACC)
    # sep_by's accumulator: the first element (unless it is the no-first marker) followed by the rest, in order; a falsy first element is an element
    reg.glob(M, NO_FIRST=PY)
    reg.dotted_globals = dict(getattr(reg, "dotted_globals", {}), **{"Parser._NO_FIRST": "NO_FIRST"})
    reg.contract(M, "Parser._accumulate", static=True, params=collections.OrderedDict(first=PY, rest=List(PY)), returns=List(PY), raises={}, modifies=[],
                 locals=dict(results=List(PY)),
                 ensures=["implies(first is Parser._NO_FIRST, seq_eq(result, rest))",
                          "implies(first is not Parser._NO_FIRST, seq_eq(result, [first] + rest))"])

    # ------------------------------------------------------------------ tag expression language (insights/core/taglang.py)
    T = "insights/core/taglang.py"
    PR = Ref("Pred")
    TAGS = U("TagSet")
    reg.cls("Pred", pyclasses=["Not", "And", "Or"], pred=PR, left=PR, right=PR)
    SEM = "uf('sem', BOOL, {p}, value)"
    reg.interface("Pred", "test", params=dict(self=PR, value=TAGS), returns=BOOL, pure=True, raises={},
                  ensures=["result == %s" % SEM.format(p="self")], note="Predicate.test: the boolean meaning `sem` of a predicate on a tag set")
    reg.contract(T, "Not.test", params=dict(self=PR, value=TAGS), returns=BOOL, raises={}, ensures=["result == (not %s)" % SEM.format(p="self.pred")])
    reg.contract(T, "And.test", params=dict(self=PR, value=TAGS), returns=BOOL, raises={},
                 ensures=["result == (%s and %s)" % (SEM.format(p="self.left"), SEM.format(p="self.right"))])
    reg.contract(T, "Or.test", params=dict(self=PR, value=TAGS), returns=BOOL, raises={},
                 ensures=["result == (%s or %s)" % (SEM.format(p="self.left"), SEM.format(p="self.right"))])
