"""C03 - a failing component affects only its dependents and is always accounted for."""
from contracts.dr import M
from contracts.plugins import P

SIDECARS = ["dr", "plugins"]
UNITS = [
    (M, "Broker.__contains__"),
    (M, "Broker.__setitem__"),
    (M, "Broker.add_exception"),
    (M, "Broker.fire_observers"),
    (M, "ComponentType.invoke"),
    (M, "ComponentType.process"),
    (P, "PluginType.invoke"),
    (P, "datasource.invoke"),
    (P, "parser.invoke"),
    (P, "rule.process"),
    (M, "run_components"),
]
REFINEMENTS = [
    ((M, "ComponentType.process"), ("Delegate", "process")),
    ((P, "rule.process"), ("Delegate", "process")),
    ((M, "ComponentType.invoke"), ("Delegate", "invoke")),
    ((P, "PluginType.invoke"), ("Delegate", "invoke")),
    ((P, "datasource.invoke"), ("Delegate", "invoke")),
    ((P, "parser.invoke"), ("Delegate", "invoke")),
]
NOT_CARRIED = ["signal / alarm delivery: a timeout is 'the body may raise TimeoutException'",
               "get_registry_points is an assumed read-only function of the component (regpoints)",
               "isolation of non-dependents is carried by the frames (instances of other components untouched); the 'same value as "
               "without the fault' reading needs the determinism lemma of C04"]
