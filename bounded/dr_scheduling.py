"""BOUNDED stand-in / native witness search for C04 (never counted as proved): for every dependency graph with <= N plain components (per earlier
component: none / required / optional) and every outcome assignment (value / crash), the final values, recorded failures and missing-dependency
reports of (a) one pass dr.run, (b) one connected sub-graph at a time (run_incremental), (c) sub-graphs on a 3-thread pool (run_all) are equal,
the sub-graphs partition the components, and a digest of all results is the same under several PYTHONHASHSEED values.
usage: /venv/bin/python dr_scheduling.py <repo root> <N> [digest] ; exit 1 + JSON line with a witness."""
import hashlib, itertools, json, os, subprocess, sys
root, N = sys.argv[1], int(sys.argv[2])
DIGEST_ONLY = len(sys.argv) > 3 and sys.argv[3] == "digest"
sys.path.insert(0, root)
import logging
logging.disable(logging.CRITICAL)
from concurrent.futures import ThreadPoolExecutor
from insights.core import dr
from insights.core.plugins import component

BEHAV = {}
CALLS = {}


def fail(**kw):
    print(json.dumps(kw, default=repr))
    sys.exit(1)


_ids = itertools.count()


def make(i, kinds, comps):
    req = [comps[j] for j, k in enumerate(kinds) if k == "r"]
    opt = [comps[j] for j, k in enumerate(kinds) if k == "o"]

    def body(*args):
        CALLS[i] = CALLS.get(i, 0) + 1
        if BEHAV[i] == "crash":
            raise ValueError("crash %d" % i)
        return "v%d(%s)" % (i, ",".join(str(a) for a in args))
    body.__name__ = "s%d" % i
    body.__module__ = "verif_sched_%d" % next(_ids)
    return component(*req, optional=opt)(body)


def summary(brokers, comps):
    inst, exc, miss = {}, {}, {}
    for b in brokers:
        for c in comps:
            if c in b:
                if comps.index(c) in inst:
                    fail(violation="a component was evaluated in two sub-graphs", component=comps.index(c))
                inst[comps.index(c)] = b[c]
            if b.exceptions.get(c):
                exc[comps.index(c)] = sorted(repr(e) for e in b.exceptions[c])
            if c in b.missing_requirements:
                miss[comps.index(c)] = [[comps.index(x) for x in b.missing_requirements[c][0]], [[comps.index(x) for x in g] for g in b.missing_requirements[c][1]]]
    return inst, exc, miss


pool = ThreadPoolExecutor(max_workers=3)
h = hashlib.sha1()
runs = 0
for n in range(1, N + 1):
    for kindsets in itertools.product(*[list(itertools.product("-ro", repeat=i)) for i in range(n)]):
        comps = []
        for i, kinds in enumerate(kindsets):
            comps.append(make(i, kinds, comps))
        graph = dict((c, set(dr.get_dependencies(c))) for c in comps)
        parts = list(dr.get_subgraphs(dict(graph)))
        seen = [c for p in parts for c in p]
        if sorted(map(comps.index, seen)) != list(range(n)):
            fail(violation="sub-graphs lose or duplicate a component", kinds=["".join(k) for k in kindsets], parts=[[comps.index(c) for c in p] for p in parts])
        for outcomes in itertools.product(("value", "crash"), repeat=n):
          for disabled in [None] + list(range(n)):
            for i in range(n):
                BEHAV[i] = outcomes[i]
                dr.set_enabled(comps[i], i != disabled)
            if disabled is not None:
                parts = list(dr.get_subgraphs(dict(graph)))
                seen = [c for p in parts for c in p]
                if sorted(map(comps.index, seen)) != list(range(n)):
                    fail(violation="sub-graphs lose or duplicate a component (one component disabled)", kinds=["".join(k) for k in kindsets], disabled=disabled,
                         parts=[[comps.index(c) for c in p] for p in parts])
            counts = []
            CALLS.clear()
            one = summary([dr.run(dict(graph), broker=dr.Broker())], comps)
            counts.append(dict(CALLS))
            CALLS.clear()
            inc = summary(list(dr.run_incremental(dict(graph))), comps)
            counts.append(dict(CALLS))
            CALLS.clear()
            shared = dr.Broker()
            list(dr.run_incremental(dict(graph), broker=shared))          # one shared broker for all sub-graphs
            counts.append(dict(CALLS))
            CALLS.clear()
            par = summary(dr.run_all(dict(graph), pool=pool), comps)
            counts.append(dict(CALLS))
            runs += 1
            if any(v > 1 for c in counts for v in c.values()) or len(set(json.dumps(c, sort_keys=True) for c in counts)) != 1:
                fail(violation="a component body ran more than once, or a different number of times, depending on how the graph is scheduled",
                     kinds=["".join(k) for k in kindsets], outcomes=outcomes, disabled=disabled,
                     calls=dict(single_pass=counts[0], incremental=counts[1], incremental_shared_broker=counts[2], pooled=counts[3]))
            h.update(json.dumps([one[0], one[1], one[2]], sort_keys=True).encode())
            if not (one == inc == par):
                fail(violation="results depend on how the graph is scheduled", kinds=["".join(k) for k in kindsets], outcomes=outcomes, disabled=disabled,
                     single_pass=one, incremental=inc, pooled=par)
        for c in comps:
            dr.set_enabled(c, True)
# ---- a dependency attached after registration (as every registry point implementation is): the registered group graph that dr.run() uses by
# default must contain the edge, like get_dependency_graph does
from insights.core.plugins import datasource
GROUP = "verif_sched_group"


def mkc(name, *deps):
    def body(*args):
        return name
    body.__name__ = body.__qualname__ = name
    body.__module__ = "verif_sched_late"
    return component(*deps, group=GROUP)(body)


late_dep = mkc("late_dep")
point = mkc("point", [])          # like a registry point: an (initially empty) at-least-one group that implementations are added to
consumer = mkc("consumer", point)
dr.get_delegate(point).add_dependency(late_dep)
via_group = dr.run(GROUP, broker=dr.Broker())
via_graph = dr.run(dr.get_dependency_graph(consumer), broker=dr.Broker())
if set(dr.COMPONENTS[GROUP][point]) != set(dr.get_dependencies(point)) or (late_dep in via_group) != (late_dep in via_graph) \
        or [c in via_group for c in (point, consumer)] != [c in via_graph for c in (point, consumer)]:
    fail(violation="a dependency attached after registration is missing from the registered group graph: evaluating the group differs from "
                   "evaluating the dependency graph", group_edges=sorted(x.__name__ for x in dr.COMPONENTS[GROUP][point]),
         declared=sorted(x.__name__ for x in dr.get_dependencies(point)))
# ---- the same set of components evaluated again after an edge was added between two of them (what registering one more implementation of a
# registry point does): every driver must give what an order that respects the NEW dependencies gives (forced through run_components)
def mkv(name, *deps):
    def body(*args):
        return (name,) + tuple(args)
    body.__name__ = body.__qualname__ = name
    body.__module__ = "verif_sched_edge"
    return component(*deps)(body)


for _round in range(2):
    ea = mkv("ea")
    eb0 = mkv("eb0", ea)
    eb = mkv("eb", eb0)
    ec = mkv("ec", [ea])
    etop = mkv("etop", ec, eb)
    eset = [ea, eb0, eb, ec, etop]
    g1 = dict((x, set(dr.get_dependencies(x))) for x in eset)
    dr.run(dict(g1), broker=dr.Broker())
    list(dr.run_incremental(dict(g1), broker=dr.Broker()))
    dr.add_dependency(ec, eb)
    g2 = dict((x, set(dr.get_dependencies(x))) for x in eset)
    forced = dr.run_components([ea, eb0, eb, ec, etop], dict(g2), dr.Broker())
    want = dict((x.__name__, forced.get(x)) for x in eset)
    variants = {"single_pass": dr.run(dict(g2), broker=dr.Broker()),
                "incremental": list(dr.run_incremental(dict(g2), broker=dr.Broker()))[0],
                "pooled": dr.run_all(dict(g2), broker=dr.Broker(), pool=pool)[0]}
    for vname, bk in variants.items():
        got = dict((x.__name__, bk.get(x)) for x in eset)
        if got != want or sorted(c.__name__ for c in bk.missing_requirements) != sorted(c.__name__ for c in forced.missing_requirements):
            fail(violation="after an edge was added between two components of an already evaluated set, the evaluation differs from an order that "
                           "respects the dependencies", driver=vname, got=got, want=want)
pool.shutdown()
if DIGEST_ONLY:
    print(h.hexdigest())
    sys.exit(0)
digests = {os.environ.get("PYTHONHASHSEED", "unset"): h.hexdigest()}
for seed in ("1", "2", "3"):
    p = subprocess.run([sys.executable, os.path.abspath(__file__), root, str(min(N, 3)), "digest"], env=dict(os.environ, PYTHONHASHSEED=seed),
                       stdout=subprocess.PIPE, stderr=subprocess.PIPE, universal_newlines=True)
    if p.returncode != 0:
        print(p.stdout.strip().splitlines()[-1] if p.stdout.strip() else json.dumps({"error": p.stderr[-300:]}))
        sys.exit(p.returncode if p.returncode == 1 else 3)
    digests[seed] = p.stdout.strip()
if N <= 3 and len(set(digests.values())) != 1:
    fail(violation="results depend on PYTHONHASHSEED", digests=digests)
if N > 3 and len(set(v for k, v in digests.items() if k in "123")) != 1:
    fail(violation="results depend on PYTHONHASHSEED", digests=digests)
print(json.dumps({"ok": True, "max_components": N, "runs": runs, "hash_seeds": sorted(digests)}))
