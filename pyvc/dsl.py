"""Sidecar contract DSL.  A sidecar is data: it registers contracts, class layouts, externals and
spec functions in a Registry; it contains no repository code."""
import collections
from .core import *  # noqa: F401,F403  (types are re-exported for sidecars)
from . import core


class Contract(object):
    def __init__(self, module, qualname, **kw):
        self.module = module
        self.qualname = qualname
        self.params = collections.OrderedDict(kw.pop("params", {}))
        self.defaults = kw.pop("defaults", {})        # param -> python source expr
        self.returns = kw.pop("returns", core.NONE)
        self.requires = list(kw.pop("requires", []))
        self.ensures = list(kw.pop("ensures", []))
        # raises: ExcName -> condition string (raised IFF condition, evaluated in the pre-state),
        #         or "?cond" (may be raised only if cond), or None (may be raised at any time)
        self.raises = dict(kw.pop("raises", {}))
        self.ensures_raise = dict(kw.pop("ensures_raise", {}))   # ExcName -> [clauses] (post-state on that raise)
        self.raise_frame = kw.pop("raise_frame", "havoc")        # 'havoc' | 'unchanged'
        self.modifies = list(kw.pop("modifies", []))
        self.loops = dict(kw.pop("loops", {}))
        self.locals = dict(kw.pop("locals", {}))
        self.ghosts = collections.OrderedDict(kw.pop("ghosts", {}))   # name -> (Ty, init expr)
        self.ghost_final = collections.OrderedDict(kw.pop("ghost_final", {}))  # name -> (Ty, expr at exit): ghost results
        self.ghost_on = list(kw.pop("ghost_on", []))                  # [(pattern, stmt, 'after'|'before')]
        self.yields = kw.pop("yields", None)          # generator: element type
        self.external = kw.pop("external", False)     # assumed, body not verified
        self.pure = kw.pop("pure", False)
        self.iface = kw.pop("iface", None)            # (sidecar class, method) this contract is registered under
        self.inline = kw.pop("inline", False)
        self.unroll = dict(kw.pop("unroll", {}))
        self.free = collections.OrderedDict(kw.pop("free", {}))   # free variables of a nested def -> Ty
        self.note = kw.pop("note", "")
        self.str_mode = kw.pop("str_mode", None)
        self.assume = list(kw.pop("assume", []))      # extra assumptions (listed in evidence)
        self.self_compose = kw.pop("self_compose", None)
        self.cover = kw.pop("cover", True)
        self.kf = kw.pop("kf", {})
        self.order_insensitive = kw.pop("order_insensitive", False)   # emit `deterministic` obligations for ordered results of unordered iterations
        self.static = kw.pop("static", False)            # a staticmethod: no receiver parameter
        self.skip_body = kw.pop("skip_body", False)      # only the expr_eq obligations of this function are generated (labelled)
        self.expr_eq = list(kw.pop("expr_eq", []))       # [(code expression text, {free var: Ty}, spec expression)]
        self.no_merge = kw.pop("no_merge", ())           # '*' or line numbers of ifs whose branches are kept as separate paths
        # what a caller (in particular the recursive call) sees instead of `ensures`: used where the spec function a recursive
        # function is compared with is DEFINED as that function's own result (representative choice); `ensures` is then the
        # defining equation, proved with the recursive calls replaced by the spec function (structural induction, meta-step)
        self.call_ensures = kw.pop("call_ensures", None)
        self.verify_only = kw.pop("verify_only", False)
        # execute the body only from the first top-level statement matching this text (AST pattern) to the end: what comes before is
        # not executed, every declared local starts as an arbitrary value of its type (an over-approximation of any entry state)
        self.from_stmt = kw.pop("from_stmt", None)
        self.from_after = kw.pop("from_after", False)  # start after the statement matching from_stmt (it is itself not executed)
        self.to_stmt = kw.pop("to_stmt", None)        # ... up to (excluding) the first later top-level statement matching this text
        self.window = kw.pop("window", None)          # name of the window: several windows of one function are separate units `f@name`   # verified against this contract, but call sites resolve to another declaration
        self.empties = kw.pop("empties", {})             # 'set'/'list'/'dict' -> type of untyped empty displays                    # clause -> known-finding condition
        if kw:
            raise TypeError("unknown contract keys: %s" % sorted(kw))

    @property
    def name(self):
        return "%s::%s" % (self.module, self.qualname)


class Registry(object):
    def __init__(self):
        self.contracts = collections.OrderedDict()   # (module, qualname) -> Contract
        self.methods = {}                            # (sidecar class, method) -> Contract
        self.ifaces = {}                             # (sidecar class, method) -> interface Contract
        self.classes = {}                            # sidecar class -> {field: Ty}
        self.pyclass = {}                            # python class name -> sidecar class
        self.externals = {}                          # dotted name -> Contract | 'drop'
        self.globals = {}                            # module -> {name: Ty}
        self.sorts = {}                              # name -> Ty  (usable in forall(x, Name, ..))
        self.specfuns = {}                           # name -> (params OrderedDict, returns, body str | None)
        self.inst_axioms = {}                        # name -> [(param names, axiom text)]
        self.axioms = []                             # spec-level axioms (strings, closed)
        self.exc_attrs = {}                          # (ExcClass, attr) -> Ty
        self.exc_files = []                          # files whose class statements define exceptions
        self.exc_extra = {}                          # name -> parent (declared by hand, e.g. stdlib ones)
        self.consts = {}                             # dotted name -> (file, NAME) literal constant to read from source
        self.module_alias = {}                       # module -> {local dotted name -> canonical dotted name}
        self.assumptions = []                        # free-text assumptions listed in evidence

    # -- declaration helpers used by sidecars
    def contract(self, module, qualname, **kw):
        c = Contract(module, qualname, **kw)
        if c.window:
            # a window of a function body verified as a unit of its own: never what a call site sees
            c.verify_only = True
            self.contracts[(module, "%s@%s" % (qualname, c.window))] = c
            return c
        self.contracts[(module, qualname)] = c
        if c.iface:
            self.methods[tuple(c.iface)] = c
        elif "." in qualname and "<locals>" not in qualname:
            pc, m = qualname.rsplit(".", 1)
            key = (self.pyclass.get(pc, pc), m)
            if key not in self.ifaces:          # an interface contract is what callers see; overrides refine it
                self.methods[key] = c
        return c

    def interface(self, cls, method, **kw):
        c = Contract("<interface>", "%s.%s" % (cls, method), external=True, **kw)
        self.methods[(cls, method)] = c
        self.ifaces[(cls, method)] = c
        return c

    def external(self, dotted, **kw):
        if kw.get("drop"):
            self.externals[dotted] = "drop"
            return None
        c = Contract("<external>", dotted, external=True, **kw)
        self.externals[dotted] = c
        return c

    def cls(self, _clsname, pyclasses=(), **fields):
        name = _clsname
        self.classes.setdefault(name, {}).update(fields)
        for p in pyclasses:
            self.pyclass[p] = name
        self.pyclass.setdefault(name, name)

    def glob(self, module, **names):
        self.globals.setdefault(module, {}).update(names)

    def sort(self, **names):
        self.sorts.update(names)

    def specfun(self, name, params=None, returns=core.BOOL, body=None, inst_axioms=()):
        """inst_axioms: [(param names, axiom text)] - an axiom schema instantiated once per distinct value of the named
        parameters met in a call (used for unfolding recursive spec functions without quantifying over container sorts)."""
        self.specfuns[name] = (collections.OrderedDict(params or {}), returns, body)
        if inst_axioms:
            self.inst_axioms[name] = list(inst_axioms)

    def axiom(self, text):
        self.axioms.append(text)

    def assume(self, text):
        self.assumptions.append(text)

    def merge(self, other):
        for k in ("contracts", "methods", "ifaces", "classes", "pyclass", "externals", "sorts", "specfuns",
                  "exc_attrs", "exc_extra", "consts", "inst_axioms"):
            getattr(self, k).update(getattr(other, k))
        for m, d in other.globals.items():
            self.globals.setdefault(m, {}).update(d)
        self.axioms += other.axioms
        self.exc_files += [f for f in other.exc_files if f not in self.exc_files]
        self.assumptions += other.assumptions
