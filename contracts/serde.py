"""Sidecar contracts for insights/core/serde.py (C11): hydration never lets one entry stop the others, unmarshal keeps length and
order, an unknown entry is an error of that entry only.  A JSON document is an opaque dict-like node."""
import collections
from pyvc.dsl import *

M = "insights/core/serde.py"
Comp = U("Comp")
Val = U("Val")
J = U("JDoc")
FileH = U("FileH")
JM = Map(STR, J)


def declare(reg):
    reg.sort(Str=STR, JDoc=J, Comp=Comp)
    reg.exc_files.append("insights/core/exceptions.py")
    reg.exc_extra.update({"OSError": "Exception", "TypeError": "Exception", "KeyError": "Exception", "ValueError": "Exception"})
    for n in ("log.info", "log.debug", "log.exception", "log.warning", "log.error"):
        reg.external(n, drop=True)
    # ---- JSON documents
    reg.cls("JDoc", __isinstance__={"list": "j_is_list(self)", "dict": "j_is_map(self)"})
    for n, r in (("j_is_map", BOOL), ("j_is_list", BOOL), ("j_is_str", BOOL), ("j_is_null", BOOL)):
        reg.specfun(n, dict(n=J), r, None)
    reg.specfun("j_sub", dict(n=J), JM, None)
    reg.specfun("j_items", dict(n=J), List(J), None)
    reg.specfun("j_mk", dict(m=JM), J, None)
    reg.specfun("j_empty", dict(), J, None)
    reg.specfun("j_as_str", dict(n=J), STR, None)
    reg.axiom("forall(n, JDoc, not (j_is_map(n) and j_is_list(n)) and not (j_is_null(n) and (j_is_map(n) or j_is_list(n))))")
    reg.dictlike = {"JDoc": dict(is_map="j_is_map", sub="j_sub", mk="j_mk", empty="j_empty", is_str="j_is_str", as_str="j_as_str")}
    reg.iter_views = getattr(reg, "iter_views", {})
    reg.iter_views["JDoc"] = ("j_items", List(J))
    # JSON null is Python None
    reg.specfun("j_opt", dict(n=J), Opt(J), None)
    reg.axiom("forall(n, JDoc, (j_opt(n) is None) == j_is_null(n) and implies(not j_is_null(n), some(j_opt(n)) == n))")
    reg.coercions = getattr(reg, "coercions", {})
    reg.coercions[(J.key, Opt(J).key)] = "j_opt"
    # truthiness of a document node is an uninterpreted predicate; null and the empty list are falsy
    reg.axiom("forall(n, JDoc, implies(j_is_null(n), not truthy(n)) and implies(j_is_list(n), truthy(n) == (len(j_items(n)) > 0)))")

    # ---- the file system and json (assumed)
    reg.external("os.path.join", params=dict(a=STR, b=STR), returns=STR, pure=True, ensures=["result == uf('path_join', STR, a, b)"])
    reg.external("glob", params=dict(p=STR), returns=List(STR), pure=True, ensures=["result == uf('glob_of', List(STR), p)"], note="glob: the entries present, in some order, read once")
    reg.external("open", params=dict(path=STR), returns=FileH, raises={"OSError": "uf('unreadable', BOOL, path)"}, raise_frame="unchanged",
                 ensures=["result == uf('file_at', U('FileH'), path)"],
                 note="open() raises OSError for an entry that cannot be opened (a directory, no permission, deleted meanwhile)")
    reg.external("ser.load", params=dict(f=FileH), returns=J, raises={"Exception": "uf('not_json', BOOL, f)"}, raise_frame="unchanged",
                 ensures=["result == uf('doc_in', U('JDoc'), f)"],
                 note="json.load raises some Exception (ValueError, UnicodeDecodeError, ...) for truncated / non-JSON content, deterministically")

    # ---- components, values, brokers (only what hydration touches)
    reg.cls("Comp", __truthy__=True)
    reg.cls("Broker", instances=Map(Comp, Opt(Val)), exec_times=Map(Comp, PY))
    reg.sort(Ref_Broker=Ref("Broker"))
    reg.contract("insights/core/dr.py", "Broker.__setitem__", params=dict(self=Ref("Broker"), component=Comp, instance=Opt(Val)),
                 modifies=["Broker.instances"], raises={"KeyError": "component in self.instances"}, raise_frame="unchanged",
                 ensures=["self.instances == store(old(self.instances), component, instance)",
                          "forall(b, Ref_Broker, implies(b != self, b.instances == old(b.instances)))"])
    reg.external("dr.Broker", params=dict(), returns=Ref("Broker"), ensures=["isempty(keys(result.instances))"],
                 note="dr.Broker(): a new, empty broker")
    reg.external("dr.get_component_by_name", params=dict(name=J), returns=Opt(Comp), pure=True, raises={},
                 ensures=["result == uf('comp_named', Opt(U('Comp')), name)"],
                 note="get_component_by_name: None for a name that is not a loaded component (decorated @defaults(None): never raises)")
    reg.cls("Hydration", root=STR, ctx=PY, meta_root=STR, data_root=STR)
    UM = "uf('um', Opt(U('Val')), {d}, self.data_root, self.ctx, {k})"
    UMR = "uf('um_raises', BOOL, {d}, self.data_root, self.ctx, {k})"
    reg.external("unmarshal", params=collections.OrderedDict(data=J, root=STR, ctx=PY, ds=Comp), returns=Opt(Val),
                 raises={"Exception": "uf('um_raises', BOOL, data, root, ctx, ds)"}, raise_frame="unchanged",
                 ensures=["result == uf('um', Opt(U('Val')), data, root, ctx, ds)"],
                 note="unmarshal as seen by _hydrate_one: deterministic; may raise any Exception (ContentException for missing content, ...); "
                      "the real unmarshal/deserialize are verified separately against their own contracts")

    reg.specfun("j_py", dict(n=J), PY, None)
    reg.coercions[(J.key, PY.key)] = "j_py"
    WF = "(j_is_map({d}) and 'name' in j_sub({d}) and 'exec_time' in j_sub({d}) and 'ser_time' in j_sub({d}) and 'results' in j_sub({d}))"
    NAMED = "uf('comp_named', Opt(U('Comp')), j_sub({d})['name'])"
    H1 = Tup(Comp, Opt(Val), PY, PY)
    reg.contract(M, "Hydration._hydrate_one", params=dict(self=Ref("Hydration"), doc=J), returns=H1,
                 raises={"Exception": None}, raise_frame="unchanged",
                 ensures=[WF.format(d="doc"), "%s is not None" % NAMED.format(d="doc"),
                          "result[0] == some(%s)" % NAMED.format(d="doc"),
                          "not " + UMR.format(d="j_sub(doc)['results']", k="result[0]"),
                          "result[1] == " + UM.format(d="j_sub(doc)['results']", k="result[0]"),
                          "result[2] is j_py(j_sub(doc)['exec_time']) and result[3] is j_py(j_sub(doc)['ser_time'])"],
                 ensures_raise={"Exception": [
                     # an entry naming a component that is not loaded is a ValueError of that entry
                     "implies(%s and %s is None, isinstance_exc(exc, ValueError))" % (WF.format(d="doc"), NAMED.format(d="doc")),
                     # a well-formed entry of a loaded component fails only if unmarshalling fails
                     "implies(%s and %s is not None, %s)" % (WF.format(d="doc"), NAMED.format(d="doc"),
                                                            UMR.format(d="j_sub(doc)['results']", k="some(%s)" % NAMED.format(d="doc")))]})
    FA = "uf('file_at', U('FileH'), {p})"
    DOC = "uf('doc_in', U('JDoc'), %s)" % FA
    RESD = "j_sub(%s)['results']" % DOC
    COMP = "some(%s)" % NAMED.format(d=DOC)
    LOADS = ("(not uf('unreadable', BOOL, {p}) and not uf('not_json', BOOL, %s) and %s and %s is not None and not %s)"
             % (FA, WF.format(d=DOC), NAMED.format(d=DOC), UMR.format(d=RESD, k=COMP)))
    RES = UM.format(d=RESD, k=COMP)
    INST = "some(broker).instances"
    INV = ["broker is not None", "it_0 == paths",
           # nothing that was loaded is lost or replaced
           "forall(c, Comp, implies(c in B0, c in %s and %s[c] == B0[c]))" % (INST, INST),
           # every entry that can be loaded (and has results) has its component in the broker: a bad entry stops nothing
           "forall(k, range(0, i_0), implies(%s and truthy(%s), %s in %s))" % (LOADS.format(p="paths[k]"), RES.format(p="paths[k]"), COMP.format(p="paths[k]"), INST),
           # and what was added comes from a loadable entry, with the results that entry unmarshals to
           "forall(c, Comp, implies(c in %s and c not in B0, exists(k, range(0, i_0), %s and %s == c and %s[c] == %s and truthy(%s))))"
           % (INST, LOADS.format(p="paths[k]"), COMP.format(p="paths[k]"), INST, RES.format(p="paths[k]"), RES.format(p="paths[k]"))]
    reg.contract(M, "Hydration.hydrate", params=dict(self=Ref("Hydration"), broker=Opt(Ref("Broker"))), defaults=dict(broker="None"),
                 returns=Ref("Broker"), modifies=["Broker.instances", "Broker.exec_times"], raises={},
                 locals=dict(paths=List(STR), B0=Map(Comp, Opt(Val))),
                 ghosts=collections.OrderedDict(paths=(List(STR), "glob(os.path.join(self.meta_root, '*'))"), B0=(Map(Comp, Opt(Val)), "{}")),
                 ghost_on=[("broker = broker or dr.Broker()", "B0 = broker.instances", "after")],
                 loops={0: INV},
                 ensures=["implies(old(broker) is not None, result == some(old(broker)) and B0 == old(some(broker).instances))",
                          "implies(old(broker) is None, isempty(keys(B0)))", "result == some(broker)"]
                         + [t.replace("i_0", "len(paths)") for t in INV[2:]])

    # ---- unmarshal / deserialize (verified against their own contracts; _hydrate_one sees unmarshal as the deterministic function um)
    DF = U("DeserFn")
    reg.sort(DeserFn=DF)
    reg.cls("Val", __truthy__=None)
    reg.specfun("val_of_list", dict(l=List(Val)), Val, None)
    reg.coercions[(List(Val).key, Val.key)] = "val_of_list"
    reg.glob(M, DESERIALIZERS=Map(J, Tup(PY, DF)))
    reg.callable_sorts = getattr(reg, "callable_sorts", {})
    reg.callable_sorts["DeserFn"] = reg.external(
        "<deserializer>", params=collections.OrderedDict(f=DF, _type=PY, obj=J, root=STR, ctx=PY, ds=Comp), returns=Val,
        raises={"Exception": "uf('df_raises', BOOL, f, _type, obj, root, ctx, ds)"}, raise_frame="unchanged",
        ensures=["result == uf('df_value', U('Val'), f, _type, obj, root, ctx, ds)"],
        note="a registered deserializer is deterministic in its arguments, raises only Exception subclasses, does not touch the registries")
    DWF = "(j_is_map(data) and 'type' in j_sub(data) and 'object' in j_sub(data) and j_sub(data)['type'] in DESERIALIZERS)"
    DARGS = "DESERIALIZERS[j_sub(data)['type']][1], DESERIALIZERS[j_sub(data)['type']][0], j_sub(data)['object'], root, ctx, ds"
    reg.contract(M, "deserialize", params=collections.OrderedDict(data=J, root=STR, ctx=PY, ds=Comp), returns=Val,
                 raises={"Exception": "not (%s and not uf('df_raises', BOOL, %s))" % (DWF, DARGS)}, raise_frame="unchanged",
                 ensures=["result == uf('df_value', U('Val'), %s)" % DARGS],
                 ensures_raise={"Exception": []},
                 note="an entry of unknown type (or malformed) raises: an error of this entry only")
    DES = "uf('df_value', U('Val'), %s)" % DARGS
    DESR = "not (%s and not uf('df_raises', BOOL, %s))" % (DWF, DARGS)
    sub = lambda t, d: t.replace("(data)", "(%s)" % d)
    reg.contract(M, "unmarshal", params=collections.OrderedDict(data=Opt(J), root=STR, ctx=PY, ds=Comp), returns=Opt(Val), verify_only=True,
                 raises={"Exception": "data is not None and ((j_is_list(some(data)) and exists(k, range(0, len(j_items(some(data)))), %s)) or "
                                      "(not j_is_list(some(data)) and %s))" % (sub(DESR, "j_items(some(data))[k]"), sub(DESR, "some(data)"))},
                 raise_frame="unchanged",
                 ensures=["implies(data is None, result is None)",
                          # a list comes back as a list of the same length, element k from element k: order kept
                          "implies(data is not None and j_is_list(some(data)), result == some(val_of_list([%s for d in j_items(some(data))])))" % sub(DES, "d"),
                          "implies(data is not None and not j_is_list(some(data)), result == some(%s))" % sub(DES, "some(data)")],
                 ensures_raise={"Exception": []})

    # ---- provider serializers / deserializers (insights/core/spec_factory.py): the relative location and the identifying fields
    SF = "insights/core/spec_factory.py"
    reg.cls("Prov", pyclasses=["ContentProvider", "CommandOutputProvider", "TextFileProvider", "RawFileProvider", "DatasourceProvider",
                               "ContainerFileProvider", "ContainerCommandProvider"],
            relative_path=STR, save_as=Opt(STR), cmd=PY, args=PY, rc=PY, image=PY, engine=PY, container_id=PY, root=STR, ctx=PY, ds=Comp)
    reg.external("os.path.basename", params=dict(p=STR), returns=STR, pure=True, ensures=["result == uf('path_basename', STR, p)"])
    reg.interface("Prov", "write", params=dict(self=Ref("Prov"), dst=STR), returns=PY, raises={"Exception": None}, raise_frame="unchanged",
                  ensures=["result is uf('write_rc', PY, self, dst)"],
                  note="ContentProvider.write(dst): writes the (cleaned) content to dst; may raise; its return value is recorded as rc")
    JOIN = "uf('path_join', STR, {a}, {b})"

    def REL(prefix):
        base = "obj.relative_path" if prefix is None else JOIN.format(a="'%s'" % prefix, b="obj.relative_path")
        sa = "some(obj.save_as)" if prefix is None else JOIN.format(a="'%s'" % prefix, b="some(obj.save_as)")
        indir = JOIN.format(a=sa, b="uf('path_basename', STR, obj.relative_path)")
        # the save-as rule: no save_as -> the original relative path; save_as ending in '/' -> that directory + the original file name
        return "(%s if not truthy(obj.save_as) else (%s if some(obj.save_as).endswith('/') else %s))" % (base, indir, sa)

    def ser(name, prefix, fields, writes_rc=True):
        rel = REL(prefix)
        ens = ["result['relative_path'] is box(%s)" % rel, "W == %s" % JOIN.format(a="root", b=rel),
               "forall(k, Str, (k in result) == (%s))" % " or ".join("k == '%s'" % f for f in ["relative_path", "save_as"] + fields)]
        for f in fields:
            ens.append("result['%s'] is %s" % (f, "uf('write_rc', PY, obj, W)" if f == "rc" else "obj.%s" % f))
        reg.contract(SF, name, params=collections.OrderedDict(obj=Ref("Prov"), root=STR), returns=Map(STR, PY),
                     raises={"Exception": None}, raise_frame="unchanged", locals=dict(W=STR),
                     ghosts=collections.OrderedDict(W=(STR, "''")),
                     ghost_on=[("rc = obj.write(dst)", "W = dst", "before"), ("obj.write(dst)", "W = dst", "before")],
                     ensures=ens, note="the content is written exactly where the recorded relative path says (W: the path passed to write)")
    ser("serialize_command_output", "insights_commands", ["rc", "cmd", "args"])
    ser("serialize_text_file_provider", None, ["rc"])
    ser("serialize_raw_file_provider", None, ["rc"])
    ser("serialize_datasource_provider", None, [])
    ser("serialize_container_file_output", "insights_containers", ["rc", "image", "engine", "container_id"])
    ser("serialize_container_command", "insights_containers", ["rc", "cmd", "args", "image", "engine", "container_id"])

    reg.specfun("j_as_str", dict(n=J), STR, None)
    reg.coercions[(J.key, STR.key)] = "j_as_str"
    for cls in ("SerializedOutputProvider", "SerializedRawOutputProvider"):
        reg.external(cls, params=collections.OrderedDict(relative_path=STR, root=STR, ctx=PY, ds=Comp), returns=Ref("Prov"),
                     ensures=["result.relative_path == relative_path and result.root == root and result.ctx is ctx and result.ds == ds",
                              "uf('prov_kind', STR, result) == '%s'" % cls],
                     note="the constructor stores its arguments (ContentProvider/FileProvider.__init__ are not under contract here)")

    def deser(name, kind, fields):
        ens = ["result.relative_path == j_as_str(j_sub(data)['relative_path']) and result.root == root and result.ctx is ctx and result.ds == ds",
               "uf('prov_kind', STR, result) == '%s'" % kind]
        for f in fields:
            ens.append("result.%s is j_py(j_sub(data)['%s'])" % (f, f))
        reg.contract(SF, name, params=collections.OrderedDict(_type=PY, data=J, root=STR, ctx=PY, ds=Comp), returns=Ref("Prov"),
                     modifies=["Prov." + f for f in fields],
                     raises={"Exception": "?not (j_is_map(data) and %s)" % " and ".join("'%s' in j_sub(data)" % f for f in ["relative_path"] + fields)},
                     ensures=ens, note="on a missing key the fields already set on the NEW provider stay set (it is dropped with the exception)")
    deser("deserialize_command_output", "SerializedOutputProvider", ["rc", "cmd", "args"])
    deser("deserialize_text_provider", "SerializedOutputProvider", ["rc"])
    deser("deserialize_raw_file_provider", "SerializedRawOutputProvider", ["rc"])
    deser("deserialize_datasource_provider", "SerializedOutputProvider", [])
    deser("deserialize_container_file", "SerializedOutputProvider", ["rc", "image", "engine", "container_id"])
    deser("deserialize_container_command", "SerializedOutputProvider", ["rc", "cmd", "args", "image", "engine", "container_id"])
