"""C05 - the latest implementation for the active context is the one that supplies a spec."""
import collections
from contracts.dr import M as DR, Comp, Val
from contracts.specs import M as SF
from pyvc.dsl import List, Map, Set, Opt, INT, STR
from contracts.specs import WF, HT
IGT = Map(Comp, Set(Comp))

GROUPS = [
    dict(name="handlers", sidecars=["specs"], units=[(SF, "_register_context_handler"), (SF, "_get_ctx_dependencies")], lemmas=[dict(
        # C05-WF (contracts only): the facts _register_context_handler ensures about one handler table (h0 -> h1, ignore table ig0 -> ig1)
        # preserve the representation invariant "all but the newest handler of a context ignore it"
        name="C05-WF",
        # the universally quantified goal WF(h1, ig1) is stated for arbitrary constants n0, c0, i0 < j0 (universal generalisation) and
        # split by case: another spec name / a context the component does not depend on / a context it depends on
        decls=collections.OrderedDict(h0=HT, h1=HT, ig0=IGT, ig1=IGT, name=STR, component=Comp, D=Set(Comp), n0=STR, c0=Comp, i0=INT, j0=INT),
        hyps=[WF("h0", "ig0"),
              "forall(x, Comp, forall(y, Comp, implies(x in ig0 and y in ig0[x], x in ig1 and y in ig1[x])))",
              "forall(n, Str, implies(n != name, (n in h1) == (n in h0) and implies(n in h0, h1[n] == h0[n])))",
              "forall(x, Comp, implies(x not in D, (name in h1 and x in h1[name]) == (name in h0 and x in h0[name]) and "
              "   implies(name in h1 and x in h1[name], h1[name][x] == h0[name][x])))",
              "forall(x, D, name in h1 and x in h1[name] and len(h1[name][x]) == len(row0(h0, name, x)) + 1 and h1[name][x][len(row0(h0, name, x))] == component and "
              "   forall(k, range(0, len(row0(h0, name, x))), h1[name][x][k] == row0(h0, name, x)[k] and row0(h0, name, x)[k] in ig1 and x in ig1[row0(h0, name, x)[k]]))",
              "n0 in h1 and c0 in h1[n0] and 0 <= i0 and i0 < j0 and j0 < len(h1[n0][c0])",
              # ground instances of the quantified facts above at n0, c0, i0, j0 (consequences of them; they make the proof independent of
              # the solver's quantifier-instantiation heuristics, which were seed-sensitive here)
              "implies(n0 in h0 and c0 in h0[n0] and i0 < len(h0[n0][c0]) and j0 < len(h0[n0][c0]), h0[n0][c0][i0] in ig0 and c0 in ig0[h0[n0][c0][i0]])",
              "implies(n0 in h0 and c0 in h0[n0] and h0[n0][c0][i0] in ig0 and c0 in ig0[h0[n0][c0][i0]], h0[n0][c0][i0] in ig1 and c0 in ig1[h0[n0][c0][i0]])",
              "implies(n0 != name, (n0 in h1) == (n0 in h0) and implies(n0 in h0, h1[n0] == h0[n0]))",
              "implies(c0 not in D, (name in h1 and c0 in h1[name]) == (name in h0 and c0 in h0[name]) and "
              "   implies(name in h1 and c0 in h1[name], h1[name][c0] == h0[name][c0]))",
              "implies(c0 in D, name in h1 and c0 in h1[name] and len(h1[name][c0]) == len(row0(h0, name, c0)) + 1 and "
              "   implies(i0 < len(row0(h0, name, c0)), h1[name][c0][i0] == row0(h0, name, c0)[i0] and row0(h0, name, c0)[i0] in ig1 and c0 in ig1[row0(h0, name, c0)[i0]]))"],
        goals=["implies(n0 != name, h1[n0][c0][i0] in ig1 and c0 in ig1[h1[n0][c0][i0]])",
               "implies(n0 == name and c0 not in D, h1[n0][c0][i0] in ig1 and c0 in ig1[h1[n0][c0][i0]])",
               "implies(n0 == name and c0 in D, h1[n0][c0][i0] in ig1 and c0 in ig1[h1[n0][c0][i0]])"])]),
    dict(name="resolution", sidecars=["dr", "specs"], units=[
        (SF, "RegistryPoint.__call__"), (DR, "ComponentType.add_dependency"),
        (DR, "Broker.__contains__"), (DR, "Broker.__getitem__"),
    ], lemmas=[dict(
        # C05-L1 (contracts only).  handlers: the implementations registered for one (spec name, context), oldest first; the
        # representation invariant WF says all but the newest ignore the context; ComponentType.process (C02) does not invoke a
        # component one of whose ignored contexts is in the broker; so with the context active none of the overridden
        # implementations has a value, and the registry point cannot be filled from them.
        name="C05-L1",
        decls=collections.OrderedDict(handlers=List(Comp), ctx=Comp, inst=Map(Comp, Opt(Val)), ignore=Map(Comp, Set(Comp)), seeds=Set(Comp)),
        hyps=["forall(i, range(0, len(handlers)), forall(j, range(0, len(handlers)), implies(i < j, handlers[i] in ignore and ctx in ignore[handlers[i]])))",
              "ctx in inst",
              # process(): an implementation with an ignored context present is skipped, i.e. has no value (and none was seeded)
              "forall(c, Comp, implies(c in ignore and exists(x, ignore[c], x in inst) and c not in seeds, c not in inst))",
              "forall(i, range(0, len(handlers)), handlers[i] not in seeds)"],
        goals=["forall(i, range(0, len(handlers) - 1), handlers[i] not in inst)"])]),
    dict(name="process", sidecars=["dr", "plugins"], units=[(DR, "ComponentType.process")]),
]
NOT_CARRIED = ["metaclass wiring (SpecSetMeta / _resolve_registry_points): that the class body is visited in definition order and that "
               "add_dependency and _register_context_handler are called once per same-named datasource is assumed, not proved",
               "_get_ctx_dependencies (walk_tree over the dependency tree) is an assumed read-only function",
               "implementations for other contexts never contribute: follows from C02 (their context is a missing requirement)"]


def bounded(check):
    """bounded stand-in / native witness search: real spec sets, registrations interleaved with evaluations"""
    import json, os, subprocess
    n = 3 if check.tier == "quick" else 4
    here = os.path.dirname(os.path.dirname(os.path.abspath(__file__)))
    p = subprocess.run(["/venv/bin/python", os.path.join(here, "bounded", "specs_small_scope.py"), check.repo.root, str(n)],
                       stdout=subprocess.PIPE, stderr=subprocess.PIPE, universal_newlines=True, timeout=3000)
    line = (p.stdout.strip().splitlines() or ["{}"])[-1]
    try:
        info = json.loads(line)
    except ValueError:
        info = {"error": (p.stderr or p.stdout)[-400:]}
    out = dict(name="the spec's value is the one of the latest implementation registered for the active context; overridden ones are not executed",
               level="bounded",
               bound="every sequence of <= %d implementations (HostContext / HostArchiveContext / both; value / skip), evaluated after every "
                     "registration for both contexts; every sequence of <= 4 registrations mixing implementations bound to a context with "
                     "implementations bound to another spec whose own contexts grow over time" % n,
               result=info, violation=(p.returncode == 1), error=(p.returncode not in (0, 1)))
    if p.returncode == 1:
        os.makedirs(os.path.join(here, "replays"), exist_ok=True)
        path = os.path.join(here, "replays", "C05-bounded.json")
        json.dump(dict(obligation="bounded:spec-resolution", witness=info,
                       replay_cmd="/venv/bin/python %s %s %d" % (os.path.join(here, "bounded", "specs_small_scope.py"), check.repo.root, n)),
                  open(path, "w"), indent=1)
        out["replay"] = path
    return [out]
