"""BOUNDED stand-in / native witness search for C07 (never counted as proved):
 (1) registration / look-up interleavings: one filterable spec with two implementations, a parser on the spec and a combiner on the parser; every
     sequence of <= K operations out of {add 'a'/'b' on impl1, impl2, spec, parser, combiner; look up impl1, impl2, spec}: every look-up must
     return the union of what was registered so far on that implementation, on the spec, or through the parser / combiner;
 (2) AllowFilter.filter_content on every content of <= L lines over {'', 'a', 'b', 'ab', 'x', '-a', 'a.*'} with budgets in {1, 2, many}: an
     order-preserving sub-sequence, every kept line contains a filter string, the last line matching each filter is kept, no matching line is
     dropped unless a budget is used up; no filter -> nothing.
usage: /venv/bin/python filters_small_scope.py <repo root> <K> <L> ; exit 1 + JSON line with a witness."""
import itertools, json, sys
root, K, L = sys.argv[1], int(sys.argv[2]), int(sys.argv[3])
sys.path.insert(0, root)
import logging
logging.disable(logging.CRITICAL)
from insights.core import filters, dr, Parser
from insights.core.context import HostContext
from insights.core.plugins import datasource, parser, combiner
from insights.core.spec_factory import RegistryPoint, SpecSet, first_of
from insights.cleaner.filters import AllowFilter


def fail(**kw):
    print(json.dumps(kw, default=repr))
    sys.exit(1)


filters.ENABLED = True
uid = itertools.count()


def world():
    Specs = type("FSpecs%d" % next(uid), (SpecSet,), {"thing": RegistryPoint(filterable=True)})

    def mk():
        @datasource(HostContext)
        def thing(broker):
            return []
        return thing
    I1 = type("FImpl%d" % next(uid), (Specs,), {"thing": mk()})
    I2 = type("FImpl%d" % next(uid), (Specs,), {"thing": mk()})
    P = parser(Specs.thing)(type("FParser%d" % next(uid), (Parser,), {"parse_content": lambda self, c: None}))

    @combiner(P)
    def comb(p):
        return p
    comb.__name__ = "fcomb%d" % next(uid)
    # a third implementation two levels deep: first_of([inner1, inner2]); look-ups also happen on the inner datasources
    inner1, inner2 = mk(), mk()
    I3 = type("FImpl%d" % next(uid), (Specs,), {"thing": first_of([inner1, inner2])})
    return {"impl1": I1.thing, "impl2": I2.thing, "spec": Specs.thing, "parser": P, "combiner": comb, "inner1": inner1, "nested": I3.thing}


OPS = [("add", t, s) for t in ("impl1", "impl2", "spec", "parser", "combiner") for s in ("a", "b")] + [("get", t, None) for t in ("impl1", "impl2", "spec", "inner1")]
n1 = 0
for k in range(1, K + 1):
    for seq in itertools.product(OPS, repeat=k):
        if seq[-1][0] != "get":
            continue
        w = world()
        reg = dict((t, set()) for t in w)        # nothing is registered directly on inner1 / nested here: they see what the spec and its dependents got
        for op, t, s in seq:
            if op == "add":
                filters.add_filter(w[t], s)
                reg[t].add(s)
            else:
                got = set(filters.get_filters(w[t]))
                shared = reg["spec"] | reg["parser"] | reg["combiner"]
                # every implementation also sees what was registered on its sibling? no: on itself, on the spec, or through dependents
                want = shared | (reg.get(t, set()) if t != "spec" else set())
                n1 += 1
                if got != want:
                    fail(violation="filter set in force differs from the union registered so far", sequence=[(o, x, y) for o, x, y in seq], looked_up=t,
                         got=sorted(got), want=sorted(want))

# ---------------------------------------------------------------- (2) content filtering
LINES = ["", "a", "b", "ab", "x", "-a", "a.*"]
n2 = 0
for n in range(0, L + 1):
    for content in itertools.product(LINES, repeat=n):
        content = list(content)
        for allow in ({}, {"a": 10000}, {"a": 1}, {"a": 2, "b": 1}, {"b": 10000, "a.*": 1}, {"-a": 1, "x": 10000}):
            before = dict(allow)
            out = AllowFilter.filter_content(list(content), allow)
            n2 += 1
            ctx = dict(content=content, allowlist=before, out=out)
            if allow != before:
                fail(violation="the caller's allow list was modified", **ctx)
            it = iter(enumerate(content))
            pos = []
            for line in out:                      # order-preserving sub-sequence (greedy match from the left is enough for a witness check)
                for i, c in it:
                    if c == line:
                        pos.append(i)
                        break
                else:
                    fail(violation="output is not an order-preserving sub-sequence of the input", **ctx)
            if any(not any(f in line for f in before) for line in out):
                fail(violation="a kept line contains no filter string", **ctx)
            if not before and out:
                fail(violation="lines kept without any filter", **ctx)
            for f in before:
                idx = [i for i, c in enumerate(content) if f in c]
                if idx and content[idx[-1]] not in out:
                    fail(violation="the last line matching a filter was dropped", filter=f, **ctx)
            if all(v >= 10000 for v in before.values()) and before:
                want = [c for c in content if any(f in c for f in before)]
                if out != want:
                    fail(violation="a matching line was dropped although no budget is used up", want=want, **ctx)
# ---------------------------------------------------------------- (3) host-side collection: the grep pre-filter keeps exactly the matching lines
import os, shutil, tempfile
from insights.core.spec_factory import simple_file, simple_command
from insights.cleaner import Cleaner
tmp = tempfile.mkdtemp(prefix="c07b_")
n3 = 0
try:
    path = os.path.join(tmp, "rules.txt")
    FLINES = ["## header", "-w /etc/passwd -k identity", "-a always,exit -S adjtimex -k time-change", "kernel.x = 1", "-D", "a.*b literally", "noise", "tail -k"]
    open(path, "w").write("\n".join(FLINES) + "\n")
    for fset in (["kernel"], ["-k"], ["-k", "kernel"], ["-D", "-k"], ["a.*b"], ["--", "-k"], ["noise", "-D", "kernel"]):
        Specs = type("HSpecs%d" % next(uid), (SpecSet,), {"f": RegistryPoint(filterable=True), "c": RegistryPoint(filterable=True)})
        Impl = type("HImpl%d" % next(uid), (Specs,), {"f": simple_file(path), "c": simple_command("/bin/cat %s" % path)})
        filters.add_filter(Specs.f, fset)
        filters.add_filter(Specs.c, fset)
        want = [l for l in FLINES if any(f in l for f in fset)]
        for name, spec in (("simple_file", Impl.f), ("simple_command", Impl.c)):
            broker = dr.Broker()
            broker[HostContext] = HostContext()
            n3 += 1
            try:
                got = list(spec(broker).content)
            except Exception as ex:
                got = "raised %s: %s" % (type(ex).__name__, ex)
            if got != want:
                fail(violation="host-side collection of a filterable spec does not keep exactly the lines containing a filter string", factory=name,
                     filters=fset, got=got, want=want)
    # ---- (4) cleaning a spec's content must not consume the registered filters (budgets are per content, the registry is shared)
    Specs = type("HSpecs%d" % next(uid), (SpecSet,), {"f": RegistryPoint(filterable=True)})
    Impl = type("HImpl%d" % next(uid), (Specs,), {"f": simple_file(path)})
    filters.add_filter(Specs.f, "-k", 1)
    filters.add_filter(Specs.f, "kernel", 2)
    cl = Cleaner(None, None)
    for round_ in (1, 2, 3):
        allow = filters.get_filters(Impl.f, True)
        before = dict(allow)
        out = cl.clean_content(list(FLINES), allowlist=allow)
        n3 += 1
        if dict(allow) != before or dict(filters.get_filters(Impl.f, True)) != {"-k": 1, "kernel": 2}:
            fail(violation="cleaning a content consumed the registered filters (budgets written back into the registry / cache)", round=round_,
                 before=before, after=dict(allow), registry=dict(filters.get_filters(Impl.f, True)))
        if out != ["kernel.x = 1", "tail -k"]:
            fail(violation="filtered content differs between rounds / from the budgeted sub-sequence", round=round_, out=out)
finally:
    shutil.rmtree(tmp, ignore_errors=True)
print(json.dumps({"ok": True, "lookups": n1, "contents": n2, "host_collections": n3, "K": K, "L": L}))
