"""Sidecar contracts for path / command validation on provider construction and the deny list (C06); string theory."""
import collections
from pyvc.dsl import *

SF = "insights/core/spec_factory.py"
BL = "insights/core/blacklist.py"
P = Ref("Provider")
WITHIN = "({p} == {r} or {r} == '/' or ({r} + '/') == {p}[0:len({r}) + 1])"     # p is r or lies beneath r
DENIED = "exists(f, {S}, {c} == f or {c}.startswith(f + ' '))"


def declare(reg):
    reg.sort(Str=STR)
    reg.exc_files.append("insights/core/exceptions.py")
    reg.glob(BL, _FILE_FILTERS=Set(STR), _COMMAND_FILTERS=Set(STR))
    reg.contract(BL, "allow_file", params=dict(c=STR), returns=BOOL, raises={},
                 ensures=["result == (not %s)" % DENIED.format(S="_FILE_FILTERS", c="c")])
    reg.contract(BL, "allow_command", params=dict(c=STR), returns=BOOL, raises={},
                 ensures=["result == (not %s)" % DENIED.format(S="_COMMAND_FILTERS", c="c")])

    # ------------------------------------------------------------------ providers
    reg.cls("Ctx", __isinstance__={"HostContext": "uf('is_host_context', BOOL, self)"})
    reg.cls("Provider", pyclasses=["FileProvider"], ctx=Ref("Ctx"), ds=U("Comp"), root=STR, relative_path=STR,
            _filterable=BOOL, _filters=Map(STR, INT), cmd=STR, _env=PY)
    reg.cls("CmdProvider", pyclasses=["CommandOutputProvider"], ctx=Ref("Ctx"), ds=U("Comp"), _filterable=BOOL, _filters=Map(STR, INT), cmd=STR, _env=PY)
    reg.cls("Comp", __truthy__=True)
    for n in ("log.warning", "log.debug", "log.info"):
        reg.external(n, drop=True)
    reg.interface("Provider", "path", params=dict(self=P), returns=STR, pure=True, raises={},
                  ensures=["result == uf('path_join', STR, self.root, self.relative_path)"])
    reg.external("os.path.exists", params=dict(p=STR), returns=BOOL)
    reg.external("os.access", params=dict(p=STR, mode=None), returns=BOOL)
    reg.external("os.R_OK", returns=INT, pure=True)
    reg.external("dr.get_name", params=dict(c=None), returns=STR, pure=True)
    REAL = "uf('realpath', STR, {p})"
    reg.external("os.path.realpath", params=dict(p=STR), returns=STR, pure=True, ensures=["result == %s" % REAL.format(p="p")])
    # os.path.realpath: absolute, no trailing slash unless it is the root directory itself (assumed contract of the OS function)
    reg.axiom("forall(p, Str, uf('realpath', STR, p)[0:1] == '/' and (uf('realpath', STR, p) == '/' or not uf('realpath', STR, p).endswith('/')))")
    reg.external("os.path.join", params=dict(a=STR, b=STR), returns=STR, pure=True,
                 ensures=["result == ((a if a.endswith('/') else a + '/') + b if not b.startswith('/') else b)"],
                 note="os.path.join(a, b) for a relative b: a, a separator unless a already ends with one, then b")
    reg.external("blacklist.allow_file", params=dict(c=STR), returns=BOOL, pure=True, ensures=["result == (not %s)" % DENIED.format(S="uf('file_deny', Set(STR))", c="c")])
    reg.external("blacklist.allow_command", params=dict(c=STR), returns=BOOL, pure=True, ensures=["result == (not %s)" % DENIED.format(S="uf('cmd_deny', Set(STR))", c="c")])
    HOST = "uf('is_host_context', BOOL, self.ctx)"
    PATH = "uf('path_join', STR, self.root, self.relative_path)"
    reg.contract(SF, "FileProvider.validate", params=dict(self=P),
                 raises={"ContentException": None, "BlacklistedSpec": None, "Exception": None,
                         "NoFilterException": "?%s and self._filterable and not truthy(self._filters)" % HOST},
                 ensures=[
                     # containment: what the kernel would open lies at or beneath the real root (sibling directories sharing a name
                     # prefix with the root are outside)
                     WITHIN.format(p=REAL.format(p=PATH), r=REAL.format(p="self.root")),
                     # during host collection: never a denied file, never a filterable spec without filters
                     "implies(%s, not %s)" % (HOST, DENIED.format(S="uf('file_deny', Set(STR))", c="('/' + self.relative_path)")),
                     "implies(%s and self._filterable, truthy(self._filters))" % HOST,
                 ])
    # ------------------------------------------------------------------ typestate: every file provider a factory hands out went through validate
    # VALID(p): what FileProvider.validate establishes for a provider object (containment in ITS root; during host collection not denied and,
    # if filterable, filtered).  FileProvider.__init__ ends in validate(); the factories construct providers with the ROOT OF THE CONTEXT they
    # resolved and pass that context on, so VALID speaks about the execution context's root and the deny list is consulted.
    def VALID(p):
        path = "uf('path_join', STR, %s.root, %s.relative_path)" % (p, p)
        host = "uf('is_host_context', BOOL, %s.ctx)" % p
        return ["(%s)" % WITHIN.format(p=REAL.format(p=path), r=REAL.format(p="%s.root" % p)),
                "implies(%s, not %s)" % (host, DENIED.format(S="uf('file_deny', Set(STR))", c="('/' + %s.relative_path)" % p)),
                "implies(%s and %s._filterable, truthy(%s._filters))" % (host, p, p)]
    reg.classes["Provider"].update(save_as=Opt(STR), cleaner=PY, file_name=STR, loaded=BOOL, _content=PY, _exception=PY)
    reg.cls("Comp", filterable=BOOL)
    reg.external("filters.get_filters", params=collections.OrderedDict(component=U("Comp"), with_matches=BOOL), returns=Map(STR, INT), pure=True)
    reg.external("dr.get_registry_points", params=dict(component=U("Comp")), returns=Set(U("Comp")), pure=True)
    reg.external("filters.ENABLED", returns=BOOL, pure=True)
    reg.contract(SF, "FileProvider.__init__",
                 params=collections.OrderedDict(self=P, relative_path=STR, root=STR, save_as=Opt(STR), ds=Opt(U("Comp")), ctx=Ref("Ctx"), cleaner=PY),
                 defaults=dict(root="'/'", save_as="None", ds="None", ctx="None", cleaner="None"),
                 from_stmt="super(FileProvider, self).__init__()", from_after=True,
                 modifies=["Provider.ds", "Provider.ctx", "Provider.root", "Provider.cleaner", "Provider.relative_path", "Provider.save_as",
                           "Provider.file_name", "Provider._filterable", "Provider._filters"],
                 raises={"ContentException": None, "BlacklistedSpec": None, "Exception": None, "NoFilterException": None},
                 ensures=["self.root == root and self.ctx == ctx"] + VALID("self"),
                 note="the constructor from after the base-class constructor call (ContentProvider.__init__ sets bookkeeping fields only)")
    # the file factories: simple_file, first_file, glob_file.  `kind` is the provider class stored by the factory's constructor; calling it
    # is FileProvider.__init__ (RawFileProvider / TextFileProvider inherit it unchanged): the contract above, as seen from a caller
    FK = U("FileKind")
    FB = Ref("FBroker")
    F = Ref("Factory")
    reg.sort(FileKind=FK)
    reg.classes["Ctx"].update(root=STR)
    reg.interface("Ctx", "locate_path", params=dict(self=Ref("Ctx"), path=STR), returns=STR, pure=True, raises={},
                  ensures=["result == uf('locate_path', STR, self, path)"], note="ExecutionContext.locate_path: a pure function of the context and the path")
    reg.cls("FBroker")
    reg.interface("FBroker", "get", params=collections.OrderedDict(self=FB, key=PY), returns=PY, pure=True, raises={})
    reg.cls("Factory", pyclasses=["simple_file", "first_file", "glob_file"], path=STR, paths=List(STR), patterns=List(STR), save_as=Opt(STR),
            context=PY, kind=FK, max_files=INT, ignore=PY, __truthy__=True)
    CTX0 = "uf('resolved_ctx', Ref('Ctx'), self.context, broker)"
    reg.external("_get_context", params=collections.OrderedDict(context=PY, broker=FB), returns=Ref("Ctx"), pure=True, raises={},
                 ensures=["result == uf('resolved_ctx', Ref('Ctx'), context, broker)"],
                 note="_get_context: the execution context the broker holds for the factory's declared context(s); read-only")
    reg.callables = getattr(reg, "callables", {})
    reg.callables[("Factory", "kind")] = reg.external(
        "<file provider class>", params=collections.OrderedDict(k=FK, relative_path=STR, root=STR, save_as=Opt(STR), ds=F, ctx=Ref("Ctx"), cleaner=PY),
        defaults=dict(root="'/'", save_as="None", ds="None", ctx="None", cleaner="None"), returns=P,
        raises={"ContentException": None, "BlacklistedSpec": None, "Exception": None, "NoFilterException": None}, raise_frame="unchanged",
        ensures=["result.root == root and result.ctx == ctx"] + VALID("result"),
        note="calling the provider class a factory stores in `kind` runs FileProvider.__init__ (verified above) on a new object")
    # a provider handed out by a factory: validated against the root of the context the factory resolved, with that context passed on
    def HANDED(p):
        return ["%s.root == %s.root and %s.ctx == %s" % (p, CTX0, p, CTX0)] + VALID(p)
    FRAISES = {"ContentException": None, "BlacklistedSpec": None, "Exception": None, "NoFilterException": None, "AttributeError": None}
    reg.contract(SF, "simple_file.__call__", params=collections.OrderedDict(self=F, broker=FB), returns=P, raises=FRAISES,
                 ensures=HANDED("result"))
    reg.contract(SF, "first_file.__call__", params=collections.OrderedDict(self=F, broker=FB), returns=P, raises=FRAISES,
                 loops={0: ["it_0 == self.paths", "root == %s.root and ctx == %s" % (CTX0, CTX0)]}, locals=dict(root=STR, ctx=Ref("Ctx"), cleaner=PY),
                 ensures=HANDED("result"))
    reg.external("glob", params=dict(p=STR), returns=List(STR), pure=True, note="glob.glob: some list of paths")
    reg.callables[("Factory", "ignore_func")] = reg.external("<ignore predicate>", params=collections.OrderedDict(f=PY, path=STR), returns=BOOL, pure=True, raises={})
    reg.classes["Factory"].update(ignore_func=PY)
    GINV = ["root == %s.root and ctx == %s" % (CTX0, CTX0),
            "forall(j, range(0, len(results)), %s)" % " and ".join(HANDED("results[j]"))]
    reg.contract(SF, "glob_file.__call__", params=collections.OrderedDict(self=F, broker=FB), returns=List(P), raises=FRAISES,
                 locals=dict(root=STR, ctx=Ref("Ctx"), cleaner=PY, results=List(P), pattern=STR),
                 loops={0: ["it_0 == self.patterns"] + GINV, 1: GINV},
                 ensures=["forall(j, range(0, len(result)), %s)" % " and ".join(HANDED("result[j]"))])
    reg.external("shlex.split", params=dict(s=STR), returns=List(STR), pure=True, ensures=["len(result) >= 1"],
                 note="shlex.split of a non-empty command line has at least one word (an empty command raises IndexError in the real code)")
    reg.external("which", params=dict(cmd=STR, env=PY), returns=PY)
    reg.contract(SF, "CommandOutputProvider.validate", params=dict(self=Ref("CmdProvider")),
                 raises={"ContentException": None, "BlacklistedSpec": None,
                         "NoFilterException": "?%s and self._filterable and not truthy(self._filters)" % HOST},
                 ensures=["implies(%s, not %s)" % (HOST, DENIED.format(S="uf('cmd_deny', Set(STR))", c="self.cmd")),
                          "implies(%s and self._filterable, truthy(self._filters))" % HOST])
    # ------------------------------------------------------------------ commands: CommandOutputProvider.__init__ ends in validate(); simple_command hands out
    # a provider for ITS command, bound to the context the broker holds
    CP = Ref("CmdProvider")
    def VALIDC(p):
        host = "uf('is_host_context', BOOL, %s.ctx)" % p
        return ["implies(%s, not %s)" % (host, DENIED.format(S="uf('cmd_deny', Set(STR))", c="%s.cmd" % p)),
                "implies(%s and %s._filterable, truthy(%s._filters))" % (host, p, p)]
    reg.classes["CmdProvider"].update(root=STR, save_as=Opt(STR), args=PY, split=BOOL, keep_rc=BOOL, timeout=PY, inherit_env=PY, override_env=PY, signum=PY,
                                      rc=PY, cleaner=PY, _content=PY, relative_path=STR)
    reg.external("six.PY3", returns=BOOL, pure=True)
    reg.external("signal.SIGKILL", returns=PY, pure=True)
    reg.external("mangle_command", params=dict(command=STR), returns=STR, pure=True)
    reg.interface("CmdProvider", "_misc_settings", params=dict(self=CP), raises={}, modifies=["CmdProvider.relative_path"],
                  note="_misc_settings: sets relative_path (and, in the container sub-classes, image / engine bookkeeping) - not the command or the context")
    reg.interface("CmdProvider", "create_env", params=dict(self=CP), returns=PY, pure=True, raises={})
    CMD_ARGS = collections.OrderedDict(cmd=STR, ctx=Ref("Ctx"), root=STR, save_as=Opt(STR), args=PY, split=BOOL, keep_rc=BOOL, ds=Opt(U("Comp")), timeout=PY,
                                       inherit_env=PY, override_env=PY, signum=PY, cleaner=PY)
    CMD_DEF = dict(root="'insights_commands'", save_as="None", args="None", split="True", keep_rc="False", ds="None", timeout="None", inherit_env="None",
                   override_env="None", signum="None", cleaner="None")
    CRAISES = {"ContentException": None, "BlacklistedSpec": None, "NoFilterException": None}
    reg.contract(SF, "CommandOutputProvider.__init__", params=collections.OrderedDict([("self", CP)] + list(CMD_ARGS.items())), defaults=CMD_DEF,
                 from_stmt="super(CommandOutputProvider, self).__init__()", from_after=True,
                 modifies=["CmdProvider." + f for f in ("cmd", "root", "save_as", "ctx", "args", "split", "keep_rc", "ds", "timeout", "inherit_env", "override_env",
                                                        "signum", "rc", "cleaner", "_content", "_env", "_filterable", "_filters", "relative_path")],
                 raises=CRAISES,
                 # the deny list is consulted for the command text the constructor was GIVEN (what the spec declares), not for a rewritten one
                 ensures=["self.ctx == ctx"] + VALIDC("self") +
                         ["implies(uf('is_host_context', BOOL, ctx), not %s)" % DENIED.format(S="uf('cmd_deny', Set(STR))", c="old(cmd)")])
    reg.cls("CFactory", pyclasses=["simple_command"], cmd=STR, context=PY, save_as=Opt(STR), split=BOOL, keep_rc=BOOL, timeout=PY, inherit_env=PY, override_env=PY,
            signum=PY, __truthy__=True)
    CB = Ref("CBroker")
    reg.cls("CBroker")
    reg.interface("CBroker", "get", params=collections.OrderedDict(self=CB, key=PY), returns=PY, pure=True, raises={})
    reg.interface("CBroker", "__getitem__", params=collections.OrderedDict(self=CB, key=PY), returns=Ref("Ctx"), pure=True, raises={"KeyError": None},
                  ensures=["result == uf('held_ctx', Ref('Ctx'), self, key)"], note="broker[context]: the execution context the broker holds")
    reg.external("CommandOutputProvider", params=collections.OrderedDict(list(CMD_ARGS.items())[:-6] + [("ds", Ref("CFactory"))] + list(CMD_ARGS.items())[-5:]),
                 defaults=CMD_DEF, returns=CP, raises=CRAISES, raise_frame="unchanged",
                 ensures=["result.ctx == ctx"] + VALIDC("result") +
                         ["implies(uf('is_host_context', BOOL, ctx), not %s)" % DENIED.format(S="uf('cmd_deny', Set(STR))", c="cmd")],
                 note="constructing a CommandOutputProvider runs CommandOutputProvider.__init__ (verified above) on a new object")
    reg.contract(SF, "simple_command.__call__", params=collections.OrderedDict(self=Ref("CFactory"), broker=CB), returns=CP,
                 raises=dict(CRAISES, KeyError=None),
                 ensures=["result.ctx == uf('held_ctx', Ref('Ctx'), broker, self.context)"] + VALIDC("result") +
                         # the command the factory declares is never handed out for execution on a host when it is denied
                         ["implies(uf('is_host_context', BOOL, result.ctx), not %s)" % DENIED.format(S="uf('cmd_deny', Set(STR))", c="self.cmd")])
    # other os.path functions a change might reach for: arbitrary (unrelated to realpath unless stated)
    for n in ("os.path.islink", "os.path.isfile", "os.path.isdir", "os.path.isabs"):
        reg.external(n, params=dict(p=STR), returns=BOOL, pure=True, ensures=["result == uf('%s', BOOL, p)" % n.replace(".", "_")])
    for n in ("os.path.normpath", "os.path.abspath", "os.path.basename", "os.path.dirname", "os.path.expanduser"):
        reg.external(n, params=dict(p=STR), returns=STR, pure=True, ensures=["result == uf('%s', STR, p)" % n.replace(".", "_")])
