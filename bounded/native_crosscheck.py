"""Native cross-check of the CONTRACTS against CPython (bounded; never counted as proved).  The textual contracts the verifier discharged
(dumped by tools/dump_contracts.py) are evaluated by Python itself on the real functions of the repository, run on generated small inputs:
every `ensures` clause must hold on the observed result / final state, an exception must be one the contract declares, an `iff` raise condition
must agree with what happened.  A clause that fails here although the verifier proved it means the encoder (or an assumption) disagrees with
CPython on the unchanged tree - and is a concrete failing input of that obligation on a changed tree.  Clauses that mention uninterpreted
functions, ghost results or names the harness does not bind are skipped and counted.
usage: /venv/bin/python native_crosscheck.py <repo root> <contracts.json> <area> ; exit 1 + JSON line with a witness, exit 0 + JSON summary."""
import ast, copy, itertools, json, random, sys, os
root, cjson, area = sys.argv[1], sys.argv[2], sys.argv[3]
sys.path.insert(0, root)
import logging
logging.disable(logging.CRITICAL)
CONTRACTS = json.load(open(cjson))
SEED = int(os.environ.get("VERIF_SEED", "0"))
rnd = random.Random(SEED)
stats = {"calls": 0, "clauses_evaluated": 0, "clauses_skipped": 0, "functions": set(), "skipped_examples": set()}


class NotEvaluable(Exception):
    pass


def fail(**kw):
    print(json.dumps(kw, default=repr))
    sys.exit(1)


def _same(a, b):
    return a is b or (type(a) is type(b) and isinstance(a, (int, str, float, bool, bytes, type(None), tuple, frozenset)) and a == b)


NATIVE_UF = {}          # name -> the real function an uninterpreted symbol of the contracts stands for (set by an area, where there is one)


def _uf(name, sort, *a):
    if name in NATIVE_UF:
        return NATIVE_UF[name](*a)
    raise NotEvaluable("uninterpreted function")


HELPERS = dict(
    truthy=bool, isempty=lambda s: len(s) == 0, keys=lambda m: set(m), seq_eq=lambda a, b: list(a) == list(b),
    distinct=lambda l: len(set(l)) == len(list(l)), subset=lambda a, b: set(a) <= set(b), elems=lambda l: set(l), some=lambda x: x,
    nodes=lambda g: set(g) | set(x for v in g.values() for x in v), union=lambda a, b: set(a) | set(b), diff=lambda a, b: set(a) - set(b),
    disjoint=lambda a, b: not (set(a) & set(b)), INT=None, STR=None, BOOL=None, PY=None, __eq=lambda a, b: a == b, store=lambda m, k, v: dict(m, **{}) if False else _store(m, k, v), uf=_uf, __same=_same)


def _store(m, k, v):
    d = dict(m)
    d[k] = v
    return d


def _specfun(name, params, body):
    """a specification function with a body, evaluated like a clause over its parameters"""
    def f(*args):
        env = dict(zip(params, args))
        return eval(_cache.setdefault("specfun:" + name, compile_clause(body)), dict(HELPERS, **env))
    return f


class Tr(ast.NodeTransformer):
    """contract expression -> plain Python over the helpers; quantifiers become all()/any() over finite domains, old(e) a look-up in the
    snapshot taken before the call"""
    def __init__(self):
        self.bound = []

    def visit_Call(self, n):
        f = n.func.id if isinstance(n.func, ast.Name) else None
        if f in ("forall", "exists"):
            var, dom, body = n.args
            self.bound.append(var.id)
            body = self.visit(body)
            self.bound.pop()
            dom = ast.Call(ast.Name("__dom", ast.Load()), [ast.Constant(dom.id) if isinstance(dom, ast.Name) and dom.id[:1].isupper() else self.visit(dom)], [])
            gen = ast.GeneratorExp(body, [ast.comprehension(ast.Name(var.id, ast.Store()), dom, [], 0)])
            return ast.Call(ast.Name("all" if f == "forall" else "any", ast.Load()), [gen], [])
        if f == "implies":
            a, b = [self.visit(x) for x in n.args]
            return ast.BoolOp(ast.Or(), [ast.UnaryOp(ast.Not(), a), b])
        if f == "old":
            src = ast.unparse(n.args[0])
            bound = ast.Dict([ast.Constant(b) for b in self.bound], [ast.Name(b, ast.Load()) for b in self.bound])
            return ast.Call(ast.Name("__old", ast.Load()), [ast.Constant(src), bound], [])
        return self.generic_visit(n)

    def visit_Compare(self, n):
        n = self.generic_visit(n)
        if len(n.ops) == 1 and isinstance(n.ops[0], (ast.Eq, ast.NotEq)):
            call = ast.Call(ast.Name("__eq", ast.Load()), [n.left, n.comparators[0]], [])
            return call if isinstance(n.ops[0], ast.Eq) else ast.UnaryOp(ast.Not(), call)
        if len(n.ops) == 1 and isinstance(n.ops[0], (ast.Is, ast.IsNot)) and not (isinstance(n.comparators[0], ast.Constant) and n.comparators[0].value is None):
            call = ast.Call(ast.Name("__same", ast.Load()), [n.left, n.comparators[0]], [])
            return call if isinstance(n.ops[0], ast.Is) else ast.UnaryOp(ast.Not(), call)
        return n


def compile_clause(text):
    tree = ast.parse(text.strip(), mode="eval")
    tree = ast.fix_missing_locations(Tr().visit(tree))
    return compile(tree, "<clause>", "eval")


_cache = {}
for _n, _d in CONTRACTS.pop("__specfuns__", {}).items():
    HELPERS.setdefault(_n, _specfun(_n, _d["params"], _d["body"]))


def evaluate(text, env, pre_env, memo, universe):
    def dom(d):
        if isinstance(d, str):
            if d not in universe:
                raise NotEvaluable("no finite universe for sort %s" % d)
            return list(universe[d])
        return list(d)

    def old(src, bound):
        e = dict(pre_env)
        for k, v in bound.items():
            e[k] = memo.get(id(v), v)
        e.update(__dom=dom, __old=lambda s, b: (_ for _ in ()).throw(NotEvaluable("nested old")))
        return eval(_cache.setdefault(src, compile_clause(src)), dict(HELPERS, **e))
    code = _cache.setdefault(text, compile_clause(text))
    g = dict(HELPERS, **env)

    def same(a, b):
        """`is` across the snapshot: the same object (its copy in the snapshot counts as itself), or equal immutable scalars"""
        if a is b or memo.get(id(a), a) is b or memo.get(id(b), b) is a:
            return True
        return type(a) is type(b) and isinstance(a, (int, str, float, bool, bytes, type(None), tuple, frozenset)) and a == b
    def deep_eq(x, y):
        """== across the snapshot: objects that compare by identity (exceptions, components) are equal to their snapshot copies"""
        if same(x, y):
            return True
        if isinstance(x, dict) and isinstance(y, dict):
            return len(x) == len(y) and all(any(deep_eq(k, k2) and deep_eq(v, y[k2]) for k2 in y) for k, v in x.items())
        if isinstance(x, (list, tuple)) and isinstance(y, (list, tuple)):
            return len(x) == len(y) and all(deep_eq(u, v) for u, v in zip(x, y))
        if isinstance(x, (set, frozenset)) and isinstance(y, (set, frozenset)):
            return len(x) == len(y) and all(any(deep_eq(u, v) for v in y) for u in x)
        try:
            return bool(x == y)
        except Exception as ex:
            raise NotEvaluable("== raised %s" % type(ex).__name__)

    def seq_eq(x, y):
        return deep_eq(list(x), list(y))
    g.update(__dom=dom, __old=old, __same=same, seq_eq=seq_eq, __eq=deep_eq)
    try:
        return bool(eval(code, g))
    except NotEvaluable:
        raise
    except (NameError, AttributeError, KeyError, TypeError, IndexError) as ex:
        raise NotEvaluable("%s: %s" % (type(ex).__name__, ex))


def check_call(key, fn, env, universe=None, extra_globals=None, describe=None):
    """run fn() with the contract `key` around it.  env: name -> value for the contract's parameters (mutable objects are the real ones)."""
    c = CONTRACTS[key]
    universe = universe or {}
    env = dict(extra_globals or {}, **env)
    memo = {}
    try:
        pre_env = copy.deepcopy(env, memo)
    except Exception:
        pre_env, memo = dict(env), {}
    for r in c["requires"]:
        try:
            if not evaluate(r, env, pre_env, memo, universe):
                return False          # input outside the precondition: not a test
        except NotEvaluable:
            pass
    stats["calls"] += 1
    stats["functions"].add(key)
    exc = None
    try:
        result = fn()
    except Exception as ex:      # noqa
        exc, result = ex, None
    what = describe() if describe else repr({k: v for k, v in pre_env.items() if k in c["params"]})[:400]
    if exc is not None:
        names = [k.__name__ for k in type(exc).__mro__]
        declared = [e for e in c["raises"] if e in names]
        if not declared:
            fail(violation="native cross-check: the real function raised an exception its contract does not declare", function=key, input=what, exc=repr(exc))
        clauses = [t for e in declared for t in c["ensures_raise"].get(e, [])]
        env2 = dict(env, exc=exc)
    else:
        for e, cond in c["raises"].items():
            if cond and not cond.startswith("?"):
                try:
                    if evaluate(cond, pre_env, pre_env, {}, universe):
                        fail(violation="native cross-check: the contract says %s is raised for this input, the real function returned" % e, function=key,
                             input=what, condition=cond, result=repr(result)[:200])
                    stats["clauses_evaluated"] += 1
                except NotEvaluable:
                    stats["clauses_skipped"] += 1
        clauses = c["ensures"]
        env2 = dict(env, result=result)
    for t in clauses:
        try:
            ok = evaluate(t, env2, pre_env, memo, universe)
        except NotEvaluable as ne:
            stats["clauses_skipped"] += 1
            stats["skipped_examples"].add("%s: %s" % (key.split("::")[1], str(ne)[:60]))
            continue
        stats["clauses_evaluated"] += 1
        if not ok:
            fail(violation="native cross-check: a contract clause the verifier discharges is false on the real function under CPython", function=key,
                 clause=t, input=what, result=repr(result)[:300], exc=repr(exc))
    return True


# ------------------------------------------------------------------------------------------------------------------------ areas
def area_dr():
    from insights.core import dr
    from insights.contrib import toposort as ts
    M, TS = "insights/core/dr.py", "insights/contrib/toposort.py"
    names = ["n%d" % i for i in range(5)]
    for _ in range(400):
        k = rnd.randint(1, 5)
        g = {}
        for i in range(k):
            if rnd.random() < 0.85:
                g[names[i]] = set(names[j] for j in range(i) if rnd.random() < 0.4) | (set([names[i]]) if rnd.random() < 0.15 else set())
        if rnd.random() < 0.15 and k >= 2:
            g.setdefault(names[0], set()).add(names[k - 1])          # may close a cycle: ValueError is declared
            g.setdefault(names[k - 1], set()).add(names[0])
        gg = dict((a, set(b)) for a, b in g.items())
        check_call(M + "::run_order", lambda: dr.run_order(gg), dict(graph=gg))
        gd = dict((a, set(b)) for a, b in g.items())
        check_call(TS + "::toposort_flatten", lambda: ts.toposort_flatten(gd, sort=False), dict(data=gd, sort=False))
    # Broker
    comps = ["c%d" % i for i in range(3)]
    uni = {"Ref_Broker": [], "Comp": comps}
    for _ in range(300):
        b = dr.Broker()
        for c in comps:
            if rnd.random() < 0.5:
                b.instances[c] = rnd.choice([None, 0, 1, "v"])
        uni["Ref_Broker"] = [b]
        c, v = rnd.choice(comps), rnd.choice([None, 0, 2, "w"])
        check_call(M + "::Broker.__contains__", lambda: c in b, dict(self=b, component=c), uni)
        check_call(M + "::Broker.__getitem__", lambda: b[c], dict(self=b, component=c), uni)
        check_call(M + "::Broker.get", lambda: b.get(c, v), dict(self=b, component=c, default=v), uni)
        check_call(M + "::Broker.__setitem__", lambda: b.__setitem__(c, v), dict(self=b, component=c, instance=v), uni)
    # ComponentType.get_missing_dependencies on real delegates
    from insights.core.plugins import component
    base = []
    for i in range(4):
        def body(*a):
            return 1
        body.__name__ = body.__qualname__ = "xc_base%d" % i
        body.__module__ = "verif_xc"
        base.append(component()(body))
    for trial in range(200):
        req = [x for x in base if rnd.random() < 0.4]
        groups = [[x for x in base if rnd.random() < 0.5] for _ in range(rnd.randint(0, 2))]
        groups = [g for g in groups if g]

        def body(*a):
            return 1
        body.__name__ = body.__qualname__ = "xc_top%d" % trial
        body.__module__ = "verif_xc"
        top = component(*(req + groups))(body)
        d = dr.get_delegate(top)
        b = dr.Broker()
        for x in base:
            if rnd.random() < 0.5:
                b.instances[x] = rnd.choice([None, 1])
        check_call(M + "::ComponentType.get_missing_dependencies", lambda: d.get_missing_dependencies(b), dict(self=d, broker=b))


def area_config():
    from insights.client import config as cfgmod
    from insights.client.config import InsightsConfig, DEFAULT_OPTS
    M = "insights/client/config.py"
    G = dict(DEFAULT_OPTS=DEFAULT_OPTS)
    BOOLS = ["offline", "no_upload", "register", "auto_update", "keep_archive", "obfuscate", "obfuscate_hostname", "status", "test_connection", "checkin",
             "unregister", "check_results", "to_json", "diagnosis", "legacy_upload", "gpg", "no_gpg", "core_collect", "payload", "module", "app", "quiet"]
    allk = sorted(DEFAULT_OPTS) + ["no_such_option", "_init_attrs"]
    for _ in range(300):
        cfg = InsightsConfig(_print_errors=False)
        d = {}
        for k in rnd.sample(BOOLS, rnd.randint(0, 5)):
            if k in DEFAULT_OPTS:
                d[k] = rnd.choice([True, False])
        if rnd.random() < 0.3:
            d["output_dir"] = rnd.choice(["", "/var/tmp/xc_out"])
        if rnd.random() < 0.3:
            d["output_file"] = rnd.choice(["", "/var/tmp/xc_out.tar.gz"])
        if rnd.random() < 0.2:
            d["no_such_option"] = 1
        if rnd.random() < 0.3:
            d["retries"] = rnd.choice([0, 1, 3])
        uni = {"Str": allk, "Ref_Cfg": [cfg]}
        dd = dict(d)
        check_call(M + "::InsightsConfig._update_dict", lambda: cfg._update_dict(dd), dict(self=cfg, dict_=dd), uni, G)
        check_call(M + "::InsightsConfig._imply_options", lambda: cfg._imply_options(), dict(self=cfg), uni, G)
        check_call(M + "::InsightsConfig._validate_options", lambda: cfg._validate_options(), dict(self=cfg), uni, G)
    for v in ["true", "True", "TRUE", "false", "False", "yes", "", "0", "x"]:
        key = M + "::_load_env.<locals>._boolify"
        if key in CONTRACTS:
            pass          # a nested function: not reachable from outside without running the loader


def area_blacklist():
    from insights.core import blacklist
    BL = "insights/core/blacklist.py"
    alpha = "ab /"
    for _ in range(600):
        blacklist._FILE_FILTERS.clear()
        blacklist._COMMAND_FILTERS.clear()
        for _k in range(rnd.randint(0, 2)):
            blacklist._FILE_FILTERS.add("".join(rnd.choice(alpha) for _ in range(rnd.randint(1, 3))))
            blacklist._COMMAND_FILTERS.add("".join(rnd.choice(alpha) for _ in range(rnd.randint(1, 3))))
        c = "".join(rnd.choice(alpha) for _ in range(rnd.randint(0, 4)))
        G = dict(_FILE_FILTERS=blacklist._FILE_FILTERS, _COMMAND_FILTERS=blacklist._COMMAND_FILTERS)
        check_call(BL + "::allow_file", lambda: blacklist.allow_file(c), dict(c=c), {"Str": []}, G)
        check_call(BL + "::allow_command", lambda: blacklist.allow_command(c), dict(c=c), {"Str": []}, G)
    blacklist._FILE_FILTERS.clear()
    blacklist._COMMAND_FILTERS.clear()


def area_parsr():
    from insights import parsr
    M = "insights/parsr/__init__.py"
    Parser = parsr.Parser
    G = dict(Parser=Parser)
    vals = [Parser._NO_FIRST, 0, "", None, "a", [], 1]
    for first in vals:
        for rest in ([], [0], ["b", ""], [None, 1, 2]):
            r = list(rest)
            check_call(M + "::Parser._accumulate", lambda: Parser._accumulate(first, r), dict(first=first, rest=r), {}, G)


def area_obfuscators():
    from insights.cleaner.ip import IPv4, IPv6
    from insights.cleaner.mac import Mac
    from insights.cleaner.hostname import Hostname
    from insights.cleaner.keyword import Keyword
    IP, MAC, HN, KW = "insights/cleaner/ip.py", "insights/cleaner/mac.py", "insights/cleaner/hostname.py", "insights/cleaner/keyword.py"
    macs = ["52:54:00:aa:bb:0%d" % i for i in range(4)] + ["52:54:00:AA:bb:01"]
    v6 = ["2001:db8::%x" % i for i in range(1, 5)] + ["2001:DB8::1"]
    v4 = ["10.0.0.%d" % i for i in range(1, 6)]
    hosts = ["h%d.corp.test" % i for i in range(4)] + ["node1.corp.test"]
    _v4 = IPv4()
    NATIVE_UF.update(ip2int=_v4._ip2int, int2ip=_v4._int2ip)          # the contracts' ip2int / int2ip ARE these two methods (interface contracts)
    for trial in range(40):
        m, s6, s4 = Mac(), IPv6(), IPv4()
        check_call(IP + "::IPv4.__init__", lambda: IPv4.__init__(s4), dict(self=s4), {"Ref_V4": [s4]})
        fq = rnd.choice(["node1.corp.test", "single", "a.b"])
        h = Hostname.__new__(Hostname)
        check_call(HN + "::Hostname.__init__", lambda: Hostname.__init__(h, fq), dict(self=h, fqdn=fq), {"Ref_H": [h], "Str": hosts})
        for _ in range(12):
            x = rnd.choice(macs)
            check_call(MAC + "::Mac._mac2db", lambda: m._mac2db(x), dict(self=m, mac=x), {"Ref_Mac": [m]})
            y = rnd.choice(v6)
            check_call(IP + "::IPv6._ip2db", lambda: s6._ip2db(y), dict(self=s6, ip=y), {"Ref_V6": [s6], "Ref_IPv6": [s6]})
            z = rnd.choice(v4)
            check_call(IP + "::IPv4._ip2db", lambda: s4._ip2db(z), dict(self=s4, ip=z), {"Ref_V4": [s4]})
            w = rnd.choice(hosts)
            check_call(HN + "::Hostname._hn2db", lambda: h._hn2db(w), dict(self=h, hn=w), {"Ref_H": [h], "Str": hosts})
        check_call(MAC + "::Mac.mapping", lambda: m.mapping(), dict(self=m))
        check_call(IP + "::IPv6.mapping", lambda: s6.mapping(), dict(self=s6))
        check_call(IP + "::IPv4.mapping", lambda: s4.mapping(), dict(self=s4))
        check_call(HN + "::Hostname.mapping", lambda: h.mapping(), dict(self=h))


def area_responses():
    from insights.core import plugins
    from insights.formats import get_response_of_types
    P, F = "insights/core/plugins.py", "insights/formats/__init__.py"
    KEYS = ["skips", "none", "reports", "info", "pass", "fingerprints", "system", "other"]
    RULES = ["rule", "info", "pass", "none", "fingerprint", "metadata"]
    for _ in range(600):
        resp = dict((k, [k]) for k in KEYS if rnd.random() < 0.6)
        if "system" in resp:
            resp["system"] = {"metadata": {}} if rnd.random() < 0.5 else {}
        missing = rnd.random() < 0.5
        show = rnd.choice([None, [], rnd.sample(RULES, rnd.randint(1, 4))])
        check_call(F + "::get_response_of_types", lambda: get_response_of_types(resp, missing, show), dict(response=resp, missing=missing, show_rules=show),
                   {"Str": KEYS})
    classes = [plugins.make_fail, plugins.make_pass, plugins.make_info, plugins.make_none, plugins.make_fingerprint, plugins.make_metadata]
    for cls in classes:
        try:
            obj = cls("KEY") if cls not in (plugins.make_none, plugins.make_metadata) else cls()
        except Exception:
            continue
        for key in [None, "", "K", 0, 5, ["k"], "a b"]:
            check_call(P + "::Response.validate_key", lambda: obj.validate_key(key), dict(self=obj, key=key))
        for kw in [{}, {"a": 1}, {"type": "x"}, {"error_key": "E"}, {"pass_key": "P"}, {"info_key": "I"}, {"fingerprint_key": "F"}, {"type": 1, "a": 2}]:
            check_call(P + "::Response.validate_kwargs", lambda: obj.validate_kwargs(kw), dict(self=obj, kwargs=kw))
        check_call(P + "::Response.get_key", lambda: obj.get_key(), dict(self=obj))


def area_rpm():
    sys.path.insert(0, os.path.join(os.path.dirname(os.path.abspath(__file__)), "..", "specs"))
    from rpmvercmp_spec import S
    from insights.parsers.installed_rpms import InstalledRpm, InstalledRpms
    from insights.parsers.rpm_vercmp import rpm_version_compare
    from insights.tests import context_wrap
    V, I = "insights/parsers/rpm_vercmp.py", "insights/parsers/installed_rpms.py"

    def parsable(x):
        try:
            int(x)
            return True
        except (TypeError, ValueError):
            return False
    # the contracts' symbols: S is RPM's segment comparison (the transliterated rpmvercmp.c), int_of / int_parsable are int()
    NATIVE_UF.update(S=S, int_of=int, int_parsable=parsable, is_rpm=lambda o: isinstance(o, InstalledRpm))
    epochs, vers, rels = ["0", "1", "10", "(none)", "x"], ["1.0", "1.10", "1.0~rc1", "1.0^git1", "01.0", "a"], ["1", "2.el7", "1.el7_9"]
    pkgs = [InstalledRpm({"name": n, "epoch": e, "version": v, "release": r, "arch": "x86_64"})
            for n in ("foo", "bar") for e in epochs for v in vers for r in rels]
    for _ in range(700):
        a, b = rnd.choice(pkgs), rnd.choice(pkgs)
        if rnd.random() < 0.1:
            b = a
        check_call(V + "::rpm_version_compare", lambda: rpm_version_compare(a, b), dict(left=a, right=b))
        for op in ("__eq__", "__lt__", "__ne__", "__gt__", "__ge__", "__le__"):
            check_call(I + "::InstalledRpm." + op, lambda: getattr(a, op)(b), dict(self=a, other=b))


def area_faults():
    """C03: Broker.add_exception (where an exception is recorded) and Broker.fire_observers (nothing an observer raises escapes)"""
    import functools
    from insights.core import dr
    from insights.core.exceptions import MissingRequirements, SkipComponent
    M = "insights/core/dr.py"
    comps = ["c%d" % i for i in range(3)]

    def boom(c, b):
        raise RuntimeError("observer")

    class Callable(object):
        def __call__(self, c, b):
            raise ValueError("callable object observer")
    from insights.core import plugins
    real = []
    for i in range(2):
        def body(*a):
            return 1
        body.__name__ = body.__qualname__ = "xc_obs%d" % i
        body.__module__ = "verif_xc_faults"
        real.append(plugins.component()(body))
    G = dict(MissingRequirements=MissingRequirements, SkipComponent=SkipComponent,
             isinstance_exc=lambda e, cls: isinstance(e, cls))
    for _ in range(300):
        b = dr.Broker()
        for c in comps:
            if rnd.random() < 0.4:
                b.exceptions[c].append(RuntimeError("old"))
            if rnd.random() < 0.3:
                b.missing_requirements[c] = ([c], [])
        c = rnd.choice(comps)
        ex = rnd.choice([RuntimeError("x"), MissingRequirements(([c], [[c]])), SkipComponent("s"), ValueError("v")])
        tb = rnd.choice([None, "traceback text"])
        uni = {"Ref_Broker": [b], "Comp": comps}
        check_call(M + "::Broker.add_exception", lambda: b.add_exception(c, ex, tb), dict(self=b, component=c, ex=ex, tb=tb), uni, G)
        b2 = dr.Broker()
        for o in rnd.sample([boom, functools.partial(boom), Callable(), (lambda c_, b_: None)], rnd.randint(0, 4)):
            b2.add_observer(o, rnd.choice([dr.ComponentType, plugins.component]))
        rc = rnd.choice(real)          # a real component: observers fire for components of the observed type (or a sub-type)
        check_call(M + "::Broker.fire_observers", lambda: b2.fire_observers(rc), dict(self=b2, component=rc), {"Ref_Broker": [b2], "Comp": real}, G)


AREAS = {"faults": area_faults, "rpm": area_rpm, "responses": area_responses, "obfuscators": area_obfuscators, "dr": area_dr, "config": area_config, "blacklist": area_blacklist, "parsr": area_parsr}
AREAS[area]()
print(json.dumps({"ok": True, "area": area, "calls": stats["calls"], "clauses_evaluated": stats["clauses_evaluated"], "clauses_skipped": stats["clauses_skipped"],
                  "functions": sorted(stats["functions"]), "skipped_because": sorted(stats["skipped_examples"])[:12]}))
