"""python3-vt tools/dbg.py <sidecars> <unit qualname> <obligation suffix> [scope]  - print a counter-model walk of the goal"""
import sys, re
sys.path.insert(0, '/verif')
from pyvc import run as R
from pyvc.source import Repo
from pyvc.core import CTX
import z3
sidecars, unit, suffix = sys.argv[1].split(','), sys.argv[2], sys.argv[3]
scope = int(sys.argv[4]) if len(sys.argv) > 4 else None
reg = R.load_registry(sidecars)
units = [k for k in reg.contracts if k[1] == unit]
eng, results = R.generate(reg, units, [], Repo(), scope=scope)
print("error:", results[0].error)
for o in results[0].obls:
    if not o.name.endswith(suffix):
        continue
    s = z3.Solver()
    s.set("timeout", 20000)
    s.add(*o.hyps); s.add(*(CTX.scope_constraints if scope else [])); s.add(z3.Not(o.goal))
    r = s.check()
    print(o.trace, r)
    if r == z3.sat:
        m = s.model()
        def walk(t, depth=0):
            if depth > 6: return
            v = m.eval(t, model_completion=True)
            print("  " * depth, t.decl().name(), "=>", v, re.sub(r"\s+", " ", str(t))[:220] if depth >= 1 else "")
            if t.decl().name() in ("=>", "and", "or", "not", "=", "if"):
                for c in t.children(): walk(c, depth + 1)
        walk(o.goal)
        break
