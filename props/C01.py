"""C01 - components run at most once, after their dependencies; seeds are never recomputed or overwritten."""
import collections
from contracts.dr import M, TS, Comp, RC_POST, TF_POST_GRAPH, RO_POST
from pyvc.dsl import List, Map, Set, INT, Ref

SIDECARS = ["dr"]
UNITS = [
    (TS, "toposort"),
    (TS, "toposort_flatten"),
    (M, "run_order"),
    (M, "Broker.__contains__"),
    (M, "Broker.__setitem__"),
    (M, "Broker.__getitem__"),
    (M, "Broker.get"),
    (M, "run_components"),
]

# C01-L1: contracts only.  `ordered` is what run_order returned for `graph`; att/attpos is the attempt log that
# run_components' postcondition describes for that order.
_ro = [t.replace("old(graph)", "graph").replace("result", "ordered") for t in TF_POST_GRAPH if "lvl" not in t] + \
      [t.replace("old(graph)", "graph").replace("result", "ordered") for t in RO_POST]
_rc = [t.replace("ordered_components", "ordered").replace("old(broker.instances)", "seeds").replace("broker.instances", "final")
       for t in RC_POST if "attidx" not in t]
LEMMAS = [dict(
    name="C01-L1",
    module=M,
    decls=collections.OrderedDict(graph=Map(Comp, Set(Comp)), ordered=List(Comp), att=List(Comp), attpos=List(INT),
                                  seeds=Map(Comp, INT), final=Map(Comp, INT)),
    hyps=_ro + _rc,
    goals=[
        # at most once
        "distinct(att)",
        # never before a declared dependency that takes part: such a dependency sits at an earlier position of the
        # executed order, i.e. its loop iteration (run, skip or failure) is over
        "forall(a, range(0, len(att)), forall(b, range(0, len(ordered)), "
        "  implies(att[a] in graph and ordered[b] in graph[att[a]] and ordered[b] != att[a], b < attpos[a])))",
        # seeds are not attempted and keep their value
        "forall(j, range(0, len(att)), att[j] not in seeds)",
        "forall(c, seeds, c in final and final[c] == seeds[c])",
    ])]
NOT_CARRIED = ["a component body that itself writes Broker.instances (bodies are an assumed contract)",
               "dr.run's own body (argument normalisation and the SerializedArchiveContext pruning branch) is not under contract; "
               "the lemma composes run_order and run_components as dr.run's last line does",
               "get_dependency_graph / walk_dependencies (closure over mutable state): not under contract"]
