"""C14 - base parsers accept well-formed content and reject bad content as documented."""
import ast
from contracts.core_parsers import M

SIDECARS = ["core_parsers"]
UNITS = [(M, "CommandParser.validate_lines"), (M, "CommandParser.__init__"), (M, "JSONParser.parse_content"), (M, "YAMLParser.parse_content"),
         (M, "TextFileOutput.get"), (M, "TextFileOutput.__contains__"),
         (M, "TextFileOutput._valid_search.<locals>.<lambda>#0"), (M, "TextFileOutput._valid_search.<locals>.<lambda>#1"),
         (M, "LogFileOutput.get_after")]


def static_checks(repo):
    """the bad-line phrases are compared against lower-cased output: every literal must be lower case itself ('any letter case')"""
    mod = repo.module(M)
    out = []
    for name in ("CommandParser.__bad_single_lines", "CommandParser.__bad_lines"):
        vals = ast.literal_eval(mod.constant(name))
        bad = [v for v in vals if v != v.lower()]
        out.append(dict(name="%s::%s/static:lowercase" % (M, name), ok=not bad, clause="every phrase equals its lower-case form",
                        detail="literals re-read from source: %r; not lower case: %r" % (vals, bad)))
    return out


NOT_CARRIED = ["json.loads / yaml.load are uninterpreted functions of the text (or raise)",
               "TextFileOutput._valid_search: the dispatch on the kind of `s` (string / list / None / TypeError) is an assumed interface; its two "
               "closures are verified as units; `check` is an uninterpreted reducer (all / any)",
               "LogFileOutput.get_after: only the inclusion state machine (from `eleven_months = ...` to the end) is executed; the construction of the "
               "regular expression from the time format and of the strptime parser (lines before it) is not under contract: time_re, parse_fn and "
               "logs_have_year are arbitrary values there; re.search / strptime / datetime arithmetic are uninterpreted total functions",
               "the 330-day year inference is specified as written (the property only says 'with or without year, across a year boundary')",
               "'valid JSON preceded by noise lines beginning with [' (the start-line heuristic is verified as written)"]
