"""Sidecar contracts for insights/client/config.py (C16).  Option values are dynamically typed (PY); the options
of an InsightsConfig object live in its __dict__ (a map from option name to value)."""
import collections
from pyvc.dsl import *

M = "insights/client/config.py"
CFG = Ref("InsightsConfig")

# type invariant of the string-valued options the validation code calls str methods on (None or a string)
STR_OPTS = ["output_dir", "output_file", "module"]
TYPE_INV = ["(self.%s is None or isinstance(self.%s, str))" % (o, o) for o in STR_OPTS]

OFFLINE_CLEAN = ("implies(self.offline, self.no_upload and not self.register and not self.auto_update)")
OUTPUT_CLEAN = ("implies(self.output_dir or self.output_file, self.no_upload and not self.keep_archive)")
NO_CONFLICT = [
    "implies(self.offline, not self.to_json and not self.status and not self.test_connection and not self.checkin and "
    "        not self.unregister and not self.check_results and not self.diagnosis)",
    "implies(self.obfuscate_hostname, self.obfuscate)",
    "not (self.output_dir and self.output_file)",
    "not (self.enable_schedule and self.disable_schedule)",
    "implies(self.payload, self.content_type)",
    "not (self.analyze_image_id or self.analyze_file or self.analyze_mountpoint or self.analyze_container or self.use_atomic or self.use_docker)",
    "self.output_dir != '' and self.output_file != ''",
]
UNCHANGED = lambda names: ["self.%s is old(self.%s)" % (n, n) for n in names]
ONLY_THIS = "forall(o, Ref_Cfg, implies(o != self, o.__dict__ == old(o.__dict__)))"


def declare(reg):
    reg.sort(Ref_Cfg=CFG, Str=STR)
    reg.cls("InsightsConfig", __dynamic__="__dict__", __dict__=Map(STR, PY), _print_errors=BOOL,
            _cli_opts=Opt(Map(STR, PY)), _init_attrs=Set(STR))
    reg.glob(M, DEFAULT_OPTS=Map(STR, PY), DEFAULT_BOOLS=Set(STR))
    reg.consts["constants.valid_compressors"] = ("insights/client/constants.py", "InsightsConstants.valid_compressors")
    reg.external("constants.default_log_file", returns=PY, pure=True)
    reg.external("constants.default_payload_log", returns=PY, pure=True)
    reg.external("constants.app_name", returns=STR, pure=True)
    reg.external("sys.stdout.write", drop=True)
    reg.external("manifests.get", params=dict(k=PY), returns=PY, pure=True, ensures=["result == uf('manifest_of', PY, k)"])
    reg.external("content_types.get", params=dict(k=PY), returns=PY, pure=True, ensures=["result == uf('content_type_of', PY, k)"])
    for n in ("os.path.exists", "os.path.isfile", "os.path.isdir"):
        reg.external(n, params=dict(p=PY), returns=BOOL, note="file-system predicate: arbitrary boolean")
    reg.external("os.listdir", params=dict(p=PY), returns=PY)
    reg.external("os.path.dirname", params=dict(p=STR), returns=PY)
    for n in ("os.path.exists", "os.path.isfile", "os.path.isdir", "os.listdir"):
        pass
    reg.external("os.path.abspath", params=dict(p=PY), returns=PY, pure=False,
                 raises={"TypeError": "not isinstance(p, str)"}, raise_frame="unchanged",
                 ensures=["truthy(result)", "isinstance(result, str)"],
                 note="os.path.abspath returns a non-empty string")

    reg.contract(M, "InsightsConfig._set_app_config", params=dict(self=CFG), modifies=["InsightsConfig.__dict__"],
                 raises={}, assume=["isinstance(self.retries, int)"],
                 note="retries is numeric (the loaders coerce it with int())",
                 ensures=["forall(k, Str, implies(k != 'retries', (k in self.__dict__) == (k in old(self.__dict__)) and self.__dict__[k] is old(self.__dict__)[k]))",
                          ONLY_THIS])
    reg.contract(M, "InsightsConfig._determine_filename_and_extension", params=dict(self=CFG), modifies=["InsightsConfig.__dict__"],
                 requires=["isinstance(self.output_file, str)"],
                 raises={"ValueError": None},
                 ensures=["forall(k, Str, implies(k != 'compressor' and k != 'output_file', (k in self.__dict__) == (k in old(self.__dict__)) and self.__dict__[k] is old(self.__dict__)[k]))",
                          "isinstance(self.output_file, str)",
                          "implies(old(self.output_file) != '', self.output_file != '')", ONLY_THIS],
                 ensures_raise={"ValueError": ["self.__dict__ == old(self.__dict__)"]})

    KEEP = ["offline", "obfuscate", "obfuscate_hostname", "status", "test_connection", "checkin", "unregister", "check_results",
            "enable_schedule", "disable_schedule", "payload", "analyze_image_id", "analyze_file", "analyze_mountpoint",
            "use_atomic", "use_docker", "module", "app", "quiet", "core_collect"]
    reg.contract(M, "InsightsConfig._imply_options", params=dict(self=CFG), modifies=["InsightsConfig.__dict__"],
                 # a non-string value in a path-valued option (possible through the environment: INSIGHTS_OUTPUT_DIR=true becomes
                 # the boolean True) makes os.path / str methods fail: option loading then fails with TypeError / AttributeError
                 raises={"ValueError": None, "TypeError": None, "AttributeError": None},
                 ensures=[OFFLINE_CLEAN, OUTPUT_CLEAN] + UNCHANGED(KEEP) + [
                     "truthy(self.output_dir) == truthy(old(self.output_dir))", "truthy(self.output_file) == truthy(old(self.output_file))",
                     "implies(old(self.output_dir) != '', self.output_dir != '')", "implies(old(self.output_file) != '', self.output_file != '')",
                     ONLY_THIS])
    reg.contract(M, "InsightsConfig._validate_options", params=dict(self=CFG),
                 raises={"ValueError": None, "TypeError": None, "AttributeError": None},
                 ensures=NO_CONFLICT)

    # ------------------------------------------------------------------ _update_dict: the only writer of option values
    # accepted(k): the entry k of the argument is taken over
    ACC = "(k in old(dict_) and k not in self._init_attrs and k in DEFAULT_OPTS)"
    GPG_OFF = "('no_gpg' in old(dict_) and 'no_gpg' not in self._init_attrs and truthy(old(dict_)['no_gpg']))"
    UD_POST = [
        # whole-map postcondition: every option afterwards is either untouched or the value given for a known name
        "forall(k, Str, implies(%s and not (k == 'gpg' and %s), k in self.__dict__ and self.__dict__[k] is old(dict_)[k]))" % (ACC, GPG_OFF),
        "implies(%s and 'gpg' in DEFAULT_OPTS, 'gpg' in self.__dict__ and self.__dict__['gpg'] is False)" % GPG_OFF,
        "forall(k, Str, implies(not %s and not (k == 'gpg' and %s), (k in self.__dict__) == (k in old(self.__dict__)) and "
        "       self.__dict__[k] is old(self.__dict__)[k]))" % (ACC, GPG_OFF),
        # unknown option names never become settings
        "forall(k, Str, implies(k in self.__dict__ and k not in old(self.__dict__), k in DEFAULT_OPTS))",
        ONLY_THIS,
    ]
    reg.contract(M, "InsightsConfig._update_dict", params=dict(self=CFG, dict_=Map(STR, PY)),
                 modifies=["InsightsConfig.__dict__"],
                 locals=dict(unknown_opts=Set(STR)),
                 loops={0: [
                     "forall(k, Str, implies(k not in unknown_opts, (k in dict_) == (k in lold(dict_))))",
                     "forall(k, dict_, k in lold(dict_) and dict_[k] is lold(dict_)[k])",
                     "forall(j, range(0, i_0), it_0[j] not in dict_)",
                 ]},
                 raises={}, ensures=UD_POST)

    # ------------------------------------------------------------------ loaders
    reg.exc_extra["Error"] = "Exception"
    reg.external("os.environ", returns=Map(STR, STR), pure=True, note="the process environment: an arbitrary map of strings")
    reg.opaque_methods = {"add_argument", "add_argument_group", "parse_args", "pop"}
    reg.external("argparse.ArgumentParser", returns=PY)
    reg.external("copy.copy", params=dict(x=PY), returns=PY)
    reg.external("vars", params=dict(x=PY), returns=Map(STR, PY), note="vars(argparse namespace): the parsed command line as an arbitrary map")
    reg.external("argparse.SUPPRESS", returns=PY, pure=True)

    reg.contract(M, "InsightsConfig._load_env.<locals>._boolify", params=dict(v=STR), returns=PY, pure=True, raises={},
                 ensures=["result == (True if v.lower() == 'true' else (False if v.lower() == 'false' else v))"])

    def APPLIED(d):
        """effect of one _update_dict(d) call, stated over the ghost result `d`"""
        return [t.replace("old(dict_)", d) for t in UD_POST]
    reg.contract(M, "InsightsConfig._load_env", params=dict(self=CFG), modifies=["InsightsConfig.__dict__"],
                 locals=dict(insights_env_opts=Map(STR, PY)),
                 ghost_final=dict(applied=(Map(STR, PY), "insights_env_opts")),
                 raises={"ValueError": None},
                 ensures=APPLIED("applied") + [
                     # numeric options are numbers after coercion (a non-numeric value is a ValueError, not a setting)
                     "implies('retries' in applied, isinstance(applied['retries'], int))",
                     "implies('cmd_timeout' in applied, isinstance(applied['cmd_timeout'], int))",
                 ],
                 ensures_raise={"ValueError": ["self.__dict__ == old(self.__dict__)"]})
    reg.contract(M, "InsightsConfig._load_command_line", params=dict(self=CFG, conf_only=BOOL), defaults=dict(conf_only="False"),
                 modifies=["InsightsConfig.__dict__", "InsightsConfig._cli_opts"],
                 locals=dict(arg_groups=Map(STR, PY)),
                 ghosts=dict(applied=(Map(STR, PY), "{}")), ghost_on=[
                     ("self._update_dict(self._cli_opts)", "applied = some(self._cli_opts)", "before"),
                     ("self._update_dict({'conf': self._cli_opts['conf']})", "applied = {'conf': some(self._cli_opts)['conf']}", "before")],
                 loops={0: ["self.__dict__ == lold(self.__dict__)", "self._cli_opts == lold(self._cli_opts)",
                            "forall(o, Ref_Cfg, implies(o != self, o.__dict__ == old(o.__dict__) and o._cli_opts == old(o._cli_opts)))"]},
                 # KeyError: only if the static table DEFAULT_OPTS names an argument group other than actions/debug (not decided here)
                 raises={"KeyError": None},
                 ensures=APPLIED("applied") + [
                     "self._cli_opts is not None",
                     # the command line is parsed once and never altered afterwards: later passes see the same options
                     "implies(truthy(old(self._cli_opts)), self._cli_opts == old(self._cli_opts))",
                     # full pass: the whole command line is applied; conf-only pass: just `conf` (when given)
                     "implies(not conf_only or truthy(old(self._cli_opts)), applied == some(self._cli_opts))",
                     "implies(conf_only and not truthy(old(self._cli_opts)) and 'conf' in some(self._cli_opts), "
                     "        keys(applied) == single('conf') and applied['conf'] is some(self._cli_opts)['conf'])",
                     "implies(conf_only and not truthy(old(self._cli_opts)) and 'conf' not in some(self._cli_opts), applied == some(self._cli_opts))",
                     "forall(o, Ref_Cfg, implies(o != self, o._cli_opts == old(o._cli_opts)))",
                 ])

    # _load_config_file: ends in one self._update_dict(<file map>) or leaves the options untouched (an empty map), and nothing escapes it; the
    # ConfigParser object is an assumed library
    CPR = Ref("CParser")
    reg.cls("CParser")
    reg.exc_extra.update({"Error": "Exception"})          # ConfigParser.Error (classes are matched by their last name)
    reg.external("ConfigParser.RawConfigParser", returns=CPR, raises={})
    HAS = "uf('cp_has_section', BOOL, self, s)"
    reg.interface("CParser", "read", params=collections.OrderedDict(self=CPR, f=PY), raises={"Error": None})
    reg.interface("CParser", "has_section", params=collections.OrderedDict(self=CPR, s=PY), returns=BOOL, pure=True, raises={}, ensures=["result == %s" % HAS])
    # asking a parser for a section it does not have is a ConfigParser.Error (NoSectionError); for a section it has, items() delivers a mapping and
    # the typed getters deliver a value or reject the text with ValueError (the keys asked for come from items(), so NoOptionError does not arise)
    reg.interface("CParser", "items", params=collections.OrderedDict(self=CPR, s=PY), returns=Map(STR, PY), pure=True, raises={"Error": "not %s" % HAS},
                  note="items(section) is consumed only through dict(...): typed as the mapping it becomes")
    for g in ("getint", "getfloat", "getboolean"):
        reg.interface("CParser", g, params=collections.OrderedDict(self=CPR, s=PY, k=STR), returns=PY, raises={"ValueError": None, "Error": "not %s" % HAS},
                      raise_frame="unchanged")
    reg.external("constants.app_name", returns=PY, pure=True)
    reg.external("sys.stdout.write", drop=True)
    reg.contract(M, "InsightsConfig._load_config_file", params=collections.OrderedDict(self=CFG, fname=PY), defaults=dict(fname="None"),
                 modifies=["InsightsConfig.__dict__"], ghosts=dict(applied=(Map(STR, PY), "{}")),
                 locals=dict(applied=Map(STR, PY), d=Map(STR, PY), parsedconfig=CPR, section=PY),
                 ghost_on=[("self._update_dict(d)", "applied = d", "before")],
                 loops={0: ["keys(d) == keys(lold(d))", "self.__dict__ == old(self.__dict__)", "forall(o, Ref_Cfg, o.__dict__ == old(o.__dict__))",
                            # the typed getters are asked for the section that was found
                            "uf('cp_has_section', BOOL, parsedconfig, section)"]},
                 no_merge=("*",),
                 raises={},          # nothing escapes: an unreadable / malformed file is reported and the options stay as they are
                 ghost_final=dict(applied=(Map(STR, PY), "applied")),
                 ensures=APPLIED("applied"))
    FINAL = [OFFLINE_CLEAN, OUTPUT_CLEAN] + NO_CONFLICT
    reg.contract(M, "InsightsConfig.load_all", params=dict(self=CFG), returns=CFG,
                 requires=["self._cli_opts is None"],
                 assume=["True"],
                 modifies=["InsightsConfig.__dict__", "InsightsConfig._cli_opts"],
                 raises={"ValueError": None, "KeyError": None, "TypeError": None, "AttributeError": None},
                 ensures=["result == self"] + FINAL)
