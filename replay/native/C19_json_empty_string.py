# the JSON example grammar rejected "" and white space inside empty containers
import sys, os, json
sys.path.insert(0, os.getcwd())
from insights.parsr.examples import json_parser
bad = []
for d in ('""', '{"a": ""}', '{"": 1}', "[ ]", "{ }"):
    try:
        if json_parser.loads(d) != json.loads(d):
            bad.append(d)
    except Exception:
        bad.append(d)
print("documents rejected or read differently:", bad)
sys.exit(1 if bad else 0)
