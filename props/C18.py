"""C18 - a playbook's signed digest covers everything but the declared dynamic parts."""
from contracts.playbook import M
from contracts.playbook_serializer import M as SM

GROUPS = [
    dict(name="verifier", sidecars=["playbook"], units=[(M, "exclude_dynamic_elements"), (M, "verify_play"), (M, "verify")]),
    dict(name="serializer", sidecars=["playbook_serializer"], strmode="z3", units=[(SM, "PlaybookSerializer._dict")]),
]
NOT_CARRIED = ["injectivity of the complete serializer (unique decodability of the rendered text), SHA-256 collision freedom, GPG",
               "PlaybookSerializer._str / _obj are an assumed rendering function; only the entry expression of _dict is under contract "
               "(a mapping key is rendered exactly like the same value)",
               "the YAML loader; get_play_revocation_list (loads and verifies the shipped list) is an assumed contract",
               "a play is modelled two levels deep (top-level mapping of nodes; a node may be a mapping of nodes)"]


def static_checks(repo):
    """the character escape table of PlaybookSerializer._str, re-read from the source: escaping is a character-wise code; it is uniquely
    decodable (hence injective before quoting) when the backslash itself is escaped, every escape starts with a backslash and is at least
    two characters long, and no escape is a prefix of another (prefix code).  Necessary and sufficient for the loop as written."""
    import ast
    mod = repo.module(SM)
    fn, _ = mod.find("PlaybookSerializer._str")
    table = None
    for n in ast.walk(fn):
        if isinstance(n, ast.Assign) and any(isinstance(t, ast.Name) and t.id == "special_chars" for t in n.targets):
            table = ast.literal_eval(n.value)
    name = "%s::PlaybookSerializer._str/static:escape-table-prefix-code" % SM
    if not isinstance(table, dict):
        return [dict(name=name, ok=False, clause="special_chars is a literal mapping", detail="not found / not a literal")]
    vals = list(table.values())
    problems = []
    if "\\" not in table:
        problems.append("the backslash is not escaped")
    problems += ["key %r is not one character" % k for k in table if len(k) != 1]
    problems += ["escape %r of %r does not start with a backslash or is shorter than 2" % (v, k) for k, v in table.items()
                 if not (v.startswith("\\") and len(v) >= 2)]
    items = list(table.items())
    for i, (k1, v1) in enumerate(items):
        for k2, v2 in items[i + 1:]:
            if v1.startswith(v2) or v2.startswith(v1):
                problems.append("escapes of %r and %r collide or one is a prefix of the other: %r / %r" % (k1, k2, v1, v2))
    witness = None
    for i, (k1, v1) in enumerate(items):
        for k2, v2 in items[i + 1:]:
            if v1 == v2:
                witness = (k1, k2)
    cmd = None
    if witness:
        cmd = ("import sys; from insights.client.apps.ansible.playbook_verifier.serializer import PlaybookSerializer as P; a, b = %r, %r; "
               "print(repr(a), repr(b), '->', P._str(a), P._str(b)); sys.exit(1 if P._str(a) == P._str(b) else 0)" % witness)
    return [dict(name=name, ok=not problems, clause="the escape table is a prefix code with the backslash escaped",
                 detail="table re-read from source: %r; problems: %r" % (table, problems), native_cmd=cmd)]


def bounded(check):
    """bounded stand-ins / native witness search: injectivity of the complete serializer; the real verify() over revocation / signature scenarios"""
    import json, os, subprocess
    lvl = 1 if check.tier == "quick" else 2
    here = os.path.dirname(os.path.dirname(os.path.abspath(__file__)))
    jobs = [("different playbook values serialize to different texts", "serializer_injective.py", [str(lvl)],
             "level %d: 22-27 adversarial strings, 3 integers, lists (<= 2 elements) and mappings (1-2 entries, keys of every scalar type) of them, "
             "nested examples" % lvl, "C18-bounded.json"),
            ("verify(): accepted iff validly signed and not revoked (any spelling of the listed digest); the digest ignores exactly the dynamic parts",
             "playbook_verify_scenarios.py", [], "1 play x {valid, invalid signature} x 3 spellings of the revoked digest; 2 dynamic-part edits, 7 signed-part edits "
             "(GPG's verdict and the bytes of the shipped revocation list are substituted)", "C18-bounded-verify.json")]
    outs = []
    for name, script, args, bound, rfile in jobs:
        p = subprocess.run(["/venv/bin/python", os.path.join(here, "bounded", script), check.repo.root] + args,
                           stdout=subprocess.PIPE, stderr=subprocess.PIPE, universal_newlines=True, timeout=3000)
        line = (p.stdout.strip().splitlines() or ["{}"])[-1]
        try:
            info = json.loads(line)
        except ValueError:
            info = {"error": (p.stderr or p.stdout)[-400:]}
        out = dict(name=name, level="bounded", bound=bound, result=info, violation=(p.returncode == 1), error=(p.returncode not in (0, 1)))
        if p.returncode == 1:
            os.makedirs(os.path.join(here, "replays"), exist_ok=True)
            path = os.path.join(here, "replays", rfile)
            json.dump(dict(obligation="bounded:" + script, witness=info,
                           replay_cmd="/venv/bin/python %s %s %s" % (os.path.join(here, "bounded", script), check.repo.root, " ".join(args))),
                      open(path, "w"), indent=1)
            out["replay"] = path
        outs.append(out)
    return outs
