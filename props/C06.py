"""C06 - collection stays in its root, honours the deny list, writes only to the archive."""
from contracts.providers import SF, BL

GROUPS = [dict(name="validate", sidecars=["providers"], strmode="z3", units=[
    (BL, "allow_file"), (BL, "allow_command"), (SF, "FileProvider.validate"), (SF, "CommandOutputProvider.validate"),
    # typestate: the constructors end in validate(); the file / command factories hand out providers built for the resolved context and its root
    (SF, "FileProvider.__init__"), (SF, "CommandOutputProvider.__init__"), (SF, "simple_file.__call__"), (SF, "first_file.__call__"),
    (SF, "glob_file.__call__"), (SF, "simple_command.__call__")])]
Z3_TIMEOUT = 40
CVC5_TIMEOUT = 60
NOT_CARRIED = ["os.path.realpath, os.path.exists, glob, shlex, which: assumed contracts of the OS / library (realpath: absolute, no trailing "
               "slash unless the root directory; the location the kernel opens)",
               "factory typestate: FileProvider.__init__ / CommandOutputProvider.__init__ (from after the base-class constructor call) and "
               "simple_file / first_file / glob_file / simple_command .__call__ are under contract (every provider handed out was validated against the "
               "root of the context the factory resolved, with that context passed on, so the deny list is consulted); listdir / listglob (no content), "
               "command_with_args, foreach_execute, foreach_collect, container_execute, container_collect are NOT under contract (bounded stand-in only); "
               "that the provider classes stored in `kind` are FileProvider subclasses that do not override __init__ / validate is assumed",
               "destination shape of persisted content (serializers, mangle_command) and '..' inside relative paths re-joined under the "
               "output directory: not under contract",
               "apply_blacklist (translation of the user's redaction config into deny entries)"]


def _bounded0(check):
    """bounded stand-in / native witness search for deny-list matching and root containment"""
    import json, os, subprocess
    n = 3 if check.tier == "quick" else 4
    here = os.path.dirname(os.path.dirname(os.path.abspath(__file__)))
    p = subprocess.run(["/venv/bin/python", os.path.join(here, "bounded", "blacklist_exhaustive.py"), check.repo.root, str(n)],
                       stdout=subprocess.PIPE, stderr=subprocess.PIPE, universal_newlines=True, timeout=3000)
    line = (p.stdout.strip().splitlines() or ["{}"])[-1]
    try:
        info = json.loads(line)
    except ValueError:
        info = {"error": (p.stderr or p.stdout)[-400:]}
    out = dict(name="allow_file / allow_command == the deny rule; a path whose real location is outside the root is refused", level="bounded",
               bound="deny lists of <= 2 entries (length <= 3) x candidates up to length %d over {a, b, space, /}; 11 layouts + a root that is a symbolic link re-pointed between two providers + a scanned-archive context whose entry became a link leaving the root ('..', sibling sharing the "
                     "root's prefix, absolute / relative / directory symlinks)" % n,
               result=info, violation=(p.returncode == 1), error=(p.returncode not in (0, 1)))
    if p.returncode == 1:
        os.makedirs(os.path.join(here, "replays"), exist_ok=True)
        path = os.path.join(here, "replays", "C06-bounded.json")
        json.dump(dict(obligation="bounded:deny-list-and-containment", witness=info,
                       replay_cmd="/venv/bin/python %s %s %d" % (os.path.join(here, "bounded", "blacklist_exhaustive.py"), check.repo.root, n)),
                  open(path, "w"), indent=1)
        out["replay"] = path
    outs = [out]
    p2 = subprocess.run(["/venv/bin/python", os.path.join(here, "bounded", "factories_destinations.py"), check.repo.root],
                        stdout=subprocess.PIPE, stderr=subprocess.PIPE, universal_newlines=True, timeout=3000)
    line2 = (p2.stdout.strip().splitlines() or ["{}"])[-1]
    try:
        info2 = json.loads(line2)
    except ValueError:
        info2 = {"error": (p2.stderr or p2.stdout)[-400:]}
    out2 = dict(name="every file the declarative factories persist is beneath the output directory; what is persisted is what is loaded", level="bounded",
                bound="7 factories (simple_file, first_file, glob_file, foreach_collect, simple_command, command_with_args, foreach_execute) x 7 forms of "
                      "save_as (none, name, directory, leading '/', absolute inside / outside the work area), real HostContext, real dehydrate / hydrate",
                result=info2, violation=(p2.returncode == 1), error=(p2.returncode not in (0, 1)))
    if p2.returncode == 1:
        os.makedirs(os.path.join(here, "replays"), exist_ok=True)
        path2 = os.path.join(here, "replays", "C06-bounded-factories.json")
        json.dump(dict(obligation="bounded:factories-destinations", witness=info2,
                       replay_cmd="/venv/bin/python %s %s" % (os.path.join(here, "bounded", "factories_destinations.py"), check.repo.root)), open(path2, "w"), indent=1)
        out2["replay"] = path2
    outs.append(out2)
    p3 = subprocess.run(["/venv/bin/python", os.path.join(here, "bounded", "collect_denylist.py"), check.repo.root],
                        stdout=subprocess.PIPE, stderr=subprocess.PIPE, universal_newlines=True, timeout=3000)
    line3 = (p3.stdout.strip().splitlines() or ["{}"])[-1]
    try:
        info3 = json.loads(line3)
    except ValueError:
        info3 = {"error": (p3.stderr or p3.stdout)[-400:]}
    out3 = dict(name="collect.collect(): a file / command on the user's deny list is never opened, executed or persisted; allowed files are collected",
                level="bounded", bound="4 manifests (own blacklist sections empty / holding unrelated entries) x 3 user deny lists x 4 factories",
                result=info3, violation=(p3.returncode == 1), error=(p3.returncode not in (0, 1)))
    if p3.returncode == 1:
        path3 = os.path.join(here, "replays", "C06-bounded-collect.json")
        json.dump(dict(obligation="bounded:collect-denylist", witness=info3,
                       replay_cmd="/venv/bin/python %s %s" % (os.path.join(here, "bounded", "collect_denylist.py"), check.repo.root)), open(path3, "w"), indent=1)
        out3["replay"] = path3
    outs.append(out3)
    return outs


def bounded(check):
    from props._xcheck import xcheck
    return list(_bounded0(check)) + [xcheck(check, ['providers'], 'blacklist')]
