"""Sidecar for PlaybookSerializer._dict (C18): how a mapping entry is rendered (string theory)."""
from pyvc.dsl import *

M = "insights/client/apps/ansible/playbook_verifier/serializer.py"
SC = Ref("SerCls")
Node = U("Node")


def declare(reg):
    reg.sort(Str=STR)
    # value rendering (assumed from reading _obj/_str; _str iterates over characters and is not within the verified subset):
    # _obj(v) is a function of v; for a string, _str puts it in single quotes unless it contains one (then double quotes, or escaping)
    reg.cls("SerCls")
    reg.interface("SerCls", "_obj", params=dict(cls=SC, value=None), returns=STR, pure=True, raises={},
                  ensures=["result == uf('render', STR, value)"])
    reg.axiom("uf('render', STR, \"'\") == '\"' + \"'\" + '\"'")
    reg.assume("PlaybookSerializer._obj / _str are an assumed rendering function `render`; known instance: render(\"'\") == '\"\\'\"' "
               "(a string containing a single quote is put in double quotes)")
    reg.contract(M, "PlaybookSerializer._dict", params=dict(cls=SC, value=Node), returns=STR, skip_body=True,
                 expr_eq=[("'({key}, {value})'.format(key=cls._obj(k), value=cls._obj(v))", dict(k=STR, v=Node),
                           # reference rendering: a key is rendered exactly like the same string as a value
                           "'(' + uf('render', STR, k) + ', ' + uf('render', STR, v) + ')'")],
                 cover=False)
