# sep_by dropped a first element that is falsy: the JSON example grammar read [0, 1] as [1]
import sys, os, json
sys.path.insert(0, os.getcwd())
from insights.parsr.examples import json_parser
bad = [d for d in ("[0, 1]", "[null, 1]", "[false, true]", "[[], 1]") if json_parser.loads(d) != json.loads(d)]
print("documents read differently from json.loads:", bad)
sys.exit(1 if bad else 0)
