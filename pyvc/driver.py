"""Property check driver: generate VCs from /repo source, discharge, refute at finite scope, report.

exit 0 all obligations proved (known findings still reproduce) | 1 refuted obligation (VIOLATION)
     2 undecided (unknown / timeout everywhere)               | 3 checker error (outside subset, drift, ...)
"""
import hashlib
import importlib
import json
import os
import subprocess
import sys
import time
import traceback

import z3

from . import core, run as R, solve
from .core import CTX
from .source import Repo

VERIF = os.path.dirname(os.path.dirname(os.path.abspath(__file__)))


def load_prop(pid):
    m = importlib.import_module("props." + pid)
    return m


def known_findings():
    out = {"finding": [], "fixed": []}
    p = os.path.join(VERIF, "KNOWN_FINDINGS.txt")
    if os.path.exists(p):
        for line in open(p):
            line = line.strip()
            if not line or line.startswith("#"):
                continue
            kind, rest = line.split(":", 1)
            kind = kind.strip()
            if kind in out:
                d = {}
                toks = rest.strip().split(" ", 2)
                for t in toks[:2]:
                    if "=" in t:
                        k, v = t.split("=", 1)
                        d[k] = v
                d["text"] = toks[2] if len(toks) > 2 else ""
                out[kind].append(d)
    return out


def _symbols(t, acc, seen):
    stack = [t]
    while stack:
        x = stack.pop()
        i = x.get_id()
        if i in seen:
            continue
        seen.add(i)
        if z3.is_app(x):
            d = x.decl()
            if d.kind() == z3.Z3_OP_UNINTERPRETED:
                acc.add(d.name())
            stack.extend(x.children())
        elif z3.is_quantifier(x):
            stack.append(x.body())


def relevant_constraints(formulas, constraints):
    """Finite-scope side constraints (length bounds) that talk about symbols of the obligation; the others constrain symbols
    that do not occur in it (other paths / units) and are satisfiable on their own."""
    syms, seen = set(), set()
    for f in formulas:
        _symbols(f, syms, seen)
    out, got = [], set()
    for c in constraints:
        h = c.hash()
        if h in got:
            continue
        cs = set()
        _symbols(c, cs, set())
        if cs & syms or not cs:
            got.add(h)
            out.append(c)
    return out


def probe_value(name, v, out, depth=0):
    """Terms to read out of a counter-model for value v."""
    from .core import List, Set, Map, Opt, Tup, Ref, U, INT, BOOL, STR, PY, EXC, REAL
    ty = v.ty
    k = CTX.scope or 3
    if v.t is None and v.items is None:
        return
    if isinstance(ty, List):
        out[name + ".len"] = core.llen(v)
        for i in range(k):
            probe_value("%s[%d]" % (name, i), core.lget(v, i), out, depth + 1)
    elif isinstance(ty, Set):
        vals = CTX.enum_values(CTX.sort(ty.elem)) if CTX.scope else None
        if vals is not None:
            for c in vals:
                out["%s∋%s" % (name, c)] = core.smem_t(v, c)
    elif isinstance(ty, Map):
        vals = CTX.enum_values(CTX.sort(ty.k)) if CTX.scope else None
        if vals is not None:
            for c in vals:
                out["%s.has(%s)" % (name, c)] = core.smem_t(core.mdom(v), c)
                if depth < 2:
                    probe_value("%s[%s]" % (name, c), core.V(ty.v, z3.Select(core.mval(v), c)), out, depth + 1)
    elif isinstance(ty, Tup):
        for i in range(len(ty.elems)):
            probe_value("%s.%d" % (name, i), core.tget(v, i), out, depth + 1)
    elif isinstance(ty, Opt):
        out[name + ".is_none"] = core.ois_none(v)
        probe_value(name + ".some", core.oval(v), out, depth + 1)
    elif v.t is not None:
        out[name] = v.t


class Check(object):
    def __init__(self, pid, tier="quick", seed=0):
        self.pid = pid
        self.tier = tier
        self.seed = seed
        self.prop = load_prop(pid)
        self.repo = Repo()
        self.t0 = time.time()
        self.z3_timeout = getattr(self.prop, "Z3_TIMEOUT", 30 if tier == "quick" else 120)
        self.cvc5_timeout = getattr(self.prop, "CVC5_TIMEOUT", 30 if tier == "quick" else 120)
        self.max_scope = 3 if tier == "quick" else 4
        self.lines = []

    def say(self, s):
        print(s)
        sys.stdout.flush()

    # ------------------------------------------------------------------------------------------
    def groups(self):
        """A property is decided by one or more groups, each with its own sidecars / string mode."""
        if hasattr(self.prop, "GROUPS"):
            return self.prop.GROUPS
        return [dict(name="main", sidecars=self.prop.SIDECARS, units=self.prop.UNITS,
                     lemmas=getattr(self.prop, "LEMMAS", []), strmode=getattr(self.prop, "STRMODE", "opaque"),
                     refinements=getattr(self.prop, "REFINEMENTS", []))]

    def run(self):
        errors, refuted, undecided = [], [], []
        all_rows = []
        functions = []
        notes = set()
        n_covers_bad = []
        solver_s = {"z3": 0.0, "cvc5": 0.0}
        backends = {}
        assumptions = set(getattr(self.prop, "ASSUMPTIONS", []))
        for g in self.groups():
            reg = R.load_registry(g["sidecars"])
            units = list(g["units"])
            lemmas = list(g.get("lemmas", []))
            eng, results = R.generate(reg, units, lemmas, self.repo, scope=None, strmode=g.get("strmode", "opaque"),
                                      refinements=g.get("refinements", []))
            for ur in results:
                if ur.error:
                    errors.append((ur.name, ur.error))
                if ur.info:
                    functions.append(ur.info)
                notes.update(ur.notes)
                if not ur.error and not ur.obls:
                    errors.append((ur.name, "zero obligations generated (vacuity guard)"))
            for (m, q), c in reg.contracts.items():
                if c.external and c.note:
                    assumptions.add("assumed contract %s: %s" % (q, c.note))
            for dotted, c in reg.externals.items():
                if c != "drop":
                    assumptions.add("external (assumed, never verified): %s%s" % (dotted, (" - " + c.note) if c.note else ""))
                else:
                    assumptions.add("dropped call (no effect, cannot raise): %s" % dotted)
            for a in reg.assumptions:
                assumptions.add(a)
            rows = R.discharge_units(results, z3_timeout=self.z3_timeout, cvc5_timeout=self.cvc5_timeout,
                                     recheck=(self.tier == "thorough"), seed=self.seed)
            # vacuity: covers
            for ur, name, ok, verdicts in R.check_covers(results):
                if not ok:
                    n_covers_bad.append(name)
            open_names = set()
            for ur, o, r in rows:
                solver_s["z3"] += r.get("z3_s", 0.0)
                solver_s["cvc5"] += r.get("cvc5_s", 0.0)
                backends[r.get("backend", "?")] = backends.get(r.get("backend", "?"), 0) + 1
                all_rows.append((g["name"], ur, o, r))
                if r["verdict"] == "disagree":
                    errors.append((o.name, "solver disagreement z3=%s cvc5=%s" % (r["z3"], r.get("cvc5"))))
                elif r["verdict"] != "proved":
                    open_names.add(o.name)
            if open_names:
                ref, und = self.finite_scope_guarded(g, reg, open_names, rows)
                refuted.extend(ref)
                undecided.extend(und)
        # static checks on source literals (python evaluation of constants re-read from the source on every run)
        self.static_rows = []
        sc = getattr(self.prop, "static_checks", None)
        if sc is not None:
            for r in sc(self.repo):
                self.static_rows.append(r)
                if not r["ok"]:
                    refuted.append(dict(obligation=r["name"], clause=r["clause"], kind="static", scope=None, trace=[], model={"detail": r["detail"]},
                                        solver="python evaluation of the source literal", full_scope=r["detail"], native_cmd=r.get("native_cmd")))
        return self.report(errors, refuted, undecided, all_rows, functions, notes, n_covers_bad, solver_s, backends, assumptions)

    # ------------------------------------------------------------------------------------------
    def finite_scope_guarded(self, g, reg, open_names, rows):
        """The counter-model search runs in a forked child under a hard wall-clock limit: it is best effort, and a search that does not come
        back leaves its obligations open (the lock rule then decides between VIOLATION ... no-failing-input-found and UNDECIDED)."""
        import multiprocessing
        ctx = multiprocessing.get_context("fork")
        rx, tx = ctx.Pipe(False)

        def work():
            try:
                res = self.finite_scope(g, reg, open_names, rows)
            except BaseException as e:      # noqa
                res = ("error", "%s: %s" % (type(e).__name__, e))
            try:
                tx.send(res)
            finally:
                tx.close()
        p = ctx.Process(target=work)
        p.start()
        limit = (180 if self.tier == "quick" else 900) + 150
        res = rx.recv() if rx.poll(limit) else None
        p.join(5)
        if p.is_alive():
            p.terminate()
        if isinstance(res, tuple) and len(res) == 2 and res[0] != "error":
            return res
        self.say("note: finite-scope search %s; its obligations stay open" % ("did not return within %d s" % limit if res is None else "failed: %s" % (res[1],)))
        clause_of = dict((o.name, o.clause) for ur, o, r in rows)
        refuted, undecided = {}, []
        for ur, o, r in rows:
            if o.name in open_names and r["verdict"] == "refuted" and o.name not in refuted:
                refuted[o.name] = dict(obligation=o.name, clause=o.clause, kind=o.kind, scope=None, trace=o.trace, model={}, solver=r.get("backend"), full_scope="sat")
        for n in sorted(open_names):
            if n not in refuted:
                undecided.append(dict(obligation=n, reason="finite-scope search did not finish", clause=clause_of.get(n, "")))
        return list(refuted.values()), undecided

    def finite_scope(self, g, reg, open_names, rows):
        """Re-generate the units that have open obligations at finite scope 1..max and look for counter-models."""
        open_units = sorted(set(ur.name for ur, o, r in rows if o.name in open_names))
        refuted = {}
        first_reason = {}
        for ur, o, r in rows:
            if o.name in open_names and r["verdict"] != "proved":
                first_reason.setdefault(o.name, "%s %s" % (r["verdict"], r.get("reason", "")))
        t_start = time.time()
        budget = 180 if self.tier == "quick" else 900        # the search for a counter-model is best effort: what it leaves open falls under the lock policy
        for k in range(1, self.max_scope + 1):
            remaining = [n for n in open_names if n not in refuted]
            if not remaining:
                break
            if time.time() - t_start > budget:
                self.say("note: finite-scope search stopped after %d s (scope %d not tried)" % (budget, k))
                break
            units = [u for u in g["units"] if "%s::%s" % u in open_units]
            lemmas = [l for l in g.get("lemmas", []) if "lemma::" + l["name"] in open_units]
            try:
                refs = [r for r in g.get("refinements", []) if any(n.startswith("refines::%s<=" % r[0][1]) for n in open_units)]
                eng, results = R.generate(reg, units, lemmas, self.repo, scope=k, strmode=g.get("strmode", "opaque"), refinements=refs)
            except Exception as e:       # finite-scope rebuild is best effort
                self.say("note: finite-scope %d generation failed: %s" % (k, e))
                continue
            items, idx = [], []
            for ur in results:
                if ur.error:
                    continue
                for o in ur.obls:
                    if o.name in remaining and not o.trivially_true():
                        probes = {}
                        # quantifier-free after expansion: the logic-specific solver decides these in a fraction of the
                        # time the default strategy needs (measured: 0.7 s against > 120 s)
                        items.append((list(o.hyps) + relevant_constraints(list(o.hyps) + [o.goal], CTX.scope_constraints), o.goal, True,
                                      self.probes_for(eng, o), None))
                        idx.append(o)
            res = solve.discharge(items, z3_timeout=min(self.z3_timeout, 20), cvc5=False, seed=self.seed)
            for o, r in zip(idx, res):
                if r["z3"] == "sat" and o.name not in refuted:
                    refuted[o.name] = dict(obligation=o.name, clause=o.clause, kind=o.kind, scope=k, trace=o.trace,
                                           model=r.get("model", {}), solver="z3 (finite scope %d)" % k,
                                           full_scope=first_reason.get(o.name, ""))
        clause_of = dict((o.name, o.clause) for ur, o, r in rows)
        undecided = [dict(obligation=n, reason=first_reason.get(n, ""), clause=clause_of.get(n, "")) for n in sorted(open_names) if n not in refuted]
        # an obligation refuted at full scope (sat) is a refutation even without finite-scope model
        for ur, o, r in rows:
            if o.name in open_names and r["verdict"] == "refuted" and o.name not in refuted:
                refuted[o.name] = dict(obligation=o.name, clause=o.clause, kind=o.kind, scope=None, trace=o.trace,
                                       model={}, solver=r.get("backend"), full_scope="sat")
                undecided = [u for u in undecided if u["obligation"] != o.name]
        return list(refuted.values()), undecided

    def probes_for(self, eng, o):
        return dict(getattr(o, "probes", {}))

    # ------------------------------------------------------------------------------------------
    def lock_path(self):
        return os.path.join(VERIF, "obligations.lock")

    def load_lock(self):
        try:
            return json.load(open(self.lock_path())).get(self.pid, {})
        except Exception:
            return {}

    def apply_lock(self, undecided, refuted, functions):
        """An obligation that was discharged on the reference tree (obligations.lock) and can no longer be discharged after the
        source of its function changed is reported as a violation without a failing input (the solver's reason attached).
        With unchanged source a failing proof is flakiness (solver budget) and stays undecided."""
        lock = self.load_lock()
        sha = dict(("%s::%s" % (f["file"], f["qualname"]), f["sha1"]) for f in functions if f.get("sha1"))
        still = []
        for u in undecided:
            unit = u["obligation"].rsplit("/", 1)[0]
            ent = lock.get(unit)
            clause = u["obligation"]
            if ent and clause in ent.get("proved", []) and unit in sha and ent.get("sha1") != sha[unit]:
                refuted.append(dict(obligation=clause, clause=u.get("clause", ""), kind="lock", scope=None, trace=[], model={},
                                    solver="none", full_scope="discharged on the reference tree, not dischargeable after the change: %s" % u["reason"]))
            else:
                still.append(u)
        return still

    def write_lock(self, rows, functions):
        try:
            allp = json.load(open(self.lock_path()))
        except Exception:
            allp = {}
        sha = dict(("%s::%s" % (f["file"], f["qualname"]), f["sha1"]) for f in functions if f.get("sha1"))
        ent = {}
        agg = {}
        for gname, ur, o, r in rows:
            a = agg.setdefault(o.name, [0, 0])
            a[0] += 1
            a[1] += 1 if r["verdict"] == "proved" else 0
        for name, (n, p) in agg.items():
            unit = name.rsplit("/", 1)[0]
            if unit in sha:
                e = ent.setdefault(unit, {"sha1": sha[unit], "proved": []})
                if n == p:
                    e["proved"].append(name)
        allp[self.pid] = ent
        with open(self.lock_path(), "w") as f:
            json.dump(allp, f, indent=0, sort_keys=True)

    def report(self, errors, refuted, undecided, rows, functions, notes, covers_bad, solver_s, backends, assumptions):
        pid = self.pid
        if getattr(self, "relock", False):
            self.write_lock(rows, functions)
        # obligations carrying a known finding's condition ([kf]) are expected NOT to be dischargeable: refuted or undecided alike
        for u in list(undecided):
            if u["obligation"].endswith("[kf]"):
                undecided.remove(u)
                refuted.append(dict(obligation=u["obligation"], clause=u.get("clause", ""), kind="kf", scope=None, trace=[], model={},
                                    solver="none", full_scope=u["reason"]))
        undecided = self.apply_lock(undecided, refuted, functions)
        kf = known_findings()
        my_kf = [f for f in kf["finding"] if f.get("property") == pid]
        # clause-level aggregation
        by_name = {}
        for gname, ur, o, r in rows:
            d = by_name.setdefault(o.name, {"paths": 0, "proved": 0, "kind": o.kind, "clause": o.clause})
            d["paths"] += 1
            d["proved"] += 1 if r["verdict"] == "proved" else 0
        n_obl = len(rows)
        n_proved = sum(1 for _, _, _, r in rows if r["verdict"] == "proved")
        exit_code = 0
        violations = 0
        out_lines = []
        # known findings: expected refutations
        kf_hit = set()
        new_refuted = []
        for ref in refuted:
            match = None
            for f in my_kf:
                if f.get("obligation") and f["obligation"] == ref["obligation"]:
                    match = f
            if match is not None:
                kf_hit.add(match["obligation"])
                ok = self.replay_finding(match, ref)
                if ok:
                    out_lines.append("KNOWN-FINDING: property=%s %s" % (pid, match["text"]))
                else:
                    out_lines.append("note: known finding %s refuted by the solver but native replay did not reproduce" % match["obligation"])
            else:
                new_refuted.append(ref)
        os.makedirs(os.path.join(VERIF, "replays"), exist_ok=True)
        for ref in new_refuted:
            violations += 1
            h = hashlib.sha1(ref["obligation"].encode()).hexdigest()[:10]
            path = os.path.join(VERIF, "replays", "%s-%s.json" % (pid, h))
            native = self.native_replay(ref)
            ref["native"] = native
            ref["replay_cmd"] = "./check %s --replay %s" % (pid, path)
            with open(path, "w") as f:
                json.dump(ref, f, indent=1, default=str)
            suffix = "" if native and native.get("reproduced") else " no-failing-input-found"
            out_lines.append("VIOLATION property=%s replay=%s obligation=%s%s" % (pid, path, ref["obligation"], suffix))
            exit_code = 1
        if errors:
            for n, e in errors:
                out_lines.append("CHECKER-ERROR property=%s unit=%s %s" % (pid, n, e.splitlines()[0][:400]))
            if exit_code == 0:
                exit_code = 3
        if undecided and exit_code == 0:
            exit_code = 2
        for u in undecided:
            out_lines.append("UNDECIDED property=%s obligation=%s %s" % (pid, u["obligation"], u["reason"][:120]))
        if covers_bad:
            for c in covers_bad:
                out_lines.append("CHECKER-ERROR property=%s vacuous: %s (hypotheses contradictory)" % (pid, c))
            if exit_code == 0:
                exit_code = 3
        # a listed finding whose obligation is now proved has disappeared: no line, a note only
        for f in my_kf:
            if f.get("obligation") and f["obligation"] not in kf_hit and f["obligation"] in by_name \
                    and by_name[f["obligation"]]["proved"] == by_name[f["obligation"]]["paths"]:
                out_lines.append("note: listed finding %s no longer refuted (obligation proved)" % f["obligation"])
        for l in out_lines:
            self.say(l)
        # discharged count: obligations of known findings are expected-refuted and not counted as obligations to prove
        kf_rows = sum(1 for _, _, o, r in rows if o.name in kf_hit)
        kf_unproved = sum(1 for _, _, o, r in rows if o.name in kf_hit and r["verdict"] != "proved")
        bounded = self.bounded_extras()
        for b in bounded:
            if b.get("violation"):
                # a concrete failing input on the real code decides, whatever else was undecided or outside the subset
                exit_code = 1
                violations += 1
                self.say("VIOLATION property=%s replay=%s bounded-check=%s" % (pid, b.get("replay", "-"), b.get("name")))
            elif b.get("error") or (isinstance(b.get("result"), dict) and b["result"].get("error")):
                # the bounded stand-in did not run to completion: a checker error, never a verdict
                exit_code = 3 if exit_code == 0 else exit_code
                self.say("CHECKER-ERROR bounded stand-in %s: %s" % (b.get("name"), str(b.get("error") or b["result"].get("error"))[-300:]))
        samples = []
        for gname, ur, o, r in rows[:: max(1, len(rows) // 8)][:8]:
            samples.append({"obligation": o.name, "kind": o.kind, "clause": o.clause[:160], "verdict": r["verdict"],
                            "backend": r.get("backend"), "z3_s": r.get("z3_s"), "path": " ".join(o.trace[-6:])})
        ev = {
            "property_id": pid, "tier": self.tier, "seed": int(self.seed), "level": "proof",
            "coverage": {
                "obligations": n_obl - kf_unproved, "discharged": n_proved,
                "checker_cmd": "./check %s --tier %s" % (pid, self.tier),
                "trusted_base": ["z3 %s (python API)" % z3.get_version_string(), "cvc5 1.0.3 (CLI, takes z3 unknowns)",
                                 "pyvc encoder (/verif/pyvc): Python semantics as stated in DESIGN.md 2.3-2.5, section 5"],
                "clause_obligations": len(by_name),
                "static_checks": getattr(self, "static_rows", []),
                "known_finding_obligations_expected_refuted": kf_unproved,
                "slowest_obligations": sorted([(round(r.get("z3_s", 0) + r.get("cvc5_s", 0), 2), o.name) for _, _, o, r in rows], reverse=True)[:5],
                "by_backend": backends, "solver_seconds": {k: round(v, 2) for k, v in solver_s.items()},
                "functions_under_contract": functions,
                "refuted": [r["obligation"] for r in refuted], "undecided": [u["obligation"] for u in undecided],
                "checker_errors": [list(e) for e in errors],
                "bounded": bounded,
                "not_carried": getattr(self.prop, "NOT_CARRIED", []),
                "samples": samples,
                "explanation": getattr(self.prop, "EXPLANATION", ""),
                "dropped_or_abstracted_while_executing": sorted(notes),
            },
            "assumptions": sorted(assumptions) + ["termination is not proved", "only Exception subclasses are modelled as faults",
                                                   "integers are mathematical (exact for Python)"],
            "wall_s": round(time.time() - self.t0, 2), "violations": violations,
        }
        os.makedirs(os.path.join(VERIF, "evidence"), exist_ok=True)
        with open(os.path.join(VERIF, "evidence", "%s.json" % pid), "w") as f:
            json.dump(ev, f, indent=1, default=str)
        self.say("%s: %d obligations (%d clause-level), %d discharged, %d refuted, %d undecided, %d errors, %.1fs -> exit %d"
                 % (pid, n_obl, len(by_name), n_proved, len(refuted), len(undecided), len(errors), time.time() - self.t0, exit_code))
        return exit_code

    # ------------------------------------------------------------------------------------------
    def native_replay(self, ref):
        """Run the property's native replay harness (under /venv/bin/python) for a refuted obligation."""
        if ref.get("native_cmd"):
            # a concrete failing input computed by the check itself (python source run against the real code; exit 1 = reproduced)
            try:
                p = subprocess.run(["/venv/bin/python", "-c", ref["native_cmd"]], cwd=self.repo.root, stdout=subprocess.PIPE, stderr=subprocess.STDOUT,
                                   universal_newlines=True, timeout=120, env=dict(os.environ, PYTHONPATH=self.repo.root))
                return {"reproduced": p.returncode == 1, "exit": p.returncode, "output": p.stdout[-2000:], "cmd": ref["native_cmd"]}
            except Exception as e:
                return {"reproduced": False, "note": "native command error: %s" % e}
        harness = os.path.join(VERIF, "replay", "%s.py" % self.pid)
        if not os.path.exists(harness):
            return {"reproduced": False, "note": "no native harness for this property"}
        try:
            p = subprocess.run(["/venv/bin/python", harness, "--obligation", ref["obligation"], "--model", json.dumps(ref.get("model", {}))],
                               cwd=self.repo.root, stdout=subprocess.PIPE, stderr=subprocess.STDOUT, universal_newlines=True, timeout=300,
                               env=dict(os.environ, PYTHONPATH=self.repo.root, VERIF_REPO=self.repo.root))
            out = p.stdout[-3000:]
            return {"reproduced": p.returncode == 1, "exit": p.returncode, "output": out}
        except Exception as e:
            return {"reproduced": False, "note": "harness error: %s" % e}

    def replay_finding(self, finding, ref):
        harness = os.path.join(VERIF, "replay", "%s.py" % self.pid)
        if not os.path.exists(harness):
            return True
        r = self.native_replay(ref)
        return bool(r.get("reproduced"))

    def bounded_extras(self):
        fn = getattr(self.prop, "bounded", None)
        if fn is None:
            return []
        try:
            return fn(self)
        except Exception as e:
            return [{"name": "bounded stand-in crashed", "error": str(e) or type(e).__name__, "violation": False}]


def replay_file(pid, path):
    ref = json.load(open(path))
    print("obligation:", ref["obligation"])
    if "witness" in ref:
        # a bounded stand-in's concrete witness: re-run its command against the current tree (exit 1 = the failing input reproduces)
        print("witness   :", json.dumps(ref["witness"], indent=1)[:4000])
        print("command   :", ref.get("replay_cmd"))
        p = subprocess.run(ref["replay_cmd"], shell=True, cwd=os.environ.get("VERIF_REPO", "/repo"), stdout=subprocess.PIPE, stderr=subprocess.STDOUT,
                           universal_newlines=True, timeout=6000)
        print("native    :", p.stdout[-3000:])
        return 1 if p.returncode == 1 else 0
    print("clause    :", ref.get("clause"))
    print("solver    :", ref.get("solver"), ref.get("full_scope"))
    print("model     :", json.dumps(ref.get("model", {}), indent=1)[:4000])
    chk = Check(pid)
    r = chk.native_replay(ref)
    print("native    :", json.dumps(r, indent=1)[:4000])
    return 1 if r.get("reproduced") else 0


def main(argv=None):
    import argparse
    ap = argparse.ArgumentParser()
    ap.add_argument("pid")
    ap.add_argument("--tier", default=os.environ.get("VERIF_TIER", "quick"))
    ap.add_argument("--replay")
    ap.add_argument("--relock", action="store_true", help="record the obligations discharged on this tree in obligations.lock")
    a = ap.parse_args(argv)
    seed = int(os.environ.get("VERIF_SEED", "0") or 0)
    if a.replay:
        return replay_file(a.pid, a.replay)
    try:
        chk = Check(a.pid, a.tier, seed)
        chk.relock = a.relock
        return chk.run()
    except Exception:
        traceback.print_exc()
        print("CHECKER-ERROR property=%s crashed" % a.pid)
        return 3
