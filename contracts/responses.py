"""Sidecar contracts for rule responses (insights/core/plugins.py Response and subclasses) and the evaluator (C12)."""
import collections
from pyvc.dsl import *
from contracts.dr import Comp

P = "insights/core/plugins.py"
EV = "insights/core/evaluators.py"
R = Ref("Resp")
DATA = Map(STR, PY)

INVALID = ("(not self.response_type or (truthy(self.key_name) and self.key_name in kwargs) or 'type' in kwargs or "
           " (truthy(self.key_name) and (not key or not isinstance(key, str))))")
OTHERS = "forall(o, Ref_Resp, implies(o != self, o.data == old(o.data)))"


def declare(reg):
    reg.sort(Ref_Resp=R, Str=STR, Comp=Comp)
    reg.exc_files.append("insights/core/exceptions.py")
    # a Response is a dict: `data` is its content; response_type / key_name are class attributes (constant per object)
    reg.cls("Resp", pyclasses=["Response", "make_metadata_key", "make_metadata", "_make_skip", "make_none"],
            data=DATA, response_type=PY, key_name=PY, missing=PY, __mapview__="data", __class__=PY)
    reg.external("settings.defaults", returns=Map(STR, INT), pure=True)
    reg.assume("settings.defaults has the key 'max_detail_length' (read from insights/settings.py at import time)")
    reg.axiom("'max_detail_length' in uf('const_settings.defaults', Map(STR, INT))")
    for n in ("log.error", "log.debug", "log.warning", "log.info"):
        reg.external(n, drop=True)
    reg.contract("<builtin>", "dict.__init__", params=dict(self=R, content=DATA), modifies=["Resp.data"], external=True,
                 ensures=["self.data == content", OTHERS], note="dict.__init__(mapping) makes the dict's content that mapping")
    reg.contract(P, "Response._log_length_error", params=dict(self=R, key=PY, length=INT), raises={}, ensures=["True"])
    reg.contract(P, "Response.get_key", params=dict(self=R), returns=PY, pure=True,
                 ensures=["result == ((self.data[self.key_name] if self.key_name in self.data else None) if self.key_name else None)"])
    reg.interface("Resp", "get", params=dict(self=R, k=PY, default=PY), defaults=dict(default="None"), returns=PY, pure=True,
                  ensures=["result == (self.data[k] if k in self.data else default)"])
    reg.interface("Resp", "__getitem__", params=dict(self=R, k=STR), returns=PY,
                  raises={"KeyError": "k not in self.data"}, raise_frame="unchanged", ensures=["result is self.data[k]"])

    reg.contract(P, "Response.validate_kwargs", params=dict(self=R, kwargs=DATA),
                 raises={"ValidationException": "not self.response_type or (truthy(self.key_name) and self.key_name in kwargs) or 'type' in kwargs"},
                 raise_frame="unchanged", ensures=[])
    reg.contract(P, "Response.validate_key", params=dict(self=R, key=PY),
                 raises={"ValidationException": "not key or not isinstance(key, str)"}, raise_frame="unchanged", ensures=[])
    MAXLEN = "uf('const_settings.defaults', Map(STR, INT))['max_detail_length']"
    reg.contract(P, "Response.adjust_for_length", params=dict(self=R, key=PY, r=DATA, kwargs=DATA), returns=DATA,
                 modifies=["r"], raises={},
                 assume=["uf('length_rule_applies', BOOL, self)"],
                 note="objects whose class does not override adjust_for_length have length_rule_applies == True",
                 ensures=["implies(len(str(kwargs)) > %s, result == store(old(r), 'max_detail_length_error', len(str(kwargs))))" % MAXLEN,
                          "implies(not (len(str(kwargs)) > %s), result == kwargs)" % MAXLEN])
    # interface of adjust_for_length seen from Response.__init__ (make_metadata_key overrides it: no length rule)
    reg.interface("Resp", "adjust_for_length", params=dict(self=R, key=PY, r=DATA, kwargs=DATA), returns=DATA, modifies=["r"], raises={},
                  ensures=["implies(uf('length_rule_applies', BOOL, self) and len(str(kwargs)) > %s, "
                           "  result == store(old(r), 'max_detail_length_error', len(str(kwargs))))" % MAXLEN,
                           "implies(not uf('length_rule_applies', BOOL, self) or not (len(str(kwargs)) > %s), result == kwargs)" % MAXLEN])
    KN = "(truthy(self.key_name) and box(k) == self.key_name)"
    reg.contract(P, "Response.__init__", params=dict(self=R, key=PY, kwargs=DATA),
                 assume=["self.key_name is None or isinstance(self.key_name, str)", "self.key_name != 'type'",
                         "self.key_name != 'max_detail_length_error'"],
                 note="key_name is a class attribute: None or a string other than 'type' / 'max_detail_length_error'",
                 modifies=["Resp.data"],
                 ghosts=dict(merged=(DATA, "{}")), locals=dict(merged=DATA, r=DATA),
                 ghost_on=[("kwargs.update(r)", "merged = kwargs", "after")],
                 raises={"ValidationException": INVALID}, raise_frame="unchanged",
                 ensures=[OTHERS,
                          # merged: the keyword arguments plus type and key (exactly)
                          "forall(k, Str, (k in merged) == (k in old(kwargs) or k == 'type' or %s))" % KN,
                          "merged['type'] is self.response_type",
                          "implies(truthy(self.key_name), self.key_name in merged and merged[self.key_name] is key)",
                          "forall(k, Str, implies(k in old(kwargs) and k != 'type' and not %s, merged[k] is old(kwargs)[k]))" % KN,
                          # within the limit: the response is exactly `merged`
                          "implies(not uf('length_rule_applies', BOOL, self) or not (len(str(merged)) > %s), self.data == merged)" % MAXLEN,
                          # over the limit: exactly type, key and the offending length - nothing else survives
                          "implies(uf('length_rule_applies', BOOL, self) and len(str(merged)) > %s, "
                          "  forall(k, Str, (k in self.data) == (k == 'type' or %s or k == 'max_detail_length_error')) and "
                          "  self.data['type'] is self.response_type and self.data['max_detail_length_error'] == len(str(merged)) and "
                          "  implies(truthy(self.key_name), self.data[self.key_name] is key))" % (MAXLEN, KN),
                          ])

    # ------------------------------------------------------------------ subclasses
    reg.contract(P, "make_metadata_key.adjust_for_length", params=dict(self=R, key=PY, r=DATA, kwargs=DATA), returns=DATA, raises={},
                 assume=["not uf('length_rule_applies', BOOL, self)"],
                 note="make_metadata_key overrides the length rule: objects of that class have length_rule_applies == False",
                 ensures=["result == kwargs"])
    CLASS = lambda rt, kn: ["self.response_type == '%s'" % rt, ("self.key_name == '%s'" % kn) if kn else "self.key_name is None"]
    reg.external("dr.stringify_requirements", params=dict(missing=PY), returns=PY, pure=True)
    reg.contract(P, "make_metadata_key.__init__", params=dict(self=R, key=PY, value=PY), modifies=["Resp.data"],
                 assume=CLASS("metadata_key", "key") + ["not uf('length_rule_applies', BOOL, self)"],
                 raises={"ValidationException": "not key or not isinstance(key, str)"}, raise_frame="unchanged",
                 ensures=[OTHERS, "forall(k, Str, (k in self.data) == (k == 'type' or k == 'key' or k == 'value'))",
                          "self.data['type'] == 'metadata_key' and self.data['key'] is key and self.data['value'] is value"])
    reg.contract(P, "make_none.__init__", params=dict(self=R), modifies=["Resp.data"],
                 assume=CLASS("none", "none_key") + ["uf('length_rule_applies', BOOL, self)"],
                 raises={}, ensures=[OTHERS, "self.data['type'] == 'none' and self.data['none_key'] == 'NONE_KEY'",
                                     "forall(k, Str, implies(k in self.data, k == 'type' or k == 'none_key' or k == 'max_detail_length_error'))"])
    reg.contract(P, "_make_skip.__init__", params=dict(self=R, rule_fqdn=PY, missing=PY), modifies=["Resp.data", "Resp.missing"],
                 assume=CLASS("skip", None) + ["uf('length_rule_applies', BOOL, self)"],
                 raises={}, ensures=[OTHERS, "self.missing is missing", "self.data['type'] == 'skip'",
                                     "forall(o, Ref_Resp, implies(o != self, o.missing is old(o.missing)))",
                                     # unless the stub replaces it, the skip names the rule and carries the rendered missing requirements
                                     "implies('max_detail_length_error' not in self.data, self.data['rule_fqdn'] is rule_fqdn and "
                                     "  self.data['reason'] == 'MISSING_REQUIREMENTS')"])
    reg.contract(P, "make_metadata.__init__", params=dict(self=R, kwargs=DATA), modifies=["Resp.data"],
                 assume=CLASS("metadata", None) + ["uf('length_rule_applies', BOOL, self)"],
                 raises={"ValidationException": "'type' in kwargs"}, raise_frame="unchanged",
                 ensures=[OTHERS, "self.data['type'] == 'metadata'",
                          "implies('max_detail_length_error' not in self.data, forall(k, Str, implies(k in old(kwargs), k in self.data and self.data[k] is old(kwargs)[k])))"])

    # ------------------------------------------------------------------ evaluator
    E = Ref("Evaluator")
    ENTRY = DATA
    reg.sort(Ref_Eval=E)
    reg.cls("Evaluator", pyclasses=["SingleEvaluator"], results=Map(PY, List(ENTRY)), rule_skips=List(R), metadata=DATA,
            metadata_keys=Map(PY, PY), hostname=PY)
    reg.defaultdicts = getattr(reg, "defaultdicts", {})
    reg.defaultdicts["Evaluator.results"] = "[]"
    reg.cls("Delegate", links=PY)
    reg.external("get_simple_module_name", params=dict(c=Comp), returns=STR, pure=True)
    reg.external("dr.get_name", params=dict(c=Comp), returns=STR, pure=True, ensures=["result == uf('name_of', STR, c)"])
    reg.external("dr.get_tags", params=dict(c=Comp), returns=Set(STR), pure=True, ensures=["result == uf('tags_of', Set(STR), c)"])
    reg.external("dr.get_delegate", params=dict(c=Comp), returns=Ref("Delegate"), pure=True, ensures=["result == uf('delegate_of', Ref('Delegate'), c)"])
    reg.contract(EV, "Evaluator.format_result", params=dict(self=E, result=ENTRY), returns=ENTRY, pure=True, raises={}, ensures=["result == result"])
    EOTHERS = ("forall(o, Ref_Eval, implies(o != self, o.results == old(o.results) and o.rule_skips == old(o.rule_skips) and "
               "o.metadata == old(o.metadata) and o.metadata_keys == old(o.metadata_keys)))")
    reg.contract(EV, "SingleEvaluator.append_metadata", params=dict(self=E, r=R), modifies=["Evaluator.metadata"],
                 loops={0: ["forall(j, range(0, i_0), it_0[j][0] == 'type' or (it_0[j][0] in self.metadata and self.metadata[it_0[j][0]] is it_0[j][1]))",
                            "forall(k, Str, implies(k not in r.data or k == 'type', (k in self.metadata) == (k in old(self.metadata)) and self.metadata[k] is old(self.metadata)[k]))",
                            "forall(o, Ref_Eval, implies(o != self, o.metadata == old(o.metadata)))"]},
                 raises={},
                 ensures=["forall(k, Str, implies(k in r.data and k != 'type', k in self.metadata and self.metadata[k] is r.data[k]))",
                          "forall(k, Str, implies(k not in r.data or k == 'type', (k in self.metadata) == (k in old(self.metadata)) and self.metadata[k] is old(self.metadata)[k]))",
                          "forall(o, Ref_Eval, implies(o != self, o.metadata == old(o.metadata)))"])
    T = "r.data['type']"
    OTHER_TYPE = "(%s != 'skip' and %s != 'metadata' and %s != 'metadata_key')" % (T, T, T)
    NEWLEN = "len(self.results[%s]) == len(res_of(old(self.results), %s)) + 1" % (T, T)
    LAST = "self.results[%s][len(self.results[%s]) - 1]" % (T, T)
    reg.specfun("res_of", dict(m=Map(PY, List(ENTRY)), t=PY), List(ENTRY), "m[t] if t in m else uf('no_entries', List(Map(STR, PY)))")
    reg.axiom("len(uf('no_entries', List(Map(STR, PY)))) == 0")
    reg.contract(EV, "SingleEvaluator.handle_result", params=dict(self=E, plugin=Comp, r=R),
                 requires=["'type' in r.data"],
                 assume=["r.response_type is None or isinstance(r.response_type, str)", "r.key_name is None or isinstance(r.key_name, str)"],
                 modifies=["Evaluator.results", "Evaluator.rule_skips", "Evaluator.metadata", "Evaluator.metadata_keys"],
                 raises={"KeyError": "r.data['type'] == 'metadata_key' and 'value' not in r.data"},
                 ensures=[EOTHERS,
                          # a skip: appended once to the skips, nothing else
                          "implies(%s == 'skip', len(self.rule_skips) == len(old(self.rule_skips)) + 1 and self.rule_skips[len(self.rule_skips) - 1] == r and "
                          "  forall(j, range(0, len(old(self.rule_skips))), self.rule_skips[j] == old(self.rule_skips)[j]) and "
                          "  self.results == old(self.results) and self.metadata == old(self.metadata) and self.metadata_keys == old(self.metadata_keys))" % T,
                          "implies(%s != 'skip', self.rule_skips == old(self.rule_skips))" % T,
                          # metadata: merged (all keys except type)
                          "implies(%s == 'metadata', self.results == old(self.results) and self.metadata_keys == old(self.metadata_keys) and "
                          "  forall(k, Str, implies(k in r.data and k != 'type', k in self.metadata and self.metadata[k] is r.data[k])))" % T,
                          "implies(%s != 'metadata', self.metadata == old(self.metadata))" % T,
                          # metadata_key: one entry
                          "implies(%s == 'metadata_key', self.results == old(self.results) and "
                          "  self.metadata_keys == store(old(self.metadata_keys), r.get_key(), r.data['value']))" % T,
                          "implies(%s != 'metadata_key', self.metadata_keys == old(self.metadata_keys))" % T,
                          # anything else: exactly one entry appended under its own type
                          "implies(%s, %s in self.results and %s)" % (OTHER_TYPE, T, NEWLEN),
                          "implies(%s, forall(j, range(0, len(res_of(old(self.results), %s))), self.results[%s][j] == res_of(old(self.results), %s)[j]))" % (OTHER_TYPE, T, T, T),
                          "implies(%s, forall(t, PyT, implies(t != %s, (t in self.results) == (t in old(self.results)) and "
                          "   implies(t in self.results, self.results[t] == old(self.results)[t]))))" % (OTHER_TYPE, T),
                          "implies(%s, %s['type'] is %s and %s['key'] is r.get_key() and %s['component'] == uf('name_of', STR, plugin) and "
                          "   %s['details'] == box(r) and 'tags' in %s and 'links' in %s)" % (OTHER_TYPE, LAST, T, LAST, LAST, LAST, LAST, LAST),
                          ])
    reg.sort(PyT=PY)

    # ------------------------------------------------------------------ Evaluator.observer (needs the dr sidecar for Broker)
    from contracts.dr import Val
    reg.cls("Evaluator", context_cls=Opt(Comp), broker=Ref("Broker"))
    reg.cls("Val", fqdn=PY)
    reg.glob(EV, combiner_hostname=Comp, ExecutionContext=U("Type"))
    reg.external("plugins.is_rule", params=dict(c=Comp), returns=BOOL, pure=True, ensures=["result == uf('is_rule', BOOL, c)"])
    reg.specfun("resp_of", dict(v=Val), R, None)
    reg.coercions = getattr(reg, "coercions", {})
    reg.coercions[(Val.key, R.key)] = "resp_of"
    reg.interface("Evaluator", "handle_result", params=dict(self=E, plugin=Comp, r=R), requires=["'type' in r.data"],
                  modifies=["Evaluator.results", "Evaluator.rule_skips", "Evaluator.metadata", "Evaluator.metadata_keys"],
                  raises={"Exception": None})
    reg.contract(EV, "Evaluator.observer", params=dict(self=E, comp=Comp, broker=Ref("Broker")),
                 assume=["forall(c, broker.instances, broker.instances[c] is not None)",
                         "forall(c, broker.instances, 'type' in resp_of(some(broker.instances[c])).data)"],
                 note="values stored for rules are Response objects (rule.process guarantees it), never None; every Response carries "
                      "'type' (postcondition of Response.__init__)",
                 modifies=["Evaluator.results", "Evaluator.rule_skips", "Evaluator.metadata", "Evaluator.metadata_keys",
                           "Evaluator.context_cls", "Evaluator.hostname"],
                 ghosts=dict(ncalls=(INT, "0")), locals=dict(ncalls=INT),
                 ghost_on=[("self.handle_result(comp, broker[comp])", "ncalls = ncalls + 1", "before")],
                 loops={0: ["self.results == old(self.results) and self.rule_skips == old(self.rule_skips) and self.metadata == old(self.metadata) "
                            "and self.metadata_keys == old(self.metadata_keys) and ncalls == 0",
                            "forall(o, Ref_Eval, implies(o != self, o.results == old(o.results) and o.rule_skips == old(o.rule_skips) and "
                            "  o.metadata == old(o.metadata) and o.metadata_keys == old(o.metadata_keys) and o.context_cls == old(o.context_cls) and o.hostname is old(o.hostname)))"]},
                 raises={"Exception": "?uf('is_rule', BOOL, comp) and comp in broker.instances"},
                 ensures=[
                     # a result is dispatched exactly when the component is a rule that has a value in the broker
                     "ncalls == (1 if (uf('is_rule', BOOL, comp) and comp in broker.instances) else 0)",
                     "implies(not (uf('is_rule', BOOL, comp) and comp in broker.instances), self.results == old(self.results) and "
                     "  self.rule_skips == old(self.rule_skips) and self.metadata == old(self.metadata) and self.metadata_keys == old(self.metadata_keys))"])

    # ------------------------------------------------------------------ formatter-level filtering of response types
    F = "insights/formats/__init__.py"
    reg.opaque_methods = {"pop"}
    NOTIN = lambda t: "uf('py_contains', BOOL, show_rules, box('%s')) == False" % t
    DROP = ("((k == 'skips' and not missing) or (not show_rules and k == 'none') or (truthy(show_rules) and ("
            "(k == 'reports' and not ('rule' in show_rules)) or (k == 'info' and not ('info' in show_rules)) or "
            "(k == 'pass' and not ('pass' in show_rules)) or (k == 'none' and not ('none' in show_rules)) or "
            "(k == 'fingerprints' and not ('fingerprint' in show_rules)))))")
    reg.contract(F, "get_response_of_types", params=dict(response=DATA, missing=BOOL, show_rules=PY), returns=DATA,
                 modifies=["response"], raises={"KeyError": "?False"},
                 ensures=[
                     # never adds a heading, never alters one it keeps, removes exactly the headings not requested
                     "forall(k, Str, (k in result) == (k in old(response) and not %s))" % DROP,
                     "forall(k, Str, implies(k in result, result[k] is old(response)[k]))",
                 ])
