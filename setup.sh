#!/bin/sh
# offline setup: byte-compile the engine and run its self-test fixtures
cd "$(dirname "$0")" || exit 1
python3-vt -m compileall -q pyvc contracts props >/dev/null || exit 1
python3-vt -c "import sys; sys.path.insert(0,'.'); import pyvc.selftest as s; sys.exit(s.main())"
