"""Native replay for C17 obligations (run under /venv/bin/python with cwd = the repository).
exit 1: the failing behaviour reproduces on the real code; exit 0: it does not."""
import argparse, os, sys, tempfile, shutil
sys.path.insert(0, os.getcwd())
ap = argparse.ArgumentParser(); ap.add_argument("--obligation", default=""); ap.add_argument("--model", default="{}")
a = ap.parse_args()
from insights.client import utilities
if "generate_machine_id/post:E3" in a.obligation:
    # stability clause with the parent directory of the identifier file absent
    tmp = tempfile.mkdtemp(prefix="c17_", dir="/var/tmp" if os.path.isdir("/var/tmp") else None)
    try:
        dest = os.path.join(tmp, "nonexistent_dir", "machine-id")
        utilities._get_rhsm_identity = lambda: None
        first = utilities.generate_machine_id(destination_file=dest)
        second = utilities.generate_machine_id(destination_file=dest)
        print("parent directory absent: first read", first, "second read", second, "file exists:", os.path.exists(dest))
        sys.exit(1 if first != second else 0)
    finally:
        shutil.rmtree(tmp, ignore_errors=True)
print("no native scenario for", a.obligation)
sys.exit(0)
