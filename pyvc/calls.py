"""Calls: specification forms, builtins, container methods, contracted callees, closures, iteration."""
import ast
import collections
import z3
from . import core
from .core import (CTX, V, NONEV, INT, BOOL, STR, NONE, PY, EXC, REAL, U, List, Set, Map, Opt, Tup, Ref, Fn,
                   OutsideSubset, fresh, wf, truthy, coerce, mk_int, mk_bool, mk_str, mk_tuple)
from .state import State, Outcome, CLOSURE, EMPTY_LIST, EMPTY_DICT, EMPTY_SET, MODULE, STATIC

MUTATORS = {"append", "extend", "add", "discard", "remove", "update", "pop", "insert", "clear", "sort",
            "reverse", "setdefault", "popitem", "appendleft", "popleft", "difference_update"}


class CallMixin(object):

    def ex_Call(self, e, st):
        f = e.func
        if not any(isinstance(a, ast.Starred) for a in e.args) and sum(1 for k in e.keywords if k.arg is None) == 1 and \
                isinstance(f, ast.Attribute) and isinstance(f.value, ast.Call) and isinstance(f.value.func, ast.Name) and f.value.func.id == "super":
            # super().m(a, **kwargs): the mapping is handed to the callee's **kwargs parameter
            e2 = ast.copy_location(ast.Call(func=f, args=e.args, keywords=[ast.keyword(arg="**" if k.arg is None else k.arg, value=k.value) for k in e.keywords]), e)
            return self.call_super(f.attr, e2, st)
        if not any(isinstance(a, ast.Starred) for a in e.args) and sum(1 for k in e.keywords if k.arg is None) == 1 and \
                isinstance(f, ast.Attribute) and not getattr(e, "_kwpass", False):
            # obj.m(a, **mapping): the mapping is handed to the callee's **kwargs parameter
            e2 = ast.copy_location(ast.Call(func=f, args=e.args, keywords=[ast.keyword(arg="**" if k.arg is None else k.arg, value=k.value) for k in e.keywords]), e)
            e2._kwpass = True
            try:
                return self.ex_Call(e2, st)
            except OutsideSubset:
                pass
        if any(isinstance(a, ast.Starred) for a in e.args) or any(k.arg is None for k in e.keywords):
            return self.call_starred(e, st)
        # ---- specification forms / builtins by name (in specifications they win over a local of the same name)
        if isinstance(f, ast.Name) and (self.in_spec or self.ghost_depth > 0) and \
                (getattr(self, "sf_" + f.id, None) is not None or f.id in self.reg.specfuns):
            if getattr(self, "sf_" + f.id, None) is not None:
                return [(st, getattr(self, "sf_" + f.id)(e, st))]
            return [(st, self.call_specfun(f.id, e, st))]
        if isinstance(f, ast.Name) and self.lookup(f.id, st) is None:
            name = f.id
            sf = getattr(self, "sf_" + name, None)
            if sf is not None and (self.in_spec or self.ghost_depth > 0 or name in ("old",)):
                return [(st, sf(e, st))]
            if name in self.reg.specfuns and self.in_spec:
                return [(st, self.call_specfun(name, e, st))]
            bf = getattr(self, "bi_" + name, None)
            if bf is not None:
                return bf(e, st)
            c = self.find_function_contract(name)
            if c is not None:
                return self.call_with_args(c, None, e, st)
            if self.is_exc_class(name):
                return self.ev_exception(e, st)
            ext = self.reg.externals.get(name)
            if ext is not None:
                return self.call_external(ext, e, st)
            raise OutsideSubset("call of unknown function %s" % name)
        if isinstance(f, ast.Name):
            fv = self.lookup(f.id, st)
            if fv.ty is CLOSURE:
                return self.call_closure(fv, e, st)
            if isinstance(fv.ty, Fn):
                res = []
                for st1, args in self.ev_list(e.args, st):
                    res.extend(self.apply_fn(fv, args, st1, e))
                return res
            if fv.ty is MODULE and fv.items and self.reg.externals.get(fv.items[0]) not in (None, "drop"):
                return self.call_with_args(self.reg.externals[fv.items[0]], None, e, st)      # a variable holding an external function
            if isinstance(fv.ty, Opt) and isinstance(fv.ty.elem, U) and fv.ty.elem.name in getattr(self.reg, "callable_sorts", {}):
                # calling an optional callable: None is not callable (TypeError)
                if self.in_spec:
                    if getattr(self, "comp_collect", None) is not None:
                        self.comp_collect.append(("TypeError", core.ois_none(fv)))      # inside a comprehension / any / all executed as code
                    return self.call_with_args(self.reg.callable_sorts[fv.ty.elem.name], core.oval(fv), e, st)
                bad, ok = self.fork(st, core.ois_none(fv), getattr(e, "lineno", None), "none-call")
                if bad is not None:
                    self.do_raise(bad, "TypeError")
                if ok is None:
                    return []
                return self.call_with_args(self.reg.callable_sorts[fv.ty.elem.name], core.oval(fv), e, ok)
            cs = getattr(self.reg, "callable_sorts", {}).get(fv.ty.name) if isinstance(fv.ty, U) else None
            if cs is not None:
                return self.call_with_args(cs, fv, e, st)
            raise OutsideSubset("call of value of type %r" % (fv.ty,))
        if isinstance(f, ast.Attribute) and self.dotted(f, st) == "itertools.takewhile" and len(e.args) == 2:
            return self.takewhile(e, st)
        if isinstance(f, ast.Attribute) and self.dotted(f, st) in ("chain.from_iterable", "itertools.chain.from_iterable") and len(e.args) == 1:
            return [(st1, core.concat_all(seq)) for st1, seq in self.ev_iter(e.args[0], st)]
        if isinstance(f, ast.Attribute):
            d = self.dotted(f, st)
            if d is not None and isinstance(f.value, ast.Attribute):
                dv = self.dotted(f.value, st)
                vext = self.reg.externals.get(dv) if dv is not None else None
                if dv is not None and (getattr(self.reg, "dotted_globals", {}).get(dv) in st.glob or self.module_constant(dv, st) is not None
                                       or (vext is not None and vext != "drop" and not vext.params and vext.returns is not NONE)):
                    d = None        # method call on a module-qualified global / constant
            if d is not None:
                ext = self.reg.externals.get(d)
                if ext is None:
                    # log.*, logger.* are dropped by declaration in the sidecar; anything else is outside
                    raise OutsideSubset("call of undeclared external %s" % d)
                return self.call_external(ext, e, st)
            # super().m(...)
            if isinstance(f.value, ast.Call) and isinstance(f.value.func, ast.Name) and f.value.func.id == "super":
                return self.call_super(f.attr, e, st)
            res = []
            for st1, recv in self.ev(f.value, st):
                for st2, args in self.ev_list(e.args, st1):
                    for st3, kwv in self.ev_list([k.value for k in e.keywords], st2):
                        kw = dict(zip([k.arg for k in e.keywords], kwv))
                        res.extend(self.method(recv, f.attr, args, kw, st3, e, f.value))
            return res
        if isinstance(f, ast.Lambda):
            return self.call_closure(V(CLOSURE, None, (f, dict(st.env), "<lambda>")), e, st)
        if isinstance(f, (ast.Call, ast.Subscript, ast.IfExp)):
            res = []
            for st1, fv in self.ev(f, st):
                if fv.ty is CLOSURE:
                    res.extend(self.call_closure(fv, e, st1))
                elif fv.ty is MODULE and fv.items[0] in ("sorted", "list"):
                    e2 = ast.copy_location(ast.Call(func=ast.Name(id=fv.items[0], ctx=ast.Load()), args=e.args, keywords=e.keywords), e)
                    res.extend(self.ev(e2, st1))
                else:
                    raise OutsideSubset("call of computed function")
            return res
        raise OutsideSubset("call form")

    def takewhile(self, e, st):
        """itertools.takewhile(pred, seq): the longest prefix of seq whose elements satisfy pred (pred: a total lambda)."""
        res = []
        for st1, fv in self.ev(e.args[0], st):
            if fv.ty is not CLOSURE:
                raise OutsideSubset("takewhile with a non-lambda predicate")
            for st2, seq in self.ev_iter(e.args[1], st1):
                if seq.ty is STATIC:
                    raise OutsideSubset("takewhile over a static sequence")
                st2 = st2.copy()

                def pred(j, st2=st2, seq=seq, fv=fv):
                    self.spec_depth += 1
                    n0 = len(self.spec_defs)
                    try:
                        outs = self.apply_closure(fv, [core.lget(seq, j)], {}, st2.copy(), e)
                        if len(outs) != 1:
                            raise OutsideSubset("takewhile predicate is not total")
                        self.no_defs_under_binder(n0)
                        return truthy(outs[0][1])
                    finally:
                        self.spec_depth -= 1
                r = fresh(seq.ty, "takewhile")
                m = core.llen(r)
                st2.assume(m >= 0, m <= core.llen(seq),
                           core.forall_int(0, m, lambda j: z3.And(z3.Select(core.larr(r), j) == z3.Select(core.larr(seq), j), pred(j))),
                           z3.Or(m == core.llen(seq), z3.Not(pred(m))))
                res.append((st2, r))
        return res

    def call_super(self, mname, e, st):
        """super(...).m(...): resolved through the class statements of the module (first base that has a contract)."""
        cls = self.pyclass
        seen = set()
        work = [cls]
        target = None
        while work and target is None:
            cname = work.pop(0)
            if cname in seen:
                continue
            seen.add(cname)
            cdef = [c for c in self.module.classes() if c.name == cname]
            if not cdef:
                continue
            for b in cdef[0].bases:
                bname = b.id if isinstance(b, ast.Name) else (b.attr if isinstance(b, ast.Attribute) else None)
                if bname is None:
                    continue
                cands = [c for (m, q), c in self.reg.contracts.items() if q == "%s.%s" % (bname, mname)]
                if cands:
                    target = cands[0]
                    break
                work.append(bname)
        if target is None:
            raise OutsideSubset("super().%s: no contracted base method found" % mname)
        recv = self.lookup("self", st)
        return self.call_with_args(target, recv, e, st)

    def call_starred(self, e, st):
        """f(*args) where f is an opaque callable field declared in reg.callables (component bodies)."""
        f = e.func
        callables = getattr(self.reg, "callables", {})
        if (isinstance(f, ast.Attribute) and len(e.args) >= 1 and isinstance(e.args[-1], ast.Starred) and not e.keywords
                and not any(isinstance(a, ast.Starred) for a in e.args[:-1])):
            res = []
            for st1, obj in self.ev(f.value, st):
                if isinstance(obj.ty, Ref) and (obj.ty.cls, f.attr) in callables:
                    c = callables[(obj.ty.cls, f.attr)]
                    c = c[0] if isinstance(c, list) else c
                    fld = self.heap_get(st1, obj, f.attr)
                    for st1b, lead in self.ev_list(e.args[:-1], st1):
                        for st2, seq in self.ev_iter(e.args[-1].value, st1b):
                            res.extend(self.call_contract(c, [fld] + lead + [seq], {}, st2, None))
                else:
                    raise OutsideSubset("*args call of undeclared callable")
            return res
        if isinstance(f, ast.Attribute) and f.attr in getattr(self.reg, "opaque_methods", ()):
            res = []
            for st1, obj in self.ev(f.value, st):
                if obj.ty is PY:
                    self.notes.append("starred call .%s(*..., **...) on an opaque object: no modelled effect, assumed not to raise" % f.attr)
                    res.append((st1, fresh(PY, "opq_" + f.attr)))
                else:
                    raise OutsideSubset("*args call on %r" % (obj.ty,))
            return res
        raise OutsideSubset("*args / **kwargs call")

    def find_function_contract(self, name):
        if self.module is None:
            return None
        c = self.reg.contracts.get((self.module.rel, name))
        if c is not None and c.verify_only:
            return None
        if c is not None:
            return c
        # imported name: look for a unique contract with that function name
        cands = [c for (m, q), c in self.reg.contracts.items() if q == name and not c.verify_only]
        return cands[0] if len(cands) == 1 else None

    def call_external(self, ext, e, st):
        if ext == "drop":
            # the call itself has no effect, but its arguments are evaluated (they may call things that raise)
            mark, n_obl = len(self.raised), len(self.obls)
            try:
                outs = self.ev_list(list(e.args) + [k.value for k in e.keywords], st)
                return [(st1, NONEV) for st1, _ in outs]
            except OutsideSubset as ex:
                del self.raised[mark:]
                del self.obls[n_obl:]
                self.notes.append("arguments of dropped call %s not evaluated (%s)" % (ast.unparse(e.func), str(ex.args[0])[:80]))
                return [(st, NONEV)]
        return self.call_with_args(ext, None, e, st)

    def call_with_args(self, c, recv, e, st):
        res = []
        for st1, args in self.ev_list(e.args, st):
            for st2, kwv in self.ev_list([k.value for k in e.keywords], st1):
                kw = dict(zip([k.arg for k in e.keywords], kwv))
                res.extend(self.call_contract(c, ([recv] if recv is not None else []) + args, kw, st2, e))
        return res

    def call_method(self, recv, mname, args, kw, st, node):
        c = self.reg.methods.get((recv.ty.cls, mname))
        if c is None:
            raise OutsideSubset("no contract for %s.%s" % (recv.ty.cls, mname))
        return self.call_contract(c, [recv] + list(args), kw, st, node)

    # ------------------------------------------------------------------------------------------
    # calling a contract
    # ------------------------------------------------------------------------------------------
    def bind_params(self, c, args, kw, st):
        names = list(c.params)
        if len(args) > len(names):
            raise OutsideSubset("too many arguments for %s" % c.qualname)
        bound = {}
        for n, a in zip(names, args):
            bound[n] = a
        extra = collections.OrderedDict()
        for k, v in kw.items():
            if k == "**":
                bound["kwargs"] = v
            elif k in c.free:
                bound[k] = self.adapt(v, c.free[k])      # free variable of a nested function (ghost parameter)
            elif k not in c.params:
                if "kwargs" in c.params and isinstance(c.params["kwargs"], Map):
                    extra[k] = v            # collected by the callee's **kwargs
                else:
                    raise OutsideSubset("unknown keyword %s for %s" % (k, c.qualname))
            else:
                bound[k] = v
        if extra:
            mt = c.params["kwargs"]
            m = bound.get("kwargs") or core.mempty(mt.k, mt.v)
            for k, v in extra.items():
                m = core.mstore(m, mk_str(k), self.adapt(v, mt.v))
            bound["kwargs"] = m
        elif "kwargs" in c.params and "kwargs" not in bound and isinstance(c.params["kwargs"], Map):
            bound["kwargs"] = core.mempty(c.params["kwargs"].k, c.params["kwargs"].v)
        for n in names:
            if n not in bound:
                if n in c.defaults:
                    bound[n] = self.spec(c.defaults[n], State())
                else:
                    raise OutsideSubset("missing argument %s for %s" % (n, c.qualname))
            bound[n] = self.store_form(st, self.adapt(bound[n], c.params[n]), c.params[n]) if c.params[n] is not None else bound[n]
        return bound

    def call_contract(self, c, args, kw, st, node):
        line = getattr(node, "lineno", None)
        st = st.copy()
        bound = self.bind_params(c, args, kw, st)
        pre = State()
        pre.env = dict(bound)
        pre.heap = st.heap
        pre.glob = st.glob
        pre.old = pre
        pre.pc = st.pc      # shared: definitional facts introduced by contract clauses land in the caller state
        # materialise heap arrays mentioned lazily: share dict so that lazily created arrays are seen by both
        if not self.in_spec:
            for idx, text in enumerate(c.requires):
                g = self.spec_bool(text, pre)
                self.oblige(st, "pre@call", "%s#%d@%s" % (c.qualname, idx, _callsite(node, self)), text, g, line)
        results = []
        collect = getattr(self, "comp_collect", None) if self.in_spec else None
        if c.pure or (collect is not None and not c.modifies):
            # a pure callee whose contract fixes the result is used as that expression (no fresh symbol); inside the element of a
            # comprehension executed as CODE the same holds for a callee that may raise: its raise conditions are collected, the
            # comprehension raises iff one of them holds at some position that passes the filter
            for text in (c.call_ensures if c.call_ensures is not None else c.ensures):
                t = text.strip()
                if t.startswith("result == "):
                    if collect is not None and not c.pure:
                        for ename, cond in c.raises.items():
                            if cond is None or cond.startswith("?"):
                                raise OutsideSubset("call of %s inside a comprehension: it may raise at unspecified times" % c.qualname)
                            collect.append((ename, self.spec_bool(cond, pre)))
                    v = self.spec(t[len("result == "):], pre)
                    if c.returns is BOOL:
                        v = V(BOOL, truthy(v))
                    return [(st, self.adapt(v, c.returns if c.yields is None else List(c.yields)))]
        # ---- exceptional outcomes
        if not self.in_spec:
            for ename, cond in c.raises.items():
                rs = st.copy()
                if cond is not None:
                    ctext = cond[1:] if cond.startswith("?") else cond
                    rs.assume(self.spec_bool(ctext, pre))
                if not self.feasible(rs):
                    continue
                if c.raise_frame != "unchanged":
                    self.havoc_modifies(c, rs, bound, args, node)
                exc = self.new_exc(ename, rs, exact=False)
                post = State()
                post.env = dict(bound)
                post.env["exc"] = exc
                post.heap, post.glob, post.old = rs.heap, rs.glob, pre
                post.pc = rs.pc
                for gname, (gty, _init) in list(c.ghosts.items()) + list(c.ghost_final.items()):
                    gv = fresh(gty, gname)
                    rs.assume(*wf(gv))
                    post.env[gname] = gv
                self._rebind_inout(c, rs, post, bound, node)
                for text in c.ensures_raise.get(ename, []):
                    rs.assume(self.spec_bool(text, post))
                rs.note(line, "raise:%s:%s" % (c.qualname, ename))
                self.raised.append((rs, exc))
        # ---- normal outcome
        ns = st
        for ename, cond in c.raises.items():
            if cond is not None and not cond.startswith("?"):
                ns.assume(z3.Not(self.spec_bool(cond, pre)))
        pre_heap = dict(st.heap)
        pre.heap = pre_heap
        pre_glob = dict(st.glob)
        pre.glob = pre_glob
        self.havoc_modifies(c, ns, bound, args, node)
        if c.yields is not None:
            res = fresh(List(c.yields), "gen_" + c.qualname.split(".")[-1])
        else:
            res = fresh(c.returns, "r_" + c.qualname.split(".")[-1])
        ns.assume(*wf(res))
        post = State()
        post.env = dict(bound)
        post.env["result"] = res
        post.heap, post.glob, post.old = ns.heap, ns.glob, pre
        post.pc = ns.pc
        self._rebind_inout(c, ns, post, bound, node)
        for gname, (gty, _init) in list(c.ghosts.items()) + list(c.ghost_final.items()):
            if gname in c.ghost_final and _init.strip() == "result" and res.ty == gty:
                gv = res                    # the ghost result *is* the returned value
            else:
                gv = fresh(gty, gname)
                ns.assume(*wf(gv))
            post.env[gname] = gv
            ns.env["%s_%s" % (c.qualname.split(".")[-1], gname)] = gv      # visible to the caller's invariants
        for text in (c.call_ensures if c.call_ensures is not None else c.ensures):
            ns.assume(self.spec_bool(text, post))
        if not self.feasible(ns):
            return results
        results.append((ns, res))
        return results

    def havoc_modifies(self, c, st, bound, args, node):
        for m in c.modifies:
            if m in c.params:
                continue        # in/out parameter: handled by _rebind_inout
            if "." in m:
                cls, f = m.split(".", 1)
                self.heap_arr(st, cls, f)
                ty = self.field_ty(cls, f)
                st.heap[m] = z3.Const(CTX.fresh("H_" + m), z3.ArraySort(CTX.sort(Ref(cls)), CTX.sort(ty)))
                self.heap_wf(st.heap[m], cls, ty, st.pc)
                st.wrote("h", m)
            elif m in st.glob:
                nv = fresh(st.glob[m].ty, m)
                st.assume(*wf(nv))
                st.glob[m] = nv
                st.wrote("g", m)
            else:
                raise OutsideSubset("modifies entry %s of %s is neither field, global nor parameter" % (m, c.qualname))

    def _rebind_inout(self, c, st, post, bound, node):
        """In/out container parameters: fresh value written back to the argument's place."""
        for m in c.modifies:
            if m not in c.params:
                continue
            idx = list(c.params).index(m)
            nv = fresh(c.params[m], m)
            st.assume(*wf(nv))
            post.env[m] = nv
            argnode = None
            if node is not None and isinstance(node, ast.Call):
                off = 1 if (isinstance(node.func, ast.Attribute) and "self" in c.params and list(c.params)[0] == "self"
                            and self.dotted(node.func, st) is None) else 0
                if idx - off < len(node.args) and idx - off >= 0:
                    argnode = node.args[idx - off]
                elif idx == 0 and off == 1:
                    argnode = node.func.value
                else:
                    for k in node.keywords:
                        if k.arg == m:
                            argnode = k.value
            if argnode is None and node is None and m in st.env:
                argnode = ast.Name(id=m, ctx=ast.Load())        # refinement check: parameters are the environment
            if argnode is None and m in c.defaults:
                continue        # argument omitted: the callee mutates its own default / temporary
            if argnode is None:
                raise OutsideSubset("in/out parameter %s of %s: argument is not a place" % (m, c.qualname))
            sts = self.assign(_as_store(argnode), nv, st, None, inplace=True)
            assert len(sts) == 1
            st.env, st.heap, st.glob, st.alias = sts[0].env, sts[0].heap, sts[0].glob, sts[0].alias
            st.pc[:] = sts[0].pc
            post.heap, post.glob = st.heap, st.glob

    # ------------------------------------------------------------------------------------------
    # closures (nested defs, lambdas): inlined
    # ------------------------------------------------------------------------------------------
    def call_closure(self, fv, e, st):
        res = []
        for st1, args in self.ev_list(e.args, st):
            for st2, kwv in self.ev_list([k.value for k in e.keywords], st1):
                kw = dict(zip([k.arg for k in e.keywords], kwv))
                res.extend(self.apply_closure(fv, args, kw, st2, e))
        return res

    def apply_closure(self, fv, args, kw, st, node):
        fn, defenv, name = fv.items
        # contract for the nested function?
        if isinstance(fn, ast.FunctionDef) and self.contract is not None:
            c = self.reg.contracts.get((self.module.rel, "%s.<locals>.%s" % (self.contract.qualname, fn.name)))
            if c is None and self.contract.qualname.endswith("<locals>." + fn.name):
                c = self.contract       # recursive call of the nested function under verification
            if c is None and ".<locals>." in self.contract.qualname:
                c = self.reg.contracts.get((self.module.rel, "%s.<locals>.%s" % (self.contract.qualname.rsplit(".<locals>.", 1)[0], fn.name)))
            if c is not None and not c.inline:
                # free variables are passed as extra (ghost) parameters taken from the current environment
                extra = dict((k, self.lookup(k, st)) for k in c.free)
                kw2 = dict(kw)
                kw2.update(extra)
                return self.call_contract(c, args, kw2, st, node)
        if self.call_depth > 6:
            raise OutsideSubset("closure recursion too deep (needs a contract)")
        a = fn.args
        params = [p.arg for p in a.args]
        frame = st.copy()
        saved = dict(st.env)
        if defenv is not None:
            frame.env = dict(defenv)
        vals = {}
        for p, v in zip(params, args):
            vals[p] = v
        for k, v in kw.items():
            vals[k] = v
        ndef = len(a.defaults)
        for p, dnode in zip(params[len(params) - ndef:], a.defaults):
            if p not in vals:
                vals[p] = self.ev1(dnode, frame)
        for p in params:
            if p not in vals:
                raise OutsideSubset("missing argument %s in call of nested function %s" % (p, name))
            frame.env[p] = vals[p]
        self.call_depth += 1
        saved_spec = self.spec_depth
        try:
            res = []
            if isinstance(fn, ast.Lambda):
                for st1, v in self.ev(fn.body, frame):
                    res.append((self._restore(st1, saved, params, frame), v))
                return res
            for o in self.exec_block(fn.body, frame):
                if o.kind in ("normal", "return"):
                    res.append((self._restore(o.st, saved, params, frame), o.val if o.kind == "return" else NONEV))
                elif o.kind == "raise":
                    self.raised.append((self._restore(o.st, saved, params, frame), o.val))
                else:
                    raise OutsideSubset("break/continue escaping nested function")
            return res
        finally:
            self.call_depth -= 1

    def _restore(self, st, saved, params, frame):
        st = st.copy()
        # closures share the heap and globals; locals of the callee are discarded
        written_outer = {}
        st.env = dict(saved)
        return st

    # ------------------------------------------------------------------------------------------
    # places and aliases
    # ------------------------------------------------------------------------------------------
    def place_of(self, node, st):
        """A syntactic place (name / attribute chain / subscript with simple key) for alias tracking."""
        if isinstance(node, ast.Attribute) and self.dotted(node, st) is None:
            return ("attr", ast.unparse(node))
        if isinstance(node, ast.Subscript):
            return ("sub", ast.unparse(node))
        return None

    # ------------------------------------------------------------------------------------------
    # methods on modelled sorts
    # ------------------------------------------------------------------------------------------
    def method(self, recv, name, args, kw, st, node, recv_node):
        ty = recv.ty
        if isinstance(ty, Ref):
            c = self.reg.methods.get((ty.cls, name))
            if c is not None and getattr(c, "static", False):
                return self.call_contract(c, args, kw, st, node)        # staticmethod called through an instance
            if c is None and name in ("items", "keys", "values") and self.reg.classes[ty.cls].get("__mapview__"):
                # a dict subclass: the view methods are those of its content map
                inner = self.heap_get(st, recv, self.reg.classes[ty.cls]["__mapview__"])
                return self.method(inner, name, args, kw, st, node, None)
            if c is None:
                cands = getattr(self.reg, "callables", {}).get((ty.cls, name))
                if cands is not None:
                    # opaque callable stored in a field (component body): pick the convention whose parameters fit
                    fld = self.heap_get(st, recv, name)
                    for cc in (cands if isinstance(cands, list) else [cands]):
                        try:
                            self.bind_params(cc, [fld] + args, kw, st.copy())
                        except OutsideSubset:
                            continue
                        return self.call_contract(cc, [fld] + args, kw, st, None)
                    raise OutsideSubset("no calling convention of %s.%s fits %r" % (ty.cls, name, [a.ty for a in args]))
                raise OutsideSubset("no contract for method %s.%s" % (ty.cls, name))
            return self.call_contract(c, [recv] + args, kw, st, node)
        if isinstance(ty, Opt):
            if self.in_spec:
                return self.method(core.oval(recv), name, args, kw, st, node, recv_node)
            a, b = self.fork(st, core.ois_none(recv), getattr(node, "lineno", None), "none-call")
            if a is not None:
                self.do_raise(a, "AttributeError")
            if b is None:
                return []
            inner = core.oval(recv)
            if name in MUTATORS:
                h = getattr(self, "m_%s_%s" % (_kind(inner.ty), name), None)
                if h is None:
                    raise OutsideSubset("method %s on %r" % (name, inner.ty))
                res = []
                for o in h(inner, args, kw, b, node):
                    if len(o) == 3:
                        st1, r, newrecv = o
                        for s2 in self.assign(_as_store(recv_node), core.osome(ty, newrecv), st1, None, inplace=True):
                            res.append((s2, r))
                    else:
                        res.append(o)
                return res
            return self.method(inner, name, args, kw, b, node, recv_node)
        if isinstance(ty, U):
            c = self.reg.methods.get((ty.name, name))
            if c is not None:
                return self.call_contract(c, [recv] + args, kw, st, node)      # a method of an opaque sort declared as interface
        dl = self.dictlike(ty) if isinstance(ty, U) else None
        if dl is not None and name == "get":
            sub = self.dl_sub(recv, dl)
            has = z3.And(self.dl_ismap(recv, dl), core.mhas(sub, args[0]))
            if not self.in_spec:
                ok, bad = self.fork(st, self.dl_ismap(recv, dl), getattr(node, "lineno", None), "docget")
                if bad is not None:
                    self.do_raise(bad, "AttributeError")
                if ok is None:
                    return []
                st = ok
            d = args[1] if len(args) > 1 else kw.get("default", NONEV)
            return [(st, self._select(has, core.mget(sub, args[0]), d))]
        if dl is not None and name in ("split", "strip", "lower") and dl.get("as_str"):
            if not self.in_spec:
                ok, bad = self.fork(st, core.ufun("sf_" + dl["is_str"], [recv], BOOL).t, getattr(node, "lineno", None), "docstr")
                if bad is not None:
                    self.do_raise(bad, "AttributeError")
                if ok is None:
                    return []
                st = ok
            sv = core.ufun("sf_" + dl["as_str"], [recv], STR)
            outs = getattr(self, "m_str_" + name)(sv, args, kw, st, node)
            return [(o[0], o[1]) for o in outs]
        h = getattr(self, "m_%s_%s" % (_kind(ty), name), None)
        if h is None and ty is PY and name in getattr(self.reg, "opaque_methods", ()):
            self.notes.append("method .%s() on an opaque object: result opaque, assumed to have no modelled effect and not to raise" % name)
            return [(st, fresh(PY, "opq_" + name))]
        if h is None:
            raise OutsideSubset("method %s on %r" % (name, ty))
        outs = h(recv, args, kw, st, node)
        # mutators return (state, result, new receiver)
        res = []
        for o in outs:
            if len(o) == 3:
                st1, r, newrecv = o
                sts = self.assign(_as_store(recv_node), newrecv, st1, None, inplace=True)
                for s2 in sts:
                    self._alias_writeback(recv_node, newrecv, s2)
                    res.append((s2, r))
            else:
                res.append(o)
        return res

    def _alias_writeback(self, recv_node, newv, st):
        if isinstance(recv_node, ast.Name):
            return          # handled by assign(inplace=True)
        else:
            # mutation through a place that some variable aliases: refresh the variable
            pl = self.place_of(recv_node, st)
            if pl is not None:
                for k, p in list(st.alias.items()):
                    if p == pl:
                        st.env[k] = newv

    # -- list
    def _elem(self, recv, v):
        return self.store_form(None, self.adapt(v, recv.ty.elem), recv.ty.elem) if not (isinstance(v.ty, Set) and core.is_virt(v)) else v

    def m_elist_append(self, recv, args, kw, st, node):
        v = self._pack(args[0], st)
        return [(st, NONEV, core.lappend(core.lempty(v.ty), v))]

    def _pack(self, v, st):
        if v.ty is STATIC:
            v = self._pack_static(v)
        if isinstance(v.ty, Tup):
            return core.tpack(v)
        if isinstance(v.ty, Set) and core.is_virt(v):
            v, ax = core.materialize(v)
            st.assume(*ax)
        return v

    def m_list_append(self, recv, args, kw, st, node):
        st = st.copy()
        v = self.store_form(st, self.adapt(args[0], recv.ty.elem), recv.ty.elem)
        return [(st, NONEV, core.lappend(recv, v))]

    def m_list_extend(self, recv, args, kw, st, node):
        o = args[0]
        if o.ty is EMPTY_LIST:
            return [(st, NONEV, recv)]
        if isinstance(o.ty, Opt) and isinstance(o.ty.elem, List):
            # extend(None) is a TypeError
            if not self.in_spec:
                bad, ok = self.fork(st, core.ois_none(o), getattr(node, "lineno", None), "none-extend")
                if bad is not None:
                    self.do_raise(bad, "TypeError")
                if ok is None:
                    return []
                st = ok
            o = core.oval(o)
        o = self.adapt(o, recv.ty) if o.ty is STATIC or isinstance(o.ty, Tup) else o
        if isinstance(o.ty, U):
            view = getattr(self.reg, "iter_views", {}).get(o.ty.name)
            if view is not None:
                o = core.ufun("sf_" + view[0], [o], view[1])      # an opaque iterable: the list it is declared to iterate as
        if o.ty != recv.ty and isinstance(o.ty, List):
            # element-wise conversion (e.g. Optional[X] elements known present -> X)
            conv = fresh(recv.ty, "conv")
            st = st.copy()
            try:
                st.assume(core.llen(conv) == core.llen(o),
                          core.forall_int(0, core.llen(o), lambda j: core.eq_t(recv.ty.elem, z3.Select(core.larr(conv), j),
                                          self._tpk(self.adapt(self._elem_form(core.lget(o, j)), recv.ty.elem), recv.ty.elem).t)))
            except OutsideSubset:
                raise OutsideSubset("extend %r with %r" % (recv.ty, o.ty))
            o = conv
        if o.ty != recv.ty:
            raise OutsideSubset("extend %r with %r" % (recv.ty, o.ty))
        st2, r = self.list_concat(recv, o, st)
        return [(st2, NONEV, r)]

    def m_elist_extend(self, recv, args, kw, st, node):
        o = args[0]
        if o.ty is STATIC:
            o = self.adapt(o, List(o.items[0].ty))
        return [(st, NONEV, o)]

    def m_list_sort(self, recv, args, kw, st, node):
        """list.sort(key=..., reverse=...): the list becomes SOME permutation of itself (same length, same elements, and - stated through a
        bijection of positions - the same multiplicities).  Which one is not modelled: an over-approximation of every key function."""
        if args or any(k not in ("key", "reverse") for k in kw):
            raise OutsideSubset("list.sort arguments")
        st = st.copy()
        r = fresh(recv.ty, "sorted")
        n = core.llen(recv)
        perm = z3.Function(CTX.fresh("perm"), z3.IntSort(), z3.IntSort())
        inv = z3.Function(CTX.fresh("perm_inv"), z3.IntSort(), z3.IntSort())
        st.assume(core.llen(r) == n,
                  core.forall_int(0, n, lambda j: z3.And(perm(j) >= 0, perm(j) < n, inv(perm(j)) == j,
                                                         z3.Select(core.larr(r), j) == z3.Select(core.larr(recv), perm(j)))),
                  core.forall_int(0, n, lambda j: z3.And(inv(j) >= 0, inv(j) < n, perm(inv(j)) == j)))
        self.notes.append("list.sort is an arbitrary permutation of the list (the key function is not modelled)")
        return [(st, NONEV, r)]

    def m_list_reverse(self, recv, args, kw, st, node):
        st = st.copy()
        r = self.reversed_list(recv, st)
        return [(st, NONEV, r)]

    def reversed_list(self, lst, st):
        r = fresh(lst.ty, "rev")
        n = core.llen(lst)
        st.assume(core.llen(r) == n,
                  core.forall_int(0, n, lambda j: z3.Select(core.larr(r), j) == z3.Select(core.larr(lst), n - 1 - j)),
                  core.forall_int(0, n, lambda j: z3.Select(core.larr(lst), j) == z3.Select(core.larr(r), n - 1 - j)))
        return r

    def m_list_pop(self, recv, args, kw, st, node):
        if args:
            z = z3.simplify(coerce(args[0], INT).t)
            if not (z3.is_int_value(z) and z.as_long() == 0):
                raise OutsideSubset("list.pop(i) for i != 0")
            ok, bad = self.fork(st, core.llen(recv) > 0, getattr(node, "lineno", None), "pop0")
            if bad is not None:
                self.do_raise(bad, "IndexError")
            if ok is None:
                return []
            ok = ok.copy()
            r = fresh(recv.ty, "tail")
            n = core.llen(recv)
            ok.assume(core.llen(r) == n - 1,
                      core.forall_int(0, n - 1, lambda j: z3.Select(core.larr(r), j) == z3.Select(core.larr(recv), j + 1)),
                      core.forall_int(1, n, lambda j: z3.Select(core.larr(recv), j) == z3.Select(core.larr(r), j - 1),
                                      pats=lambda j: [z3.Select(core.larr(recv), j)]))
            return [(ok, core.lget(recv, 0), r)]
        ok, bad = self.fork(st, core.llen(recv) > 0, getattr(node, "lineno", None), "pop")
        if bad is not None:
            self.do_raise(bad, "IndexError")
        if ok is None:
            return []
        n = core.llen(recv)
        return [(ok, core.lget(recv, n - 1), core.lmk(recv.ty, n - 1, core.larr(recv)))]

    def m_list_index(self, recv, args, kw, st, node):
        x = self.adapt(args[0], recv.ty.elem)
        ok, bad = self.fork(st, core.lcontains(recv, x), getattr(node, "lineno", None), "index")
        if bad is not None:
            self.do_raise(bad, "ValueError")
        if ok is None:
            return []
        i = fresh(INT, "idx")
        ok = ok.copy().assume(i.t >= 0, i.t < core.llen(recv), core.eq_t(recv.ty.elem, z3.Select(core.larr(recv), i.t), x.t),
                              core.forall_int(0, i.t, lambda j: z3.Not(core.eq_t(recv.ty.elem, z3.Select(core.larr(recv), j), x.t))))
        return [(ok, i)]

    def m_list_copy(self, recv, args, kw, st, node):
        return [(st, recv)]

    def m_list_remove(self, recv, args, kw, st, node):
        x = self.adapt(args[0], recv.ty.elem)
        ok, bad = self.fork(st, core.lcontains(recv, x), getattr(node, "lineno", None), "remove")
        if bad is not None:
            self.do_raise(bad, "ValueError")
        if ok is None:
            return []
        ok = ok.copy()
        p = fresh(INT, "rmpos").t
        r = fresh(recv.ty, "removed")
        n = core.llen(recv)
        A, R = core.larr(recv), core.larr(r)
        ok.assume(p >= 0, p < n, core.eq_t(recv.ty.elem, z3.Select(A, p), x.t),
                  core.forall_int(0, p, lambda j: z3.Not(core.eq_t(recv.ty.elem, z3.Select(A, j), x.t))),
                  core.llen(r) == n - 1,
                  core.forall_int(0, n - 1, lambda j: z3.Select(R, j) == z3.If(j < p, z3.Select(A, j), z3.Select(A, j + 1))),
                  core.forall_int(0, n, lambda j: z3.Implies(j != p, z3.Select(A, j) == z3.If(j < p, z3.Select(R, j), z3.Select(R, j - 1))),
                                  pats=lambda j: [z3.Select(A, j)]))
        return [(ok, NONEV, r)]

    # -- set
    def m_set_add(self, recv, args, kw, st, node):
        return [(st, NONEV, core.sadd(recv, args[0]))]

    def m_eset_add(self, recv, args, kw, st, node):
        v = self._pack(args[0], st)
        return [(st, NONEV, core.sadd(core.sempty(v.ty), v))]

    def m_set_discard(self, recv, args, kw, st, node):
        return [(st, NONEV, core.sremove(recv, args[0]))]

    def m_set_remove(self, recv, args, kw, st, node):
        ok, bad = self.fork(st, core.smem(recv, args[0]), getattr(node, "lineno", None), "remove")
        if bad is not None:
            self.do_raise(bad, "KeyError")
        if ok is None:
            return []
        return [(ok, NONEV, core.sremove(recv, args[0]))]

    def _as_set(self, v, ety, st):
        if v.ty in (EMPTY_LIST, EMPTY_SET, EMPTY_DICT):
            return core.sempty(ety)
        if isinstance(v.ty, Set):
            return v
        if isinstance(v.ty, List):
            return core.elems(v)
        if isinstance(v.ty, Map):
            return core.mdom(v)
        if v.ty is STATIC or isinstance(v.ty, Tup):
            return self.adapt(v if v.ty is STATIC else V(STATIC, None, [core.tget(v, i) for i in range(len(v.ty.elems))]), Set(ety))
        if isinstance(v.ty, Opt):
            inner = self._as_set(core.oval(v), ety, st)
            return core.svirt(ety, lambda x, v=v, inner=inner: z3.And(z3.Not(core.ois_none(v)), core.smem_t(inner, x)))
        if isinstance(v.ty, Ref):
            it = self.reg.classes.get(v.ty.cls, {}).get("__iterset__")
            if it is not None:
                s2 = State()
                s2.env = {"self": v}
                s2.heap, s2.glob = st.heap, st.glob
                return self._as_set(self.spec(it, s2), ety, st)
        raise OutsideSubset("set from %r" % (v.ty,))

    def m_set_update(self, recv, args, kw, st, node):
        r = recv
        for a in args:
            r = core.sunion(r, self._as_set(a, recv.ty.elem, st))
        return [(st, NONEV, r)]

    def m_eset_update(self, recv, args, kw, st, node):
        a = args[0]
        if isinstance(a.ty, (Set, List, Map)):
            ety = a.ty.k if isinstance(a.ty, Map) else a.ty.elem
            return [(st, NONEV, self._as_set(a, ety, st))]
        raise OutsideSubset("update of untyped empty set")

    def m_set_union(self, recv, args, kw, st, node):
        r = recv
        for a in args:
            r = core.sunion(r, self._as_set(a, recv.ty.elem, st))
        return [(st, r)]

    def m_set_difference(self, recv, args, kw, st, node):
        r = recv
        for a in args:
            r = core.sdiff(r, self._as_set(a, recv.ty.elem, st))
        return [(st, r)]

    def m_set_intersection(self, recv, args, kw, st, node):
        r = recv
        for a in args:
            r = core.sinter(r, self._as_set(a, recv.ty.elem, st))
        return [(st, r)]

    def m_set_issubset(self, recv, args, kw, st, node):
        return [(st, V(BOOL, core.ssubset(recv, self._as_set(args[0], recv.ty.elem, st))))]

    def m_set_copy(self, recv, args, kw, st, node):
        return [(st, recv)]

    def m_set_clear(self, recv, args, kw, st, node):
        return [(st, NONEV, core.sempty(recv.ty.elem))]

    def m_set_pop(self, recv, args, kw, st, node):
        ok, bad = self.fork(st, z3.Not(core.sisempty(recv)), getattr(node, "lineno", None), "setpop")
        if bad is not None:
            self.do_raise(bad, "KeyError")
        if ok is None:
            return []
        x = fresh(recv.ty.elem, "popped")
        ok = ok.copy().assume(core.smem(recv, x))
        return [(ok, x, core.sremove(recv, x))]

    # -- dict
    def m_map_get(self, recv, args, kw, st, node):
        k = args[0]
        has = core.mhas(recv, k)
        val = core.mget(recv, k)
        if len(args) > 1 or "default" in kw:
            d = args[1] if len(args) > 1 else kw["default"]
            return [(st, self._select(has, val, d))]
        if isinstance(recv.ty.v, Opt):
            return [(st, V(recv.ty.v, z3.If(has, val.t, core.onone(recv.ty.v).t)))]
        oty = Opt(recv.ty.v)
        return [(st, V(oty, z3.If(has, core.osome(oty, val).t, core.onone(oty).t)))]

    def m_edict_get(self, recv, args, kw, st, node):
        return [(st, args[1] if len(args) > 1 else NONEV)]

    def m_map_pop(self, recv, args, kw, st, node):
        k = args[0]
        has = core.mhas(recv, k)
        if len(args) > 1:
            return [(st, self._select(has, core.mget(recv, k), args[1]), core.mremove(recv, k))]
        ok, bad = self.fork(st, has, getattr(node, "lineno", None), "mappop")
        if bad is not None:
            self.do_raise(bad, "KeyError")
        if ok is None:
            return []
        return [(ok, core.mget(recv, k), core.mremove(recv, k))]

    def m_map_clear(self, recv, args, kw, st, node):
        return [(st, NONEV, core.mempty(recv.ty.k, recv.ty.v))]

    def m_map_keys(self, recv, args, kw, st, node):
        return [(st, core.mdom(recv))]

    def m_map_copy(self, recv, args, kw, st, node):
        return [(st, recv)]

    def m_map_items(self, recv, args, kw, st, node):
        st = st.copy()
        ty = List(Tup(recv.ty.k, recv.ty.v))
        r = fresh(ty, "items" + CTX.run_tag)
        S = CTX.sort(ty.elem)
        n = core.llen(r)
        f0 = lambda j: S.accessor(0, 0)(z3.Select(core.larr(r), j))
        f1 = lambda j: S.accessor(0, 1)(z3.Select(core.larr(r), j))
        pf = CTX.func(CTX.fresh("ipos" + CTX.run_tag), CTX.sort(recv.ty.k), z3.IntSort())
        dom = core.mdom(recv)
        st.assume(n >= 0)
        if CTX.scope is not None:
            CTX.scope_constraints.append(n <= CTX.scope)
        st.assume(core.forall_int(0, n, lambda j: z3.And(core.smem_t(dom, f0(j)), pf(f0(j)) == j,
                                                         f1(j) == z3.Select(core.mval(recv), f0(j)))),
                  core.forall_ty(recv.ty.k, lambda k: z3.Implies(core.smem_t(dom, k), z3.And(pf(k) >= 0, pf(k) < n, f0(pf(k)) == k))))
        return [(st, r)]

    def m_map_values(self, recv, args, kw, st, node):
        st = st.copy()
        keys = self.enumerate_set(core.mdom(recv), st)
        r = fresh(List(recv.ty.v), "values")
        n = core.llen(keys)
        st.assume(core.llen(r) == n,
                  core.forall_int(0, n, lambda j: z3.Select(core.larr(r), j) == z3.Select(core.mval(recv), z3.Select(core.larr(keys), j))))
        return [(st, r)]

    def m_edict_items(self, recv, args, kw, st, node):
        return [(st, V(STATIC, None, []))]

    m_edict_values = m_edict_items
    m_edict_keys = m_edict_items

    def m_map_update(self, recv, args, kw, st, node):
        o = args[0]
        if o.ty in (EMPTY_DICT,):
            return [(st, NONEV, recv)]
        if o.ty != recv.ty:
            raise OutsideSubset("dict.update with %r" % (o.ty,))
        st = st.copy()
        r = fresh(recv.ty, "upd")
        st.assume(core.set_eq(core.mdom(r), core.sunion(core.mdom(recv), core.mdom(o))),
                  core.forall_ty(recv.ty.k, lambda k: z3.Select(core.mval(r), k) ==
                                 z3.If(core.smem_t(core.mdom(o), k), z3.Select(core.mval(o), k), z3.Select(core.mval(recv), k))))
        return [(st, NONEV, r)]

    def m_edict_update(self, recv, args, kw, st, node):
        return [(st, NONEV, args[0])]

    def m_map_setdefault(self, recv, args, kw, st, node):
        k, d = args[0], args[1]
        has = core.mhas(recv, k)
        d = self.store_form(st, self.adapt(d, recv.ty.v), recv.ty.v)
        val = V(recv.ty.v, z3.If(has, core.mget(recv, k).t, d.t))
        return [(st, val, core.mstore(recv, k, val))]

    # -- str
    def m_str_startswith(self, recv, args, kw, st, node):
        a = args[0]
        if isinstance(a.ty, List) and a.ty.elem is STR:
            return [(st, V(BOOL, core.exists_int(0, core.llen(a), lambda j: core.str_startswith(recv, core.lget(a, j)))))]
        if a.ty is STATIC or isinstance(a.ty, Tup):
            items = a.items if a.items is not None else [core.tget(a, i) for i in range(len(a.ty.elems))]
            return [(st, V(BOOL, z3.Or([core.str_startswith(recv, i) for i in items])))]
        return [(st, V(BOOL, core.str_startswith(recv, a)))]

    def m_str_endswith(self, recv, args, kw, st, node):
        a = args[0]
        if a.ty is STATIC or isinstance(a.ty, Tup):
            items = a.items if a.items is not None else [core.tget(a, i) for i in range(len(a.ty.elems))]
            return [(st, V(BOOL, z3.Or([core.str_endswith(recv, i) for i in items])))]
        return [(st, V(BOOL, core.str_endswith(recv, a)))]

    def _str_uf(name):
        def h(self, recv, args, kw, st, node):
            return [(st, core.ufun("str_" + name, [recv] + [a for a in args if a.ty in (STR, INT)], STR))]
        return h

    def m_str_isupper(self, recv, args, kw, st, node):
        return [(st, core.ufun("str_isupper", [recv], BOOL))]

    m_str_lower = _str_uf("lower")
    m_str_upper = _str_uf("upper")
    m_str_strip = _str_uf("strip")
    m_str_lstrip = _str_uf("lstrip")
    m_str_rstrip = _str_uf("rstrip")
    m_str_replace = _str_uf("replace")
    m_str_encode = _str_uf("encode")
    m_str_decode = _str_uf("decode")

    def m_str_format(self, recv, args, kw, st, node):
        # constant template with plain {name} / {} / {0} fields and string arguments: the exact concatenation
        tnode = node.func.value if isinstance(node, ast.Call) and isinstance(node.func, ast.Attribute) else None
        if isinstance(tnode, ast.Constant) and isinstance(tnode.value, str) and all(v.ty is STR for v in list(args) + list(kw.values())):
            import string
            try:
                parts = list(string.Formatter().parse(tnode.value))
                out = None
                auto = 0
                ok = True
                for lit, field, spec, conv in parts:
                    piece = [mk_str(lit)] if lit else []
                    if field is not None:
                        if spec or conv:
                            ok = False
                            break
                        if field == "":
                            piece.append(args[auto])
                            auto += 1
                        elif field.isdigit():
                            piece.append(args[int(field)])
                        elif field in kw:
                            piece.append(kw[field])
                        else:
                            ok = False
                            break
                    for p_ in piece:
                        out = p_ if out is None else core.str_concat(out, p_)
                if ok:
                    return [(st, out if out is not None else mk_str(""))]
            except (ValueError, IndexError):
                pass
        self.notes.append("str.format is an uninterpreted function of its arguments")
        return [(st, fresh(STR, "fmt"))]

    def m_str_join(self, recv, args, kw, st, node):
        a = args[0]
        if isinstance(a.ty, List) and (a.ty.elem is STR or isinstance(a.ty.elem, core.U)):
            # a deterministic function of the separator and the list (elements of an opaque character sort are one-character strings)
            return [(st, core.ufun("str_join", [recv, a], STR))]
        self.notes.append("str.join over a non-list is an opaque string")
        return [(st, fresh(STR, "join"))]

    def m_str_split(self, recv, args, kw, st, node):
        r = core.ufun("str_split", [recv] + [a for a in args if a.ty in (STR, INT)], List(STR))
        if not self.in_spec:
            st = st.copy().assume(core.llen(r) >= 1)
        return [(st, r)]

    def m_str_splitlines(self, recv, args, kw, st, node):
        r = core.ufun("str_splitlines", [recv], List(STR))
        st = st.copy().assume(core.llen(r) >= 0)
        return [(st, r)]

    # -- dynamic values: string methods fork on "is a string"
    def _py_strmethod(name):
        def h(self, recv, args, kw, st, node):
            P = core.py_sort()
            if self.in_spec:
                # specification: the string projection (meaningful under an `isinstance(x, str)` guard written in the clause)
                s = V(STR, P.s(recv.t))
                args2 = [V(STR, P.s(a.t)) if a.ty is PY else a for a in args]
                return getattr(self, "m_str_" + name)(s, args2, kw, st, node)
            ok, bad = self.fork(st, P.is_PStr(recv.t), getattr(node, "lineno", None), "isstr")
            if bad is not None:
                self.do_raise(bad, "AttributeError")
            if ok is None:
                return []
            s = V(STR, P.s(recv.t))
            args2 = [V(STR, P.s(a.t)) if a.ty is PY else a for a in args]
            outs = getattr(self, "m_str_" + name)(s, args2, kw, ok, node)
            return [(o[0], o[1]) for o in outs]
        return h

    for _n in ("startswith", "endswith", "lower", "upper", "strip", "lstrip", "rstrip", "split", "replace", "format"):
        locals()["m_py_" + _n] = _py_strmethod(_n)
    del _n

    def m_exc_with_traceback(self, recv, args, kw, st, node):
        return [(st, recv)]

    # ------------------------------------------------------------------------------------------
    # iteration
    # ------------------------------------------------------------------------------------------
    def ev_iter(self, node, st):
        """Evaluate an iterable expression to a List value (or STATIC) giving the iteration sequence."""
        # syntactic forms first
        if isinstance(node, ast.Call) and isinstance(node.func, ast.Name) and self.lookup(node.func.id, st) is None:
            fn = node.func.id
            if fn == "reversed":
                res = []
                for st1, seq in self.ev_iter(node.args[0], st):
                    if seq.ty is STATIC:
                        res.append((st1, V(STATIC, None, list(reversed(seq.items)))))
                    else:
                        st1 = st1.copy()
                        res.append((st1, self.reversed_list(seq, st1)))
                return res
            if fn == "enumerate":
                res = []
                for st1, seq in self.ev_iter(node.args[0], st):
                    start = 0
                    if len(node.args) > 1 or node.keywords:
                        sn = node.args[1] if len(node.args) > 1 else node.keywords[0].value
                        start = self.ev1(sn, st1).t
                    if seq.ty is STATIC:
                        res.append((st1, V(STATIC, None, [mk_tuple([V(INT, z3.IntVal(i) + start), it]) for i, it in enumerate(seq.items)])))
                        continue
                    ty = List(Tup(INT, seq.ty.elem))
                    r = fresh(ty, "enum")
                    st1 = st1.copy()
                    S = CTX.sort(ty.elem)
                    st1.assume(core.llen(r) == core.llen(seq),
                               core.forall_int(0, core.llen(seq), lambda j: z3.Select(core.larr(r), j) == S.mk(j + start, z3.Select(core.larr(seq), j))))
                    res.append((st1, r))
                return res
            if fn == "range":
                res = []
                for st1, args in self.ev_list(node.args, st):
                    lo, hi = (mk_int(0), args[0]) if len(args) == 1 else (args[0], args[1])
                    if len(args) > 2:
                        stp = z3.simplify(coerce(args[2], INT).t)
                        if not (z3.is_int_value(stp) and stp.as_long() == -1):
                            raise OutsideSubset("range step other than -1")
                        r = fresh(List(INT), "rangedown")
                        st1 = st1.copy()
                        n = z3.If(lo.t > hi.t, lo.t - hi.t, z3.IntVal(0))
                        st1.assume(core.llen(r) == n, core.forall_int(0, n, lambda j: z3.Select(core.larr(r), j) == lo.t - j))
                        res.append((st1, r))
                        continue
                    r = fresh(List(INT), "range")
                    st1 = st1.copy()
                    n = z3.If(hi.t > lo.t, hi.t - lo.t, z3.IntVal(0))
                    st1.assume(core.llen(r) == n, core.forall_int(0, n, lambda j: z3.Select(core.larr(r), j) == lo.t + j))
                    res.append((st1, r))
                return res
            if fn == "zip":
                res = []
                for st1, seqs in self._iter_list(node.args, st):
                    if all(s.ty is STATIC for s in seqs):
                        res.append((st1, V(STATIC, None, [mk_tuple(list(t)) for t in zip(*[s.items for s in seqs])])))
                        continue
                    seqs = [self.adapt(s, List(s.items[0].ty)) if s.ty is STATIC else s for s in seqs]
                    ty = List(Tup(*[s.ty.elem for s in seqs]))
                    r = fresh(ty, "zip")
                    st1 = st1.copy()
                    S = CTX.sort(ty.elem)
                    n = core.llen(r)
                    st1.assume(n >= 0, *[n <= core.llen(s) for s in seqs])
                    st1.assume(z3.Or([n == core.llen(s) for s in seqs]))
                    st1.assume(core.forall_int(0, n, lambda j: z3.Select(core.larr(r), j) == S.mk(*[z3.Select(core.larr(s), j) for s in seqs])))
                    res.append((st1, r))
                return res
        res = []
        for st1, v in self.ev(node, st):
            res.append(self.as_sequence(v, st1))
        return res

    def _iter_list(self, nodes, st):
        res = [(st, [])]
        for n in nodes:
            nxt = []
            for cur, vals in res:
                for st1, v in self.ev_iter(n, cur):
                    nxt.append((st1, vals + [v]))
            res = nxt
        return res

    def as_sequence(self, v, st, fn=None):
        """Iteration order of a value as a List (sets / dict keys: an arbitrary duplicate-free enumeration)."""
        ty = v.ty
        if ty is STATIC:
            return (st, v)
        if ty in (EMPTY_LIST, EMPTY_DICT, EMPTY_SET):
            return (st, V(STATIC, None, []))
        if isinstance(ty, List):
            return (st, v)
        if isinstance(ty, Tup):
            return (st, V(STATIC, None, [core.tget(v, i) for i in range(len(ty.elems))]))
        if isinstance(ty, Set):
            st = st.copy()
            return (st, self.enumerate_set(v, st, fn))
        if isinstance(ty, Map):
            st = st.copy()
            return (st, self.enumerate_set(core.mdom(v), st, fn))
        if isinstance(ty, Opt):
            if self.in_spec:
                return self.as_sequence(core.oval(v), st)
            a, b = self.fork(st, core.ois_none(v), None, "none-iter")
            if a is not None:
                self.do_raise(a, "TypeError")
            if b is None:
                raise OutsideSubset("iteration over None on every path")
            return self.as_sequence(core.oval(v), b)
        if isinstance(ty, U):
            view = getattr(self.reg, "iter_views", {}).get(ty.name)
            if view is not None:
                fn, rty = view
                return (st, core.ufun("sf_" + fn, [v], rty))
        raise OutsideSubset("iteration over %r" % (ty,))

    def enumerate_set(self, s, st, fn=None):
        """Ghost list `order`: duplicate free, exactly the elements of s.  With fn (a name), the list
        is a function of the set (sorted())."""
        ety = s.ty.elem
        if fn is not None:
            sm, ax = core.materialize(s)
            st.assume(*ax)
            order = core.ufun(fn, [sm], List(ety))
            pos = lambda x: CTX.func(fn + "_pos_" + core._mangle(ety.key), CTX.sort(s.ty), CTX.sort(ety), z3.IntSort())(sm.t, x)
        else:
            order = fresh(List(ety), "order" + CTX.run_tag)
            order.tag = "arbitrary-order"       # the enumeration order of a set / dict: any permutation
            pf = CTX.func(CTX.fresh("pos" + CTX.run_tag), CTX.sort(ety), z3.IntSort())
            pos = lambda x: pf(x)
        n = core.llen(order)
        st.assume(n >= 0)
        if CTX.scope is not None:
            CTX.scope_constraints.append(n <= CTX.scope)
        st.assume(core.forall_ty(ety, lambda x: z3.Implies(core.smem_t(s, x), z3.And(pos(x) >= 0, pos(x) < n, z3.Select(core.larr(order), pos(x)) == x))),
                  core.forall_int(0, n, lambda j: z3.And(core.smem_t(s, z3.Select(core.larr(order), j)), pos(z3.Select(core.larr(order), j)) == j)))
        return order


def _kind(ty):
    if isinstance(ty, List):
        return "list"
    if isinstance(ty, Set):
        return "set"
    if isinstance(ty, Map):
        return "map"
    if ty is STR:
        return "str"
    if ty is PY:
        return "py"
    if ty is EMPTY_LIST:
        return "elist"
    if ty is EMPTY_SET:
        return "eset"
    if ty is EMPTY_DICT:
        return "edict"
    if ty is EXC:
        return "exc"
    return "other"


def _as_store(node):
    n = ast.parse(ast.unparse(node), mode="exec").body[0].value
    for x in ast.walk(n):
        if hasattr(x, "ctx"):
            pass
    if isinstance(n, (ast.Name, ast.Attribute, ast.Subscript)):
        n.ctx = ast.Store()
        ast.copy_location(n, node)
        for x in ast.walk(n):
            if not hasattr(x, "lineno"):
                x.lineno = getattr(node, "lineno", 0)
        return n
    raise OutsideSubset("mutation of a non-place expression: %s" % ast.unparse(node))


def _callsite(node, eng):
    return "L%s" % getattr(node, "lineno", "?")
