"""Symbolic state, outcomes and obligations."""
import z3
from .core import CTX, V, _Prim

CLOSURE = _Prim("Closure")
EMPTY_LIST = _Prim("EmptyList")
EMPTY_DICT = _Prim("EmptyDict")
EMPTY_SET = _Prim("EmptySet")
MODULE = _Prim("Module")      # dotted name that is not a value (os.path, log, ...)
STATIC = _Prim("Static")      # python-level constant sequence of values (literal list / tuple being iterated)


class State(object):
    __slots__ = ("env", "heap", "glob", "pc", "old", "lold", "trace", "alias", "written", "dry")

    def __init__(self):
        self.env = {}
        self.heap = {}
        self.glob = {}
        self.pc = []
        self.old = None
        self.lold = []
        self.trace = []
        self.alias = {}
        self.written = None     # set of ('v',name) / ('h',field) / ('g',name) when recording
        self.dry = False

    def copy(self):
        s = State()
        s.env = dict(self.env)
        s.heap = dict(self.heap)
        s.glob = dict(self.glob)
        s.pc = list(self.pc)
        s.old = self.old
        s.lold = list(self.lold)
        s.trace = list(self.trace)
        s.alias = dict(self.alias)
        s.written = self.written
        s.dry = self.dry
        return s

    def assume(self, *cs):
        for c in cs:
            if c is None:
                continue
            if isinstance(c, bool):
                raise TypeError("python bool assumed (encoder bug): %r" % c)
            if z3.is_true(c):
                continue
            self.pc.append(c)
        return self

    def note(self, line, tag):
        self.trace.append("%s:%s" % (line, tag))

    def wrote(self, kind, name):
        if self.written is not None:
            self.written.add((kind, name))


class Outcome(object):
    __slots__ = ("kind", "st", "val")

    def __init__(self, kind, st, val=None):
        self.kind = kind    # normal | return | raise | break | continue
        self.st = st
        self.val = val


class Obl(object):
    """A named proof obligation: hyps |- goal."""

    def __init__(self, unit, kind, clause_id, clause, hyps, goal, line=None, trace=None, scope_constraints=None):
        self.unit = unit
        self.kind = kind
        self.clause_id = clause_id
        self.clause = clause
        self.hyps = hyps
        self.goal = goal
        self.line = line
        self.trace = trace or []
        self.scope_constraints = scope_constraints or []
        self.probes = {}       # name -> V, values to read out of a counter-model

    @property
    def name(self):
        return "%s/%s:%s" % (self.unit, self.kind, self.clause_id)

    def trivially_true(self):
        return z3.is_true(z3.simplify(self.goal))
