"""Sidecar contracts for insights/core/dr.py and insights/contrib/toposort.py (no repository code here)."""
import collections
from pyvc.dsl import *

M = "insights/core/dr.py"
TS = "insights/contrib/toposort.py"

Comp = U("Comp")
Val = U("Val")
Obs = U("Obs")
TypeT = U("Type")
MISSING = Tup(List(Comp), List(List(Comp)))


PROCESS_FRAME = [
    "forall(b, Ref_Broker, b.missing_requirements == old(b.missing_requirements))",
    # process() may record exceptions (through add_exception) only against its own component or that
    # component's registry points, only by appending, and gives each a traceback
    "forall(c, Comp, implies(c in old(broker.exceptions), c in broker.exceptions))",
    "forall(c, Comp, implies(c != self.component and c not in regpoints(self.component), "
    "       (c in broker.exceptions) == (c in old(broker.exceptions)) and "
    "       implies(c in broker.exceptions, seq_eq(broker.exceptions[c], old(broker.exceptions)[c]))))",
    "forall(b, Ref_Broker, implies(b != broker, b.exceptions == old(b.exceptions) and b.tracebacks == old(b.tracebacks)))",
]

# --- loop invariants of run_components (ordinal 0: the main loop) ------------------------------
RC_INV = [
    # C01: attempt log is a strictly increasing sub-sequence of the processed prefix
    "len(att) == len(attpos)",
    "forall(j, range(0, len(att)), 0 <= attpos[j] and attpos[j] < i_0 and att[j] == it_0[attpos[j]])",
    "forall(a, range(0, len(att)), forall(b, range(0, len(att)), implies(a < b, attpos[a] < attpos[b])))",
    # C01: seeds are neither attempted nor overwritten; everything new in the broker was attempted
    "forall(c, old(broker.instances), c in broker.instances and broker.instances[c] == old(broker.instances)[c])",
    "forall(j, range(0, len(att)), att[j] not in old(broker.instances))",
    "forall(c, attidx, 0 <= attidx[c] and attidx[c] < len(att) and att[attidx[c]] == c)",
    "forall(c, broker.instances, c in old(broker.instances) or c in attidx)",
    # other brokers are not touched
    "forall(b, Ref_Broker, implies(b != broker, b.instances == old(b.instances)))",
]
RUNNABLE = "({c} not in old(broker.instances) and {c} in components and {c} in DELEGATES and (ENABLED[{c}] if {c} in ENABLED else True))"
# C02: process() is called exactly for the runnable components of the processed prefix
RC_INV += [
    "forall(k, range(0, i_0), implies(%s, it_0[k] in attidx))" % RUNNABLE.format(c="it_0[k]"),
    "forall(j, range(0, len(att)), %s)" % RUNNABLE.format(c="att[j]"),
]
# C03: recorded exceptions / missing-requirement reports only ever change under a component of the processed prefix or one
# of its registry points; lists only grow
TOUCHED = "forall(k, range(0, {n}), c != it_0[k] and c not in regpoints(it_0[k]))"
RC_INV += [
    "forall(c, Comp, implies(c in old(broker.exceptions), c in broker.exceptions))",
    "forall(c, Comp, implies(%s, (c in broker.exceptions) == (c in old(broker.exceptions)) and "
    "       implies(c in broker.exceptions, seq_eq(broker.exceptions[c], old(broker.exceptions)[c]))))" % TOUCHED.format(n="i_0"),
    "forall(c, Comp, implies(forall(k, range(0, i_0), c != it_0[k]), (c in broker.missing_requirements) == (c in old(broker.missing_requirements)) and "
    "       implies(c in broker.missing_requirements, broker.missing_requirements[c] == old(broker.missing_requirements)[c])))",
    "forall(b, Ref_Broker, implies(b != broker, b.exceptions == old(b.exceptions) and b.tracebacks == old(b.tracebacks) and "
    "       b.missing_requirements == old(b.missing_requirements)))",
]
# inner loop of the generic `except Exception` arm (over the registry points of the failing component, arbitrary order)
RC_INV_INNER = [t.replace("i_0", "i_0 + 1") for t in RC_INV[-4:]] + [
    "forall(j, range(0, i_2), it_2[j] in broker.exceptions and len(broker.exceptions[it_2[j]]) >= 1 and "
    "  broker.exceptions[it_2[j]][len(broker.exceptions[it_2[j]]) - 1] == ex)",
    "component in broker.exceptions and len(broker.exceptions[component]) >= 1",
    "implies(component not in regpoints(component), broker.exceptions[component][len(broker.exceptions[component]) - 1] == ex)",
    "ex in broker.tracebacks and broker.tracebacks[ex] is not None",
    "forall(c, old(broker.instances), c in broker.instances and broker.instances[c] == old(broker.instances)[c])",
    "broker.instances == lold(broker.instances)",
    "forall(b, Ref_Broker, implies(b != broker, b.instances == old(b.instances)))",
    "g_arm == 4 and g_exc == ex",
]
RC_INV_BL = [t.replace("i_0", "i_0 + 1") for t in RC_INV[-4:]] + ["broker.instances == lold(broker.instances)",
             "broker.exceptions == lold(broker.exceptions)", "broker.tracebacks == lold(broker.tracebacks)",
             "broker.missing_requirements == lold(broker.missing_requirements)"]
RECORDED_LAST = ("({k} in broker.exceptions and len(broker.exceptions[{k}]) >= 1 and "
                 "broker.exceptions[{k}][len(broker.exceptions[{k}]) - 1] == g_exc)")
# ghost assertion at the end of every iteration (in `finally`): what happened to the exception this iteration caught
RC_ACCOUNT = " and ".join([
    # BlacklistedSpec / generic exception: recorded against the component with a traceback
    "implies(g_arm == 1 or g_arm == 4, (%s or component in regpoints(component)) and g_exc in broker.tracebacks and broker.tracebacks[g_exc] is not None)" % RECORDED_LAST.format(k="component"),
    # generic exception: also against every registry point of the component
    "implies(g_arm == 4, forall(r, regpoints(component), %s))" % RECORDED_LAST.format(k="r"),
    # missing requirements: reported under the component, exceptions untouched
    "implies(g_arm == 2, component in broker.missing_requirements and broker.missing_requirements[component] == g_exc.requirements)",
    # skip: recorded iff skip recording is on, then against the skipping component itself
    "implies(g_arm == 3 and broker.store_skips, %s)" % RECORDED_LAST.format(k="component"),
    "implies(g_arm == 3 and not broker.store_skips, broker.exceptions == g_exc0)",
])
RC_POST = [
    # seeds keep their value
    "forall(c, old(broker.instances), c in broker.instances and broker.instances[c] == old(broker.instances)[c])",
    # the attempt log (ghost results att / attpos): a strictly increasing sub-sequence of the given order, no seed in it
    "len(att) == len(attpos)",
    "forall(j, range(0, len(att)), 0 <= attpos[j] and attpos[j] < len(ordered_components) and att[j] == ordered_components[attpos[j]])",
    "forall(a, range(0, len(att)), forall(b, range(0, len(att)), implies(a < b, attpos[a] < attpos[b])))",
    "forall(j, range(0, len(att)), att[j] not in old(broker.instances))",
    "forall(c, broker.instances, c in old(broker.instances) or (c in attidx and 0 <= attidx[c] and attidx[c] < len(att) and att[attidx[c]] == c))",
]

# dr.run (its own body): the C01 clauses over the attempt log of the evaluation it performs.  `graph` is the dependency graph that is
# evaluated (the argument, minus what the archive branch prunes); att the components process() was called for, in order
RUN_POST = [
    "result == broker",
    # the graph evaluated is a sub-graph of the one given: pruning only drops entries
    "forall(x, graph, x in old(components) and graph[x] == old(components)[x])",
    # at most once
    "distinct(att)",
    # never before a declared dependency that takes part: a dependency of an attempted component is never attempted later
    "forall(a, range(0, len(att)), forall(b, range(0, len(att)), implies(a < b and att[a] in graph, att[b] not in graph[att[a]])))",
    # only components of the evaluated graph are attempted, and no seed is
    "forall(j, range(0, len(att)), att[j] in graph and att[j] not in old(broker.instances))",
    # seeds keep their value
    "forall(c, old(broker.instances), c in broker.instances and broker.instances[c] == old(broker.instances)[c])",
]


# --- toposort ------------------------------------------------------------------------------------
TS_INV0 = [
    # loop over the items snapshot it_0 of the copy: processed keys lost their self-dependency, the rest is untouched
    "keys(data) == keys(lold(data))",
    "forall(j, range(0, i_0), data[it_0[j][0]] == remove(lold(data)[it_0[j][0]], it_0[j][0]))",
    "forall(j, range(i_0, len(it_0)), data[it_0[j][0]] == it_0[j][1])",
]
TS_INV1 = [
    # K = keys(data): not yet emitted; done: emitted; D0 = lold(data): the normalised graph at loop entry
    "disjoint(keys(data), done)",
    "union(keys(data), done) == keys(lold(data))",
    "forall(x, data, data[x] == diff(lold(data)[x], done))",
    "keys(lvl) == done",
    "forall(x, done, 0 <= lvl[x] and lvl[x] < len(yields_) and x in yields_[lvl[x]])",
    "forall(x, done, forall(d, lold(data)[x], d in done and lvl[d] < lvl[x]))",
    "forall(j, range(0, len(yields_)), forall(x, yields_[j], x in done and lvl[x] == j))",
    "forall(j, range(0, len(yields_)), not isempty(yields_[j]))",
    # the normalised graph: no self-dependencies, closed under dependencies, same nodes as the argument
    "forall(x, lold(data), x not in lold(data)[x] and subset(lold(data)[x], keys(lold(data))))",
    "keys(lold(data)) == nodes(old(data))",
    "forall(x, old(data), forall(d, old(data)[x], implies(d != x, d in lold(data)[x])))",
]
TS_POST = [
    # `result` is the list of yielded levels; lvl is the level function (ghost out-parameter)
    "forall(j, range(0, len(result)), not isempty(result[j]))",
    "forall(j, range(0, len(result)), forall(x, result[j], x in lvl and lvl[x] == j))",
    "forall(x, lvl, 0 <= lvl[x] and lvl[x] < len(result) and x in result[lvl[x]])",
    # every node of the graph is in some level, and nothing else
    "keys(lvl) == nodes(old(data))",
    # dependencies (other than on itself) are in strictly earlier levels
    "forall(x, old(data), forall(d, old(data)[x], implies(d != x, d in lvl and lvl[d] < lvl[x])))",
]


TF_INV = [
    # result = concatenation of enumerations of the levels it_0[:i_0]   (toposort_lvl: level function of the callee)
    "forall(a, range(0, len(result)), result[a] in toposort_lvl and toposort_lvl[result[a]] < i_0)",
    "forall(a, range(0, len(result)), forall(b, range(0, len(result)), implies(a < b, toposort_lvl[result[a]] <= toposort_lvl[result[b]])))",
    "distinct(result)",
    "forall(x, toposort_lvl, implies(toposort_lvl[x] < i_0, exists(a, range(0, len(result)), result[a] == x)))",
]
# what callers of run_order use: a duplicate-free list of exactly the graph's nodes in which every dependency
# (other than on itself) precedes its dependent
RO_POST = [
    "forall(a, range(0, len(result)), forall(b, range(0, len(result)), "
    "  implies(result[a] in old(graph) and result[b] in old(graph)[result[a]] and result[a] != result[b], b < a)))",
]
TF_POST = [
    "distinct(result)",
    "forall(a, range(0, len(result)), result[a] in nodes(old(data)))",
    "forall(x, nodes(old(data)), exists(a, range(0, len(result)), result[a] == x))",
    "keys(lvl) == nodes(old(data))",
    "forall(a, range(0, len(result)), forall(b, range(0, len(result)), implies(a < b, lvl[result[a]] <= lvl[result[b]])))",
    "forall(x, old(data), forall(d, old(data)[x], implies(d != x, d in lvl and lvl[d] < lvl[x])))",
]
TF_POST_GRAPH = [t.replace("old(data)", "old(graph)") for t in TF_POST]


# --- get_subgraphs -----------------------------------------------------------------------------------
SG_OUTER = [
    "graph == G",
    "distinct(keys)",
    "forall(x, Comp, (x in keys(G)) == (x in elems(keys) or x in Y))",
    "forall(j, range(0, len(keys)), keys[j] not in Y)",
    # everything emitted so far: closed under in-graph neighbours, keyed disjointly, values are the dependency sets
    "forall(x, Y, x in keys(G) and forall(y, Comp, implies(nbr(x, y) and y in keys(G), y in Y)))",
    "forall(j, range(0, len(yields_)), subset(keys(yields_[j]), Y) and not isempty(keys(yields_[j])))",
    "forall(a, range(0, len(yields_)), forall(b, range(0, len(yields_)), implies(a < b, disjoint(keys(yields_[a]), keys(yields_[b])))))",
    "forall(j, range(0, len(yields_)), forall(s, yields_[j], yields_[j][s] == deps_of(s) and "
    "   forall(y, Comp, implies(nbr(s, y) and y in keys(G), y in yields_[j]))))",
    "forall(x, Y, x in yidx and 0 <= yidx[x] and yidx[x] < len(yields_) and x in yields_[yidx[x]])",
    "isempty(seen)", "isempty(frontier)",
]
SG_INNER = [
    # keys, Y, yields_, yidx, k0 are not written by the inner loop: their facts carry over from the outer state
    "forall(x, seen, x in keys(G) and x not in Y)",
    "forall(x, frontier, x in keys(G) and x not in Y)",
    "forall(x, seen, forall(y, Comp, implies(nbr(x, y) and y in keys(G), y in seen or y in frontier)))",
    "disjoint(frontier, seen)",
    "k0 in seen or k0 in frontier",
]
SG_REMOVE = [
    "distinct(keys)",
    "forall(x, Comp, (x in elems(keys)) == (x in elems(lold(keys)) and x not in removed))",
    "subset(removed, seen)",
    "forall(j, range(0, i_2), it_2[j] in removed)",
]
SG_POST = [
    # `result`: the yielded dictionaries; yidx (ghost result): the index of the dictionary holding each key.
    # Nothing lost, nothing duplicated, each piece closed under in-graph neighbours, values are the dependency sets
    "forall(x, keys(G), x in yidx and 0 <= yidx[x] and yidx[x] < len(result) and x in result[yidx[x]])",
    "forall(j, range(0, len(result)), subset(keys(result[j]), keys(G)) and not isempty(keys(result[j])))",
    "forall(a, range(0, len(result)), forall(b, range(0, len(result)), implies(a < b, disjoint(keys(result[a]), keys(result[b])))))",
    "forall(j, range(0, len(result)), forall(s, result[j], result[j][s] == deps_of(s) and "
    "   forall(y, Comp, implies(nbr(s, y) and y in keys(G), y in result[j]))))",
]


def declare(reg):
    reg.sort(Comp=Comp, Val=Val, Obs=Obs)
    reg.exc_files.append("insights/core/exceptions.py")
    reg.exc_files.append("insights/core/dr.py")
    reg.exc_extra.update({"CalledProcessError": "Exception"})
    reg.exc_attrs["MissingRequirements"] = dict(requirements=MISSING)

    # components, component types and observers are functions / classes: always truthy.  Component *values* (Val) are not.
    reg.cls("Comp", __truthy__=True)
    reg.cls("Type", __truthy__=True)
    reg.cls("Obs", __truthy__=True)
    reg.cls("Delegate", pyclasses=["ComponentType"],
            component=Comp, requires=List(Comp), at_least_one=List(List(Comp)), deps=List(Comp),
            optional=List(Comp), dependencies=Set(Comp), timeout=INT)
    reg.cls("Broker",
            instances=Map(Comp, Opt(Val)), missing_requirements=Map(Comp, MISSING),
            exceptions=Map(Comp, List(EXC)), tracebacks=Map(EXC, Opt(STR)), exec_times=Map(Comp, REAL),
            store_skips=BOOL, observers=Map(TypeT, Set(Obs)),
            __iterset__="self.instances")
    reg.defaultdicts = getattr(reg, "defaultdicts", {})
    reg.defaultdicts.update({"Broker.exceptions": "[]", "Broker.observers": "set()", "IGNORE": "set()", "ENABLED": "True",
                             "DEPENDENTS": "set()"})
    reg.glob(M, DELEGATES=Map(Comp, Ref("Delegate")), ENABLED=Map(Comp, BOOL), IGNORE=Map(Comp, Set(Comp)),
             BLACKLISTED_SPECS=List(STR), DEPENDENTS=Map(Comp, Set(Comp)))

    for n in ("log.info", "log.debug", "log.exception", "log.warning", "log.error"):
        reg.external(n, drop=True)
    reg.external("log.isEnabledFor", params=dict(level=None), returns=BOOL)
    reg.external("time.time", returns=REAL)
    reg.external("traceback.format_exc", returns=STR)
    # get_name reads __qualname__/__name__: fine for components, AttributeError for a callable without a name
    reg.specfun("has_dunder_name", dict(x=None), BOOL, None)
    reg.axiom("forall(c, Comp, has_dunder_name(c))")
    reg.external("get_name", params=dict(component=None), returns=STR, raises={"AttributeError": "?not has_dunder_name(component)"},
                 raise_frame="unchanged")
    reg.external("stringify_requirements", params=dict(requires=MISSING), returns=STR, pure=True)

    # --- component bodies: an assumed contract (deterministic function of the arguments; C04 needs determinism)
    reg.specfun("body_raises", dict(c=Comp, args=List(Opt(Val))), BOOL, None)
    reg.specfun("body_value", dict(c=Comp, args=List(Opt(Val))), Opt(Val), None)
    reg.specfun("body_exc", dict(c=Comp, args=List(Opt(Val))), EXC, None)
    reg.callables = getattr(reg, "callables", {})
    reg.callables[("Delegate", "component")] = reg.external(
        "<component body>", params=dict(c=Comp, args=List(Opt(Val))), returns=Opt(Val),
        raises={"Exception": "body_raises(c, args)"},
        ensures=["result == body_value(c, args)"],
        ensures_raise={"Exception": ["exc == body_exc(c, args)"]},
        raise_frame="unchanged",
        note="component bodies are arbitrary: they return a value or raise some Exception subclass, deterministically "
             "in their arguments, and do not write Broker fields")

    # ------------------------------------------------------------------ Broker
    reg.contract(M, "Broker.__contains__", params=dict(self=Ref("Broker"), component=Comp), returns=BOOL, pure=True,
                 ensures=["result == (component in self.instances)"])
    reg.contract(M, "Broker.__setitem__", params=dict(self=Ref("Broker"), component=Comp, instance=Opt(Val)),
                 modifies=["Broker.instances"],
                 raises={"KeyError": "component in self.instances"}, raise_frame="unchanged",
                 ensures=["self.instances == store(old(self.instances), component, instance)",
                          "forall(b, Ref_Broker, implies(b != self, b.instances == old(b.instances)))"])
    reg.contract(M, "Broker.__getitem__", params=dict(self=Ref("Broker"), component=Comp), returns=Opt(Val),
                 raises={"KeyError": "component not in self.instances"}, raise_frame="unchanged",
                 ensures=["result == self.instances[component]"])
    reg.contract(M, "Broker.get", params=dict(self=Ref("Broker"), component=Comp, default=Opt(Val)),
                 defaults=dict(default="None"), returns=Opt(Val), pure=True,
                 ensures=["result == (self.instances[component] if component in self.instances else default)"])
    reg.contract(M, "Broker.add_exception",
                 params=dict(self=Ref("Broker"), component=Comp, ex=EXC, tb=Opt(STR)), defaults=dict(tb="None"),
                 modifies=["Broker.missing_requirements", "Broker.exceptions", "Broker.tracebacks"],
                 ensures=[
                     # MissingRequirements goes to missing_requirements only
                     "implies(isinstance_exc(ex, MissingRequirements), self.missing_requirements == store(old(self.missing_requirements), component, ex.requirements))",
                     "implies(isinstance_exc(ex, MissingRequirements), self.exceptions == old(self.exceptions) and self.tracebacks == old(self.tracebacks))",
                     # anything else is appended to exceptions[component], traceback recorded, nothing else touched
                     "implies(not isinstance_exc(ex, MissingRequirements), self.missing_requirements == old(self.missing_requirements))",
                     "implies(not isinstance_exc(ex, MissingRequirements), component in self.exceptions and "
                     "   len(self.exceptions[component]) == len(excs_of(old(self.exceptions), component)) + 1 and "
                     "   self.exceptions[component][len(self.exceptions[component]) - 1] == ex and "
                     "   forall(j, range(0, len(excs_of(old(self.exceptions), component))), self.exceptions[component][j] == excs_of(old(self.exceptions), component)[j]))",
                     "implies(not isinstance_exc(ex, MissingRequirements), forall(c, Comp, implies(c != component, (c in self.exceptions) == (c in old(self.exceptions)) and implies(c in old(self.exceptions), seq_eq(self.exceptions[c], old(self.exceptions)[c])))))",
                     "implies(not isinstance_exc(ex, MissingRequirements), self.tracebacks == store(old(self.tracebacks), ex, tb))",
                     "forall(b, Ref_Broker, implies(b != self, b.exceptions == old(b.exceptions) and b.missing_requirements == old(b.missing_requirements) and b.tracebacks == old(b.tracebacks)))",
                 ])
    reg.sort(Ref_Broker=Ref("Broker"), Ref_Delegate=Ref("Delegate"))
    reg.specfun("excs_of", dict(m=Map(Comp, List(EXC)), c=Comp), List(EXC), "m[c] if c in m else empty_excs()")
    reg.specfun("empty_excs", dict(), List(EXC), None)
    reg.axiom("len(empty_excs()) == 0")

    # ------------------------------------------------------------------ ComponentType
    reg.contract(M, "ComponentType.get_missing_dependencies", params=dict(self=Ref("Delegate"), broker=Ref("Broker")),
                 returns=Opt(MISSING),
                 ensures=[
                     "(result is None) == (all(r in broker.instances for r in self.requires) and "
                     " all(any(m in broker.instances for m in g) for g in self.at_least_one))",
                     "implies(result is not None, seq_eq(some(result)[0], [r for r in self.requires if r not in broker.instances]))",
                     "implies(result is not None, seq_eq(some(result)[1], [g for g in self.at_least_one "
                     "                                      if not any(m in broker.instances for m in g)]))",
                 ])

    # ------------------------------------------------------------------ registry helpers (assumed, read-only)
    reg.specfun("regpoints", dict(c=Comp), Set(Comp), None)
    reg.external("get_registry_points", params=dict(component=Comp, datasource=Opt(BOOL)), defaults=dict(datasource="None"),
                 returns=Set(Comp), pure=True, ensures=["result == regpoints(component)"],
                 note="used only as 'the registry points of a component' (an arbitrary fixed set per component)")
    reg.contract(M, "is_enabled", params=dict(component=Comp), returns=BOOL, pure=True,
                 ensures=["result == (ENABLED[component] if component in ENABLED else True)"])

    # interface contract of process(): what run_components may rely on (each override is verified against it)
    reg.interface("Delegate", "process", params=dict(self=Ref("Delegate"), broker=Ref("Broker")), returns=Opt(Val),
                  # missing_requirements: written by add_exception on the way (left equal, see PROCESS_FRAME); timeout: datasource.invoke
                  modifies=["Broker.exceptions", "Broker.tracebacks", "Broker.missing_requirements", "Delegate.timeout"],
                  raises={"Exception": None},
                  ensures=PROCESS_FRAME, ensures_raise={"Exception": PROCESS_FRAME})
    reg.interface("Broker", "fire_observers", params=dict(self=Ref("Broker"), component=Comp),
                  note="observers are assumed not to write Broker fields; that no observer exception escapes is verified in Broker.fire_observers")

    reg.contract(M, "run_components",
                 params=dict(ordered_components=List(Comp), components=Map(Comp, Set(Comp)), broker=Ref("Broker")),
                 returns=Ref("Broker"),
                 requires=["distinct(ordered_components)",
                           "forall(c, DELEGATES, DELEGATES[c].component == c)"],
                 modifies=["Broker.instances", "Broker.exceptions", "Broker.tracebacks", "Broker.missing_requirements",
                           "Broker.exec_times", "BLACKLISTED_SPECS", "Delegate.timeout"],
                 ghosts=collections.OrderedDict(att=(List(Comp), "[]"), attpos=(List(INT), "[]"), attidx=(Map(Comp, INT), "{}"),
                                                g_arm=(INT, "0"), g_exc=(EXC, "uf('no_exc', EXC)"),
                                                g_exc0=(Map(Comp, List(EXC)), "broker.exceptions")),
                 locals=dict(att=List(Comp), attpos=List(INT), attidx=Map(Comp, INT), g_arm=INT, g_exc=EXC, g_exc0=Map(Comp, List(EXC))),
                 ghost_on=[("result = DELEGATES[component].process(broker)", "attidx[component] = len(att); att.append(component); attpos.append(i_0)", "before"),
                           ("start = time.time()", "g_arm = 0", "after"),
                           ("broker.add_exception(component, bs, traceback.format_exc())", "g_arm = 1; g_exc = bs", "after"),
                           ("broker.add_exception(component, mr)", "g_arm = 2; g_exc = mr", "after"),
                           ("log.debug(sc)", "g_arm = 3; g_exc = sc; g_exc0 = broker.exceptions", "before"),
                           ("pass", "g_arm = 3; g_exc = sc; g_exc0 = broker.exceptions", "before"),
                           ("log.debug(ex)", "g_arm = 4; g_exc = ex", "before"),
                           ("broker.exec_times[component] = time.time() - start", "assert (%s), 'accounting'" % RC_ACCOUNT, "before")],
                 loops={0: RC_INV, 1: RC_INV_BL, 2: RC_INV_INNER},
                 raises={},
                 ensures=["result == broker"] + RC_POST +
                         # process() is called only for components of the graph handed in that are registered and enabled
                         ["forall(j, range(0, len(att)), %s)" % RUNNABLE.format(c="att[j]")])


    # ------------------------------------------------------------------ dr.run (C01): its own body, from the archive pruning branch to the end
    RUN_PRUNE = ["forall(x, components, x in old(components) and components[x] == old(components)[x])",
                 "broker.instances == old(broker.instances)",
                 "forall(b, Ref_Broker, implies(b != broker, b.instances == old(b.instances)))"]
    reg.glob(M, SerializedArchiveContext=Comp)
    reg.contract(M, "run", window="evaluate",
                 params=collections.OrderedDict(components=Map(Comp, Set(Comp)), broker=Ref("Broker")), returns=Ref("Broker"),
                 from_stmt="broker = broker or Broker()", from_after=True,
                 requires=["forall(c, DELEGATES, DELEGATES[c].component == c)"],
                 modifies=["Broker.instances", "Broker.exceptions", "Broker.tracebacks", "Broker.missing_requirements",
                           "Broker.exec_times", "BLACKLISTED_SPECS", "Delegate.timeout", "components"],
                 loops={0: RUN_PRUNE, 1: RUN_PRUNE},
                 # a cyclic graph is refused by run_order (ValueError); the pruning loop reads components[comp] after an earlier iteration may
                 # have dropped comp (a seeded component that is itself a dependency of another seeded one): KeyError before anything ran
                 raises={"ValueError": None, "KeyError": None},
                 ghost_final=collections.OrderedDict(att=(List(Comp), "run_components_att"), graph=(Map(Comp, Set(Comp)), "components")),
                 ensures=RUN_POST)

    # ------------------------------------------------------------------ dependency closure (C01): walk_dependencies and the visitor of get_dependency_graph
    # the module-level name `graph` stands for the `graph` dictionary captured by get_dependency_graph's visitor (a defaultdict(set)): the visitor
    # contract says what one call adds; walk_dependencies.visit is verified against it (recursive: its own contract at the recursive call,
    # termination on an acyclic registry not proved); get_dependency_graph.<locals>.visitor is verified to BE such a visitor.
    Vis = U("Visitor")
    reg.sort(Visitor=Vis)
    reg.cls("Visitor", __truthy__=True)
    reg.glob(M, graph=Map(Comp, Set(Comp)), VISITED=Set(Comp))
    EDGES_OF = "(m[x] if x in m else emptyset_comp())"
    reg.specfun("emptyset_comp", dict(), Set(Comp), None)
    reg.axiom("isempty(emptyset_comp())")
    reg.specfun("edges_of", dict(m=Map(Comp, Set(Comp)), x=Comp), Set(Comp), EDGES_OF)
    GROWS = "forall(x, Comp, subset(edges_of(old(graph), x), edges_of(graph, x)))"
    reg.callable_sorts = getattr(reg, "callable_sorts", {})
    reg.callable_sorts["Visitor"] = reg.external(
        "<visitor>", params=collections.OrderedDict(v=Vis, c=Comp, parent=Opt(Comp)), modifies=["graph"], raises={},
        ensures=["implies(parent is None, graph == old(graph))",
                 "implies(parent is not None, c in edges_of(graph, some(parent)))", GROWS],
        note="the visitor get_dependency_graph passes to walk_dependencies: records the edge parent -> c (verified for the real visitor below)")
    CLOSED = "forall(x, VISITED, forall(d, deps_of(x), d in edges_of(graph, x) and d in VISITED))"
    reg.contract(M, "walk_dependencies.<locals>.visit", params=collections.OrderedDict(parent=Comp, visitor=Vis),
                 modifies=["graph", "VISITED"], raises={},
                 ghost_on=[("visit(d, visitor)", "VISITED.add(d)", "after")],
                 # VISITED: the components whose own dependencies have all been recorded (and visited); a call leaves `parent` ready to join it
                 requires=[CLOSED],
                 loops={0: [CLOSED, GROWS, "subset(old(VISITED), VISITED)",
                            "forall(j, range(0, i_0), it_0[j] in edges_of(graph, parent) and it_0[j] in VISITED)"]},
                 ensures=[CLOSED, GROWS, "subset(old(VISITED), VISITED)",
                          "forall(d, deps_of(parent), d in edges_of(graph, parent) and d in VISITED)"])
    reg.defaultdicts["graph"] = "set()"
    reg.contract(M, "get_dependency_graph.<locals>.visitor", params=collections.OrderedDict(c=Comp, parent=Opt(Comp)), modifies=["graph"], raises={},
                 ensures=["implies(parent is None, graph == old(graph))",
                          "implies(parent is not None, c in edges_of(graph, some(parent)))", GROWS.replace("WALKED", "graph")],
                 note="the real visitor: exactly the assumed <visitor> contract, over the captured dictionary")
    reg.contract(M, "walk_dependencies", params=collections.OrderedDict(root=Comp, visitor=Vis), modifies=["graph", "VISITED"], raises={},
                 requires=[CLOSED],
                 ghost_on=[("visit(root, visitor)", "VISITED.add(root)", "after")],
                 # everything reachable from the root has all its declared dependencies recorded: the walked graph is closed under them
                 ensures=["root in VISITED", CLOSED, GROWS])

    # ------------------------------------------------------------------ toposort (insights/contrib/toposort.py)
    reg.specfun("nodes", dict(g=Map(Comp, Set(Comp))), Set(Comp), "union(keys(g), bigunion(g))")
    reg.sort(GraphT=Map(Comp, Set(Comp)))
    reg.contract(TS, "toposort", params=dict(data=Map(Comp, Set(Comp))), yields=Set(Comp),
                 empties=dict(set=Set(Comp)),
                 ghosts=dict(done=(Set(Comp), "set()"), lvl=(Map(Comp, INT), "{}")),
                 locals=dict(done=Set(Comp), lvl=Map(Comp, INT)),
                 ghost_on=[("yield ordered", "lvl = store_all(lvl, ordered, len(yields_)); done = done | ordered", "before")],
                 loops={0: TS_INV0, 1: TS_INV1},
                 raises={"ValueError": None},
                 ensures=TS_POST,
                 note="shallow-copy aliasing is not modelled: the in-place removal of self-dependencies from the caller's "
                      "sets (data.copy() shares the inner sets) is outside the encoding")

    reg.contract(TS, "toposort_flatten", params=dict(data=Map(Comp, Set(Comp)), sort=BOOL), returns=List(Comp),
                 locals=dict(result=List(Comp)),
                 loops={0: TF_INV},
                 raises={"ValueError": None},
                 ghost_final=dict(lvl=(Map(Comp, INT), "toposort_lvl")),
                 ensures=TF_POST)
    reg.contract(M, "run_order", params=dict(graph=Map(Comp, Set(Comp))), returns=List(Comp),
                 raises={"ValueError": None},
                 ensures=[t for t in TF_POST_GRAPH if "lvl" not in t] + RO_POST)

    # ------------------------------------------------------------------ observers
    reg.external("get_component_type", params=dict(component=Comp), returns=Opt(TypeT), pure=True)
    reg.callable_sorts = getattr(reg, "callable_sorts", {})
    reg.callable_sorts["Obs"] = reg.external("<observer>", params=dict(o=Obs, component=Comp, broker=Ref("Broker")),
                                             raises={"Exception": None}, raise_frame="unchanged",
                                             note="an observer may raise any Exception; it is assumed not to write Broker fields")
    reg.contract(M, "Broker.fire_observers", params=dict(self=Ref("Broker"), component=Comp),
                 loops={0: ["True"], 1: ["True"]}, raises={}, ensures=[])

    # ------------------------------------------------------------------ sub-graph decomposition (C04)
    reg.specfun("deps_of", dict(c=Comp), Set(Comp), None)
    reg.specfun("dependents_of", dict(c=Comp), Set(Comp), None)
    reg.external("get_dependencies", params=dict(component=Comp), returns=Set(Comp), pure=True, ensures=["result == deps_of(component)"],
                 note="get_dependencies(c) is the delegate's dependency set; read-only")
    reg.external("get_dependents", params=dict(component=Comp), returns=Set(Comp), pure=True, ensures=["result == dependents_of(component)"])
    reg.glob(M, DEPENDENCIES=Map(Comp, Set(Comp)), COMPONENTS=Map(U("Group"), Map(Comp, Set(Comp))))
    reg.cls("Delegate", group=U("Group"))
    reg.defaultdicts.update({"DEPENDENCIES": "set()"})
    reg.external("add_dependent", params=dict(component=Comp, dep=Comp), modifies=["DEPENDENTS"],
                 note="add_dependent(c, d): DEPENDENTS[c].add(d)")
    reg.specfun("nbr", dict(x=Comp, y=Comp), BOOL, "y in deps_of(x) or y in dependents_of(x)")
    reg.contract(M, "get_subgraphs", params=dict(graph=Map(Comp, Set(Comp))), yields=Map(Comp, Set(Comp)),
                 # DEPENDENTS is the inverse of the delegates' dependency sets (established by ComponentType.__call__ / add_dependency)
                 requires=["forall(x, Comp, forall(y, Comp, (y in deps_of(x)) == (x in dependents_of(y))))"],
                 empties=dict(set=Set(Comp)),
                 ghosts=collections.OrderedDict(Y=(Set(Comp), "set()"), G=(Map(Comp, Set(Comp)), "graph if graph else DEPENDENCIES"),
                                                yidx=(Map(Comp, INT), "{}"), k0=(Comp, "uf('no_comp', Comp)"), removed=(Set(Comp), "set()")),
                 locals=dict(Y=Set(Comp), frontier=Set(Comp), seen=Set(Comp), keys=List(Comp), yidx=Map(Comp, INT), k0=Comp, removed=Set(Comp)),
                 ghost_on=[("frontier.add(keys.pop(0))", "k0 = keys[0]", "before"),
                           ("yield dict(((s, get_dependencies(s)) for s in seen))",
                            "Y = Y | seen; yidx = store_all(yidx, seen, len(yields_) - 1); removed = set()", "after"),
                           ("keys.remove(s)", "removed.add(s)", "before")],
                 loops={0: SG_OUTER, 1: SG_INNER, 2: SG_REMOVE},
                 raises={},
                 ensures=SG_POST)
    declare_init(reg)
    declare_init_tags(reg)


def declare_init(reg):
    """ComponentType.__init__ (C02): two windows of the constructor body - the classification of the declared dependencies and the
    final dependency list.  *deps / **kwargs handling, metadata, group and tags (before / between / after the windows) are not executed."""
    Dep = U("Dep")          # one declared dependency: a component, or a list of components (an at-least-one group)
    reg.sort(Dep=Dep, Str=STR)
    reg.cls("Dep", __isinstance__={"list": "is_group(self)"})
    reg.specfun("is_group", dict(d=Dep), BOOL, None)
    reg.specfun("group_of", dict(d=Dep), List(Comp), None)
    reg.specfun("comp_of", dict(d=Dep), Comp, None)
    reg.iter_views = getattr(reg, "iter_views", {})
    reg.iter_views["Dep"] = ("group_of", List(Comp))
    reg.coercions = getattr(reg, "coercions", {})
    reg.coercions[(Dep.key, Comp.key)] = "comp_of"
    reg.coercions[(Dep.key, List(Comp).key)] = "group_of"
    reg.cls("DelegateCls", requires=List(Dep), optional=List(Comp))
    reg.classes["Delegate"]["__class__"] = Ref("DelegateCls")
    R = "(self.__class__.requires + deps)"
    SZ = "(len(group_of(requires[{k}])) if is_group(requires[{k}]) else 1)"
    INV = ["it_1 == requires", "len(off) == i_1 + 1 and off[0] == len(D0)", "len(self.deps) == off[i_1]",
           "forall(k, range(0, len(D0)), self.deps[k] == D0[k])",
           "forall(k, range(0, i_1 + 1), len(D0) <= off[k] and off[k] <= off[i_1])",
           # element k of the declaration contributes, in order, its group members or itself, at offsets off[k] .. off[k+1]
           "forall(k, range(0, i_1), off[k + 1] == off[k] + %s and off[k] >= len(D0))" % SZ.format(k="k"),
           "forall(k, range(0, i_1), implies(is_group(requires[k]), forall(j, range(0, len(group_of(requires[k]))), self.deps[off[k] + j] == group_of(requires[k])[j])))",
           "forall(k, range(0, i_1), implies(not is_group(requires[k]), self.deps[off[k]] == comp_of(requires[k])))",
           # required components and at-least-one groups, each in declaration order: ri / ai are the positions of the plain / group
           # declarations met so far
           "len(self.requires) == len(R0) + len(ri) and forall(k, range(0, len(R0)), self.requires[k] == R0[k])",
           "forall(m, range(0, len(ri)), 0 <= ri[m] and ri[m] < i_1 and not is_group(requires[ri[m]]) and self.requires[len(R0) + m] == comp_of(requires[ri[m]]))",
           "forall(a, range(0, len(ri)), forall(b, range(0, len(ri)), implies(a < b, ri[a] < ri[b])))",
           "len(rpos) == i_1 and forall(k, range(0, i_1), implies(not is_group(requires[k]), 0 <= rpos[k] and rpos[k] < len(ri) and ri[rpos[k]] == k))",
           "len(self.at_least_one) == len(A0) + len(ai) and forall(k, range(0, len(A0)), self.at_least_one[k] == A0[k])",
           "forall(m, range(0, len(ai)), 0 <= ai[m] and ai[m] < i_1 and is_group(requires[ai[m]]) and seq_eq(self.at_least_one[len(A0) + m], group_of(requires[ai[m]])))",
           "forall(a, range(0, len(ai)), forall(b, range(0, len(ai)), implies(a < b, ai[a] < ai[b])))",
           "len(apos) == i_1 and forall(k, range(0, i_1), implies(is_group(requires[k]), 0 <= apos[k] and apos[k] < len(ai) and ai[apos[k]] == k))"]
    reg.contract(M, "ComponentType.__init__", window="classify",
                 params=collections.OrderedDict(self=Ref("Delegate"), deps=List(Dep), kwargs=Map(STR, PY)),
                 from_stmt="requires = list(self.__class__.requires) + deps", to_stmt="self.optional = list(self.__class__.optional)",
                 modifies=["Delegate.requires", "Delegate.at_least_one", "Delegate.deps"],
                 locals=collections.OrderedDict(requires=List(Dep), off=List(INT), D0=List(Comp), R0=List(Comp), A0=List(List(Comp)), ri=List(INT), ai=List(INT), rpos=List(INT), apos=List(INT)),
                 no_merge=("*",),
                 ghosts=collections.OrderedDict(off=(List(INT), "[len(self.deps)]"), D0=(List(Comp), "self.deps"), R0=(List(Comp), "self.requires"),
                                                A0=(List(List(Comp)), "self.at_least_one"), ri=(List(INT), "[]"), ai=(List(INT), "[]"), rpos=(List(INT), "[]"), apos=(List(INT), "[]")),
                 ghost_on=[("self.deps.extend(d)", "off.append(len(self.deps)); ai.append(i_1); apos.append(len(ai) - 1); rpos.append(0 - 1)", "after"),
                           ("self.deps.append(d)", "off.append(len(self.deps)); ri.append(i_1); rpos.append(len(ri) - 1); apos.append(0 - 1)", "after")],
                 loops={1: INV}, raises={},
                 ensures=["seq_eq(requires, %s)" % R] + [t.replace("i_1", "len(requires)") for t in INV[1:]])
    # the lists the classification window extends start EMPTY (the window itself is verified from arbitrary entry values D0 / R0 / A0)
    reg.contract(M, "ComponentType.__init__", window="reset",
                 params=collections.OrderedDict(self=Ref("Delegate"), deps=List(Dep), kwargs=Map(STR, PY)),
                 from_stmt="self.requires = []", to_stmt="self.type = self.__class__",
                 modifies=["Delegate.requires", "Delegate.at_least_one", "Delegate.deps"], raises={},
                 ensures=["len(self.requires) == 0 and len(self.at_least_one) == 0 and len(self.deps) == 0",
                          "forall(o, Ref_Delegate, implies(o != self, o.requires == old(o.requires) and o.at_least_one == old(o.at_least_one) and o.deps == old(o.deps)))"])
    reg.contract(M, "ComponentType.__init__", window="dependencies",
                 params=collections.OrderedDict(self=Ref("Delegate"), deps=List(Dep), kwargs=Map(STR, PY)),
                 from_stmt="self.deps.extend(self.optional)", to_stmt="self.metadata = {}",
                 modifies=["Delegate.deps", "Delegate.dependencies"], raises={},
                 # optional dependencies come last, in order; the dependency set is exactly the members of the list
                 ensures=["seq_eq(self.deps, old(self.deps) + old(self.optional))", "self.dependencies == elems(self.deps)"])


def declare_init_tags(reg):
    """third window of ComponentType.__init__ (C12): a component's tags are the class defaults plus the declared ones, and the class
    default list is not modified (it is shared by every component of the type)."""
    reg.classes["DelegateCls"]["tags"] = List(STR)
    reg.classes["Delegate"]["tags"] = Set(STR)
    reg.contract(M, "ComponentType.__init__", window="tags",
                 params=collections.OrderedDict(self=Ref("Delegate"), deps=List(U("Dep")), kwargs=Map(STR, Opt(List(STR)))),
                 from_stmt="if kwargs.get('cluster', False):\n    self.group = GROUPS.cluster", from_after=True, locals=dict(tags=List(STR)),
                 modifies=["Delegate.tags"], raises={},
                 ensures=["forall(t, Str, (t in self.tags) == (t in elems(self.__class__.tags) or "
                          "('tags' in kwargs and kwargs['tags'] is not None and t in elems(some(kwargs['tags'])))))",
                          "forall(o, Ref_Delegate, implies(o != self, o.tags == old(o.tags)))"],
                 note="kwargs is read for the key 'tags' only in this window: typed as a mapping to optional lists of strings")
