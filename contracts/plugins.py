"""Sidecar contracts for insights/core/plugins.py (invoke overrides, rule.process)."""
import collections
from pyvc.dsl import *
from contracts.dr import M as DR, Comp, Val, MISSING

P = "insights/core/plugins.py"

IGNORED = "any(i in broker.instances for i in (IGNORE[self.component] if self.component in IGNORE else set()))"
ALL_PRESENT = ("(all(r in broker.instances for r in self.requires) and "
               " all(any(m in broker.instances for m in g) for g in self.at_least_one))")
ARGS = "[results.get(d) for d in self.deps]"
ARGS_B = "[broker.get(d) for d in self.deps]"

# recording discipline shared by every invoke(): exceptions are only appended, only under the component itself or
# one of its registry points, each with a traceback; instances / missing_requirements are not touched
def REC(b):
    return [
        "forall(c, Comp, implies(c in old(%s.exceptions), c in %s.exceptions))" % (b, b),
        "forall(c, Comp, implies(c != self.component and c not in regpoints(self.component), "
        "  (c in %s.exceptions) == (c in old(%s.exceptions)) and "
        "  implies(c in %s.exceptions, seq_eq(%s.exceptions[c], old(%s.exceptions)[c]))))" % (b, b, b, b, b),
        "forall(o, Ref_Broker, implies(o != %s, o.exceptions == old(o.exceptions) and o.tracebacks == old(o.tracebacks)))" % b,
        "forall(o, Ref_Broker, o.missing_requirements == old(o.missing_requirements))",
    ]


def declare(reg):
    # ------------------------------------------------------------------ ComponentType.invoke / process (dr.py)
    reg.contract(DR, "ComponentType.invoke", params=dict(self=Ref("Delegate"), results=Ref("Broker")), returns=Opt(Val),
                 raises={"Exception": "body_raises(self.component, %s)" % ARGS}, raise_frame="unchanged",
                 ensures=["result == body_value(self.component, %s)" % ARGS],
                 ensures_raise={"Exception": ["exc == body_exc(self.component, %s)" % ARGS]})

    # interface of invoke() as process() sees it (overrides: PluginType, datasource, parser - verified against it below)
    reg.interface("Delegate", "invoke", params=dict(self=Ref("Delegate"), broker=Ref("Broker")), returns=Opt(Val),
                  requires=[ALL_PRESENT],
                  modifies=["Broker.exceptions", "Broker.tracebacks", "Broker.missing_requirements", "Delegate.timeout"],
                  raises={"Exception": None},
                  ensures=REC("broker"), ensures_raise={"Exception": REC("broker")})

    reg.contract(DR, "ComponentType.process", params=dict(self=Ref("Delegate"), broker=Ref("Broker")), returns=Opt(Val),
                 modifies=["Broker.exceptions", "Broker.tracebacks", "Broker.missing_requirements", "Delegate.timeout"],
                 ghosts=dict(ninv=(INT, "0")), locals=dict(ninv=INT),
                 ghost_on=[("return self.invoke(broker)", "ninv = ninv + 1", "before")],
                 raises={"Exception": None},
                 ensures=["not old(%s)" % IGNORED, "old(%s)" % ALL_PRESENT, "ninv == 1"] + REC("broker"),
                 ensures_raise={"Exception": [
                     # an ignored context present: skip signal, body not invoked
                     "implies(old(%s), exc_is(exc, SkipComponent) and ninv == 0)" % IGNORED,
                     # requirements not met: MissingRequirements naming exactly the missing ones, body not invoked
                     "implies(not old(%s) and not old(%s), exc_is(exc, MissingRequirements) and ninv == 0 and "
                     "  seq_eq(exc.requirements[0], old([r for r in self.requires if r not in broker.instances])) and "
                     "  seq_eq(exc.requirements[1], old([g for g in self.at_least_one if not any(m in broker.instances for m in g)])))"
                     % (IGNORED, ALL_PRESENT),
                     # otherwise the exception is invoke()'s
                     "implies(not old(%s) and old(%s), ninv == 1)" % (IGNORED, ALL_PRESENT),
                 ] + REC("broker")})

    # ------------------------------------------------------------------ calling conventions of component bodies
    INST = Map(Comp, Opt(Val))
    for n, ps in (("ds", dict(c=Comp, inst=INST)), ("p", dict(c=Comp, v=Opt(Val)))):
        reg.specfun(n + "_raises", ps, BOOL, None)
        reg.specfun(n + "_value", ps, Opt(Val), None)
        reg.specfun(n + "_exc", ps, EXC, None)
    conv_b = reg.external("<datasource body>", params=dict(c=Comp, broker=Ref("Broker")), returns=Opt(Val),
                          raises={"Exception": "ds_raises(c, broker.instances)"}, raise_frame="unchanged",
                          ensures=["result == ds_value(c, broker.instances)"],
                          ensures_raise={"Exception": ["exc == ds_exc(c, broker.instances)", "not isinstance_exc(exc, MissingRequirements)"]},
                          note="a datasource body is called with the broker; assumed deterministic in the broker's values, "
                               "not to write Broker fields, and to raise only Exception subclasses")
    conv_c = reg.external("<parser body>", params=dict(c=Comp, v=Opt(Val)), returns=Opt(Val),
                          raises={"Exception": "p_raises(c, v)"}, raise_frame="unchanged",
                          ensures=["result == p_value(c, v)"],
                          ensures_raise={"Exception": ["exc == p_exc(c, v)", "not isinstance_exc(exc, MissingRequirements)"]},
                          note="a parser body is called with one value; deterministic, no Broker writes")
    reg.callables[("Delegate", "component")] = [reg.callables[("Delegate", "component")], conv_b, conv_c]

    reg.cls("Delegate", continue_on_error=BOOL, timeout=INT)
    reg.cls("Val", __isinstance__={"list": "is_list_val(self)"})
    reg.specfun("is_list_val", dict(v=Val), BOOL, None)
    reg.specfun("val_items", dict(v=Val), List(Opt(Val)), None)
    reg.specfun("val_of_list", dict(l=List(Opt(Val))), Val, None)
    reg.iter_views = getattr(reg, "iter_views", {})
    reg.iter_views["Val"] = ("val_items", List(Opt(Val)))
    reg.coercions = getattr(reg, "coercions", {})
    reg.coercions[(List(Opt(Val)).key, Val.key)] = "val_of_list"
    reg.glob(P, component=Comp, HostContext=Comp)
    for n in ("log.info", "log.debug", "log.exception", "log.warning", "log.error", "signal.signal", "signal.alarm"):
        reg.external(n, drop=True)
    reg.external("dr.get_registry_points", params=dict(component=Comp, datasource=Opt(BOOL)), defaults=dict(datasource="None"),
                 returns=Set(Comp), pure=True, ensures=["result == regpoints(component)"])
    reg.external("dr.get_name", params=dict(component=Comp), returns=STR, pure=True)

    LAST = lambda k, e: ("%s in broker.exceptions and len(broker.exceptions[%s]) >= 1 and "
                         "broker.exceptions[%s][len(broker.exceptions[%s]) - 1] == %s and "
                         "%s in broker.tracebacks and broker.tracebacks[%s] is not None") % (k, k, k, k, e, e, e)
    BODY_A = "body_exc(self.component, %s)" % ARGS_B
    CC = "(isinstance_exc(%s, ContentException) or isinstance_exc(%s, CalledProcessError))" % (BODY_A, BODY_A)
    # ------------------------------------------------------------------ PluginType.invoke
    reg.contract(P, "PluginType.invoke", params=dict(self=Ref("Delegate"), broker=Ref("Broker")), returns=Opt(Val),
                 modifies=["Broker.exceptions", "Broker.tracebacks", "Broker.missing_requirements"],
                 raises={"Exception": "body_raises(self.component, %s)" % ARGS_B},
                 ensures=["result == body_value(self.component, %s)" % ARGS_B,
                          "broker.exceptions == old(broker.exceptions)"] + REC("broker"),
                 ensures_raise={"Exception": REC("broker") + [
                     # content / command errors: recorded against the component itself with a traceback, then a skip
                     "implies(%s, exc_is(exc, SkipComponent))" % CC,
                     "implies(%s, self.component in broker.exceptions and len(broker.exceptions[self.component]) >= 1)" % CC,
                     "implies(%s, broker.exceptions[self.component][len(broker.exceptions[self.component]) - 1] == %s)" % (CC, BODY_A),
                     "implies(%s, %s in broker.tracebacks and broker.tracebacks[%s] is not None)" % (CC, BODY_A, BODY_A),
                     # anything else propagates unchanged and nothing is recorded here
                     "implies(not (isinstance_exc(%s, ContentException) or isinstance_exc(%s, CalledProcessError)), "
                     "        exc == %s and broker.exceptions == old(broker.exceptions))" % (BODY_A, BODY_A, BODY_A),
                     "forall(b, Ref_Broker, b.missing_requirements == old(b.missing_requirements))",
                 ]})

    # ------------------------------------------------------------------ parser.invoke (multi-output aware)
    C_ = "self.component"
    ITEMS = "val_items(some(broker.instances[self.requires[0]]))"
    LISTDEP = "(old(broker.instances[self.requires[0]]) is not None and is_list_val(some(old(broker.instances[self.requires[0]]))))"
    DEP = "broker.instances[self.requires[0]]"
    # element k of a list-valued dependency is *recorded* iff its body raises and the exception is not a plain skip
    # (a ContentException is a SkipComponent subclass but is recorded), or skips are stored
    def REC_ELEM(k):
        e = "p_exc(%s, it_0[%s])" % (C_, k)
        return ("(p_raises(%s, it_0[%s]) and (not isinstance_exc(%s, SkipComponent) or isinstance_exc(%s, ContentException) "
                "or broker.store_skips))" % (C_, k, e, e))
    def KEPT_ELEM(k):
        return "(not p_raises(%s, it_0[%s]) and p_value(%s, it_0[%s]) is not None)" % (C_, k, C_, k)
    ONLY_SELF = [
        "forall(c, Comp, implies(c in old(broker.exceptions), c in broker.exceptions))",
        # nothing is recorded against any other component, recorded lists only grow
        "forall(c, Comp, implies(c != %s, (c in broker.exceptions) == (c in old(broker.exceptions)) and "
        "  implies(c in broker.exceptions, seq_eq(broker.exceptions[c], old(broker.exceptions)[c]))))" % C_,
        "forall(o, Ref_Broker, implies(o != broker, o.exceptions == old(o.exceptions) and o.tracebacks == old(o.tracebacks)))",
        "forall(o, Ref_Broker, o.missing_requirements == old(o.missing_requirements))",
    ]
    NOLD = "len(excs_of(old(broker.exceptions), %s))" % C_
    PI_INV = ONLY_SELF + [
        "in_loop",
        "it_0 == %s" % "val_items(some(dep_value))",
        # results: the non-None values of the elements that did not raise, in order (src: their positions)
        "len(src) == len(results)",
        "forall(j, range(0, len(src)), 0 <= src[j] and src[j] < i_0 and %s and results[j] == p_value(%s, it_0[src[j]]))" % (KEPT_ELEM("src[j]"), C_),
        "forall(a, range(0, len(src)), forall(b, range(0, len(src)), implies(a < b, src[a] < src[b])))",
        "forall(k, range(0, i_0), implies(%s, k in srcidx and 0 <= srcidx[k] and srcidx[k] < len(src) and src[srcidx[k]] == k))" % KEPT_ELEM("k"),
        # recorded exceptions: exactly those of the recordable elements, in order, appended to the component's own list
        "len(excs_of(broker.exceptions, %s)) == %s + len(recsrc)" % (C_, NOLD),
        "forall(j, range(0, %s), excs_of(broker.exceptions, %s)[j] == excs_of(old(broker.exceptions), %s)[j])" % (NOLD, C_, C_),
        "forall(j, range(0, len(recsrc)), 0 <= recsrc[j] and recsrc[j] < i_0 and %s and "
        "  excs_of(broker.exceptions, %s)[%s + j] == p_exc(%s, it_0[recsrc[j]]) and "
        "  p_exc(%s, it_0[recsrc[j]]) in broker.tracebacks and broker.tracebacks[p_exc(%s, it_0[recsrc[j]])] is not None)"
        % (REC_ELEM("recsrc[j]"), C_, NOLD, C_, C_, C_),
        "forall(a, range(0, len(recsrc)), forall(b, range(0, len(recsrc)), implies(a < b, recsrc[a] < recsrc[b])))",
        "forall(k, range(0, i_0), implies(%s, k in recidx and 0 <= recidx[k] and recidx[k] < len(recsrc) and recsrc[recidx[k]] == k))" % REC_ELEM("k"),
        "implies(len(recsrc) > 0, %s in broker.exceptions)" % C_,
        "not exception",
    ]
    reg.contract(P, "parser.invoke", params=dict(self=Ref("Delegate"), broker=Ref("Broker")), returns=Opt(Val),
                 requires=["self.requires[0] in broker.instances"],
                 assume=["len(self.requires) >= 1"],
                 note="a parser delegate always has at least one required dependency (the datasource it parses): assumed",
                 modifies=["Broker.exceptions", "Broker.tracebacks", "Broker.missing_requirements"],
                 locals=dict(results=List(Opt(Val)), src=List(INT), srcidx=Map(INT, INT), recsrc=List(INT), recidx=Map(INT, INT),
                             in_loop=BOOL, gres=List(Opt(Val))),
                 ghosts=collections.OrderedDict(src=(List(INT), "[]"), srcidx=(Map(INT, INT), "{}"), recsrc=(List(INT), "[]"),
                                                recidx=(Map(INT, INT), "{}"), in_loop=(BOOL, "False"), gres=(List(Opt(Val)), "[]")),
                 ghost_on=[("results = []", "in_loop = True", "after"),
                           ("results.append(r)", "srcidx[i_0] = len(src); src.append(i_0)", "after"),
                           ("broker.add_exception(_, _, _)",
                            "if in_loop:\n    recidx[i_0] = len(recsrc)\n    recsrc.append(i_0)", "after"),
                           ("return results", "gres = results", "before")],
                 loops={0: PI_INV},
                 raises={"Exception": None},
                 ensures=ONLY_SELF + [
                     # single value: the body's value, nothing recorded
                     "implies(not %s, result == p_value(%s, old(%s)) and not p_raises(%s, old(%s)) and "
                     "        broker.exceptions == old(broker.exceptions))" % (LISTDEP, C_, DEP, C_, DEP),
                     # list: the non-None element values in element order
                     "implies(%s, result == val_of_list(gres) and len(gres) >= 1 and len(src) == len(gres))" % LISTDEP,
                     "implies(%s, forall(j, range(0, len(src)), 0 <= src[j] and src[j] < len(old(%s)) and "
                     "   gres[j] == p_value(%s, old(%s)[src[j]]) and not p_raises(%s, old(%s)[src[j]])))" % (LISTDEP, ITEMS, C_, ITEMS, C_, ITEMS),
                     "implies(%s, forall(a, range(0, len(src)), forall(b, range(0, len(src)), implies(a < b, src[a] < src[b]))))" % LISTDEP,
                     "implies(%s, forall(k, range(0, len(old(%s))), implies(not p_raises(%s, old(%s)[k]) and p_value(%s, old(%s)[k]) is not None, "
                     "   k in srcidx and 0 <= srcidx[k] and srcidx[k] < len(src) and src[srcidx[k]] == k)))" % (LISTDEP, ITEMS, C_, ITEMS, C_, ITEMS),
                 ],
                 ensures_raise={"Exception": ONLY_SELF + [
                     # from a list-valued dependency only the skip signal escapes
                     "implies(%s, exc_is(exc, SkipComponent))" % LISTDEP,
                 ]})

    # ------------------------------------------------------------------ datasource.invoke
    DSV = "ds_value(self.component, broker.instances)"
    DSX = "ds_exc(self.component, broker.instances)"
    DSR = "ds_raises(self.component, broker.instances)"
    FAULT = "(isinstance_exc(%s, ContentException) or isinstance_exc(%s, CalledProcessError) or isinstance_exc(%s, TimeoutException))" % (DSX, DSX, DSX)
    ONLY_RP = REC("broker") + ["forall(o, Ref_Broker, o.missing_requirements == old(o.missing_requirements))"]
    def DS_INV(ev):
        # loop over the registry points (arbitrary order): the processed ones carry the exception last, the others are untouched
        return ONLY_RP + [
            "forall(j, range(0, i_), it_[j] in broker.exceptions and len(broker.exceptions[it_[j]]) >= 1 and "
            "  broker.exceptions[it_[j]][len(broker.exceptions[it_[j]]) - 1] == %s)" % ev,
            "forall(j, range(i_, len(it_)), (it_[j] in broker.exceptions) == (it_[j] in old(broker.exceptions)) and "
            "  implies(it_[j] in broker.exceptions, seq_eq(broker.exceptions[it_[j]], old(broker.exceptions)[it_[j]])))",
            "implies(i_ > 0, %s in broker.tracebacks and broker.tracebacks[%s] is not None)" % (ev, ev),
        ]
    reg.contract(P, "datasource.invoke", params=dict(self=Ref("Delegate"), broker=Ref("Broker")), returns=Opt(Val),
                 modifies=["Broker.exceptions", "Broker.tracebacks", "Broker.missing_requirements", "Delegate.timeout"],
                 loops={0: [t.replace("i_", "i_0").replace("it_", "it_0") for t in DS_INV("ce")],
                        1: [t.replace("i_", "i_1").replace("it_", "it_1") for t in DS_INV("cpe")],
                        2: [t.replace("i_", "i_2").replace("it_", "it_2") for t in DS_INV("te")]},
                 raises={"Exception": DSR},
                 ensures=["result == %s" % DSV, "broker.exceptions == old(broker.exceptions)"] + ONLY_RP,
                 ensures_raise={"Exception": ONLY_RP + [
                     "implies(%s, exc_is(exc, SkipComponent))" % FAULT,
                     # every registry point of the datasource gets the fault, with a traceback
                     "implies(%s, forall(r, regpoints(self.component), r in broker.exceptions and len(broker.exceptions[r]) >= 1 and "
                     "   broker.exceptions[r][len(broker.exceptions[r]) - 1] == %s))" % (FAULT, DSX),
                     "implies(%s and isempty(regpoints(self.component)), self.component in broker.exceptions and len(broker.exceptions[self.component]) >= 1 and "
                     "   broker.exceptions[self.component][len(broker.exceptions[self.component]) - 1] == %s)" % (FAULT, DSX),
                     # accounting clause of the property: the fault is recorded against the datasource or a spec it implements
                     "implies(%s and not isinstance_exc(%s, SkipComponent), "
                     "   exists(k, Comp, (k == self.component or k in regpoints(self.component)) and k in broker.exceptions and "
                     "          len(broker.exceptions[k]) >= 1 and broker.exceptions[k][len(broker.exceptions[k]) - 1] == %s))" % (FAULT, DSX, DSX),
                     "implies(not %s, exc == %s and broker.exceptions == old(broker.exceptions))" % (FAULT, DSX),
                 ]})

    # ------------------------------------------------------------------ rule.process
    reg.glob(P, IGNORE=Map(Comp, Set(Comp)))
    reg.dotted_globals = getattr(reg, "dotted_globals", {})
    reg.dotted_globals["dr.IGNORE"] = "IGNORE"
    reg.defaultdicts["IGNORE"] = "set()"
    reg.classes["Val"]["__isinstance__"]["Response"] = "is_response(self)"
    reg.specfun("is_response", dict(v=Val), BOOL, None)
    reg.specfun("resp_type", dict(v=Val), STR, None)
    reg.specfun("resp_missing", dict(v=Val), MISSING, None)
    reg.external("_make_skip", params=dict(rule_fqdn=STR, missing=MISSING), returns=Opt(Val),
                 ensures=["result is not None", "is_response(some(result))", "resp_type(some(result)) == 'skip'",
                          "seq_eq(resp_missing(some(result))[0], missing[0])", "seq_eq(resp_missing(some(result))[1], missing[1])"],
                 note="_make_skip(name, missing) builds a Response of type 'skip' that carries `missing` (its constructor is under contract in C12)")
    reg.external("make_none", returns=Opt(Val),
                 ensures=["result is not None", "is_response(some(result))", "resp_type(some(result)) == 'none'"])
    MR = "[r for r in self.requires if r not in broker.instances]"
    MA = "[g for g in self.at_least_one if not any(m in broker.instances for m in g)]"
    reg.contract(P, "rule.process", params=dict(self=Ref("Delegate"), broker=Ref("Broker")), returns=Opt(Val),
                 modifies=["Broker.exceptions", "Broker.tracebacks", "Broker.missing_requirements", "Delegate.timeout"],
                 ghosts=dict(ninv=(INT, "0"), inv_val=(Opt(Val), "None")), locals=dict(ninv=INT, inv_val=Opt(Val)),
                 ghost_on=[("r = self.invoke(broker)", "ninv = ninv + 1", "before"), ("r = self.invoke(broker)", "inv_val = r", "after")],
                 raises={"Exception": None},
                 ensures=["not old(%s)" % IGNORED] + REC("broker") + [
                     # requirements not met: a skip response naming exactly the missing ones; the body is not invoked
                     "implies(not old(%s), ninv == 0 and result is not None and is_response(some(result)) and resp_type(some(result)) == 'skip' and "
                     "   seq_eq(resp_missing(some(result))[0], old(%s)) and seq_eq(resp_missing(some(result))[1], old(%s)))" % (ALL_PRESENT, MR, MA),
                     # requirements met: invoked once; None becomes the 'none' response; a Response is returned unchanged
                     "implies(old(%s), ninv == 1 and result is not None and is_response(some(result)))" % ALL_PRESENT,
                     "implies(old(%s) and inv_val is None, resp_type(some(result)) == 'none')" % ALL_PRESENT,
                     "implies(old(%s) and inv_val is not None, result == inv_val)" % ALL_PRESENT,
                 ],
                 ensures_raise={"Exception": REC("broker") + [
                     "implies(old(%s), exc_is(exc, SkipComponent) and ninv == 0)" % IGNORED,
                     "implies(not old(%s), old(%s))" % (IGNORED, ALL_PRESENT),       # missing requirements never raise for a rule
                     "implies(not old(%s), ninv == 1)" % IGNORED,
                     # a non-Response return value is an error
                     "implies(not old(%s) and ninv == 1 and inv_val is not None and not is_response(some(inv_val)), exc_is(exc, Exception))" % IGNORED,
                 ]})
