# keyword inside a host name: which obfuscator runs first used to depend on PYTHONHASHSEED (iteration over a set of names)
import sys, os, subprocess
CHILD = r'''
import sys, os
sys.path.insert(0, os.getcwd())
from insights.cleaner import Cleaner
class Cfg: obfuscate=True; obfuscate_hostname=True; obfuscate_ipv6=False; obfuscate_mac=False
c = Cleaner(Cfg(), {"keywords": ["web"]}, fqdn="web01.corp.test")
print(c.clean_content(["connect web01.corp.test ok"]))
'''
outs = set()
for seed in range(8):
    env = dict(os.environ, PYTHONHASHSEED=str(seed))
    outs.add(subprocess.run([sys.executable, "-c", CHILD], env=env, stdout=subprocess.PIPE, universal_newlines=True).stdout.strip())
print(outs)
sys.exit(0 if len(outs) == 1 else 1)
