"""BOUNDED stand-in / native witness search for the deny-list matching of C06 (never counted as proved): allow_file / allow_command for every
deny list of <= 2 entries and every candidate over the alphabet {a, b, ' ', '/'} up to length L, against the rule the contract states:
a candidate is denied iff some entry equals it or is followed in it by a space (the entry with arguments); plus a file datasource check that a
path whose real location is outside the root is refused (sibling directory sharing the root's name as prefix, '..' segments, symlink).
usage: /venv/bin/python blacklist_exhaustive.py <repo root> <L> ; exit 1 + JSON line with a witness."""
import itertools, json, os, shutil, sys, tempfile
root, L = sys.argv[1], int(sys.argv[2])
sys.path.insert(0, root)
import logging
logging.disable(logging.CRITICAL)
from insights.core import blacklist


def fail(**kw):
    print(json.dumps(kw, default=repr))
    sys.exit(1)


ALPHA = "ab /"
strings = [""]
for n in range(1, L + 1):
    strings += ["".join(t) for t in itertools.product(ALPHA, repeat=n)]
entries = [s for s in strings if s and len(s) <= 3]
n = 0
for filters in [()] + [(e,) for e in entries] + list(itertools.combinations(entries, 2)):
    for kind, store, fn in (("file", blacklist._FILE_FILTERS, blacklist.allow_file), ("command", blacklist._COMMAND_FILTERS, blacklist.allow_command)):
        store.clear()
        store.update(filters)
        for c in strings:
            want = not any(c == f or c.startswith(f + " ") for f in filters)
            n += 1
            if bool(fn(c)) != want:
                store.clear()
                fail(violation="allow_%s disagrees with the deny rule" % kind, deny_list=list(filters), candidate=c, got=bool(fn(c)), want=want)
        store.clear()

# ---- root containment of file datasources
from insights.core.spec_factory import TextFileProvider
from insights.core.exceptions import ContentException
tmp = tempfile.mkdtemp(prefix="c06b_")
checked = 0
try:
    r = os.path.join(tmp, "root")
    os.makedirs(os.path.join(r, "etc"))
    os.makedirs(os.path.join(tmp, "root2"))
    os.makedirs(os.path.join(tmp, "other"))
    for p, txt in ((os.path.join(r, "etc", "inside"), "inside"), (os.path.join(tmp, "root2", "secret"), "secret"), (os.path.join(tmp, "other", "secret"), "secret")):
        open(p, "w").write(txt + "\n")
    os.symlink(os.path.join(tmp, "other", "secret"), os.path.join(r, "etc", "link_abs"))
    os.symlink("../../other/secret", os.path.join(r, "etc", "link_rel"))
    os.symlink("inside", os.path.join(r, "etc", "link_ok"))
    os.symlink("../../other", os.path.join(r, "etc", "dirlink"))        # a directory on the way is a link leading outside
    CASES = [("etc/inside", True), ("etc/link_ok", True), ("etc/../etc/inside", True), ("../root2/secret", False), ("../other/secret", False),
             ("etc/../../other/secret", False), ("etc/link_abs", False), ("etc/link_rel", False), ("../root/etc/inside", True),
             ("etc/dirlink/secret", False), ("etc/dirlink/../root/etc/inside", True)]
    for rel, inside in CASES:
        checked += 1
        try:
            content = TextFileProvider(rel, root=r).content
            served = True
        except (ContentException, Exception):
            served, content = False, None
        if served and not inside:
            fail(violation="a file outside the root was served", root=r, relative_path=rel, content=content)
        if not served and inside:
            fail(violation="a file inside the root was refused", root=r, relative_path=rel)
    # the root of an execution context may itself be a symbolic link, and what it points to may change between two collections of one
    # process (a new extraction directory, a remounted sysroot): containment is always judged against where the root leads NOW
    for run in ("run1", "run2"):
        os.makedirs(os.path.join(tmp, run, "etc"))
        open(os.path.join(tmp, run, "etc", "conf"), "w").write(run + "\n")
    os.symlink(os.path.join(tmp, "run1", "etc", "conf"), os.path.join(tmp, "run2", "etc", "back"))      # leads back into the OLD directory
    cur = os.path.join(tmp, "current")
    os.symlink(os.path.join(tmp, "run1"), cur)
    first = TextFileProvider("etc/conf", root=cur).content
    os.remove(cur)
    os.symlink(os.path.join(tmp, "run2"), cur)
    checked += 2
    if first != ["run1"] or TextFileProvider("etc/conf", root=cur).content != ["run2"]:
        fail(violation="a file inside the (re-pointed) root was not served as it is now", root=cur)
    try:
        content = TextFileProvider("etc/back", root=cur).content
        fail(violation="a file outside the root was served (the root is a link that was re-pointed; containment was judged against where it led before)",
             root=cur, root_now=os.path.realpath(cur), relative_path="etc/back", content=content)
    except SystemExit:
        raise
    except Exception:
        pass
    # an execution context built by scanning an extracted archive (it carries the list of files found at scan time): a scanned entry that has
    # since become a link leaving the root is refused like any other - containment is judged when the file is read, not when it was listed
    from insights.core.hydration import create_context
    arch = os.path.join(tmp, "archive")
    os.makedirs(os.path.join(arch, "etc"))
    os.makedirs(os.path.join(tmp, "archive2"))
    for rel_ in ("etc/hosts", "etc/conf", "insights_commands_placeholder"):
        open(os.path.join(arch, rel_), "w").write("inside\n")
    open(os.path.join(tmp, "archive2", "shadow"), "w").write("secret\n")
    ctx = create_context(arch)
    checked += 2
    if TextFileProvider("etc/hosts", root=ctx.root, ctx=ctx).content != ["inside"]:
        fail(violation="a file inside the root of a scanned archive was not served", root=ctx.root)
    os.remove(os.path.join(arch, "etc", "conf"))
    os.symlink(os.path.join(tmp, "archive2", "shadow"), os.path.join(arch, "etc", "conf"))
    try:
        content = TextFileProvider("etc/conf", root=ctx.root, ctx=ctx).content
        fail(violation="a file outside the root was served (an entry of a scanned archive that became a link leaving the root)", root=ctx.root,
             relative_path="etc/conf", content=content)
    except SystemExit:
        raise
    except Exception:
        pass
finally:
    shutil.rmtree(tmp, ignore_errors=True)
print(json.dumps({"ok": True, "deny_checks": n, "containment_cases": checked, "max_len": L}))
