"""Access to the real source under $VERIF_REPO: parsing, function lookup by qualified name,
loop ordinals, class statements, literal module constants.  Nothing here is cached across runs."""
import ast
import hashlib
import os


class SourceError(Exception):
    pass


class Module(object):
    def __init__(self, root, rel):
        self.rel = rel
        self.path = os.path.join(root, rel)
        if not os.path.exists(self.path):
            raise SourceError("file missing: %s" % rel)
        with open(self.path) as f:
            self.text = f.read()
        self.lines = self.text.splitlines()
        self.tree = ast.parse(self.text, filename=self.path)

    def find(self, qualname):
        """Return (FunctionDef node, enclosing ClassDef or None)."""
        parts = qualname.split(".")
        body = self.tree.body
        node = None
        cls = None
        for p in parts:
            if p == "<locals>":
                continue
            if p.startswith("<lambda>#"):
                # the k-th lambda expression (source order) of the enclosing function, not descending into nested definitions:
                # verified as `def <lambda>(params): return <body>`
                lams = []

                def visit(n):
                    for c in ast.iter_child_nodes(n):
                        if isinstance(c, ast.Lambda):
                            lams.append(c)
                            continue
                        if isinstance(c, (ast.FunctionDef, ast.ClassDef)):
                            continue
                        visit(c)
                for stmt in body:
                    if isinstance(stmt, (ast.FunctionDef, ast.ClassDef)):
                        continue
                    if isinstance(stmt, ast.Lambda):
                        lams.append(stmt)
                    else:
                        visit(stmt)
                lams.sort(key=lambda l: (l.lineno, l.col_offset))
                k = int(p.split("#")[1])
                if k >= len(lams):
                    raise SourceError("%s: no lambda #%d (looking for %s)" % (self.rel, k, qualname))
                lam = lams[k]
                ret = ast.copy_location(ast.Return(value=lam.body), lam)
                node = ast.copy_location(ast.FunctionDef(name="<lambda>", args=lam.args, body=[ret], decorator_list=[], returns=None,
                                                         type_comment=None), lam)
                ast.fix_missing_locations(node)
                body = node.body
                continue
            found = None
            for n in _walk_defs(body):
                if isinstance(n, (ast.FunctionDef, ast.ClassDef)) and n.name == p:
                    found = n       # last definition wins, as in Python
            if found is None:
                raise SourceError("%s: no definition %s (looking for %s)" % (self.rel, p, qualname))
            if isinstance(found, ast.ClassDef):
                cls = found
            node = found
            body = found.body
        if not isinstance(node, ast.FunctionDef):
            raise SourceError("%s: %s is not a function" % (self.rel, qualname))
        return node, cls

    def segment(self, node):
        return "\n".join(self.lines[node.lineno - 1:node.end_lineno])

    def sha1(self, node):
        return hashlib.sha1(self.segment(node).encode()).hexdigest()

    def classes(self):
        return [n for n in ast.walk(self.tree) if isinstance(n, ast.ClassDef)]

    def constant(self, name):
        """Literal value of a module-level (or Class.NAME) assignment, via ast.literal_eval."""
        parts = name.split(".")
        body = self.tree.body
        for p in parts[:-1]:
            nxt = None
            for n in body:
                if isinstance(n, ast.ClassDef) and n.name == p:
                    nxt = n.body
            if nxt is None:
                raise SourceError("%s: no class %s" % (self.rel, p))
            body = nxt
        val = None
        found = False
        for n in body:
            if isinstance(n, ast.Assign) and any(isinstance(t, ast.Name) and t.id == parts[-1] for t in n.targets):
                val = n.value
                found = True
        if not found:
            raise SourceError("%s: no constant %s" % (self.rel, name))
        return val


def _walk_defs(body):
    """Definitions directly in this body, also those nested in if/try/with at the same scope."""
    for n in body:
        if isinstance(n, (ast.FunctionDef, ast.ClassDef)):
            yield n
        elif isinstance(n, (ast.If, ast.Try, ast.With, ast.For, ast.While)):
            for fld in ("body", "orelse", "finalbody"):
                for m in _walk_defs(getattr(n, fld, []) or []):
                    yield m
            for h in getattr(n, "handlers", []) or []:
                for m in _walk_defs(h.body):
                    yield m


def loop_ordinals(fn):
    """Pre-order numbering of for/while loops of a function body, not descending into nested defs."""
    out = {}
    counter = [0]

    def visit(n):
        for c in ast.iter_child_nodes(n):
            if isinstance(c, (ast.FunctionDef, ast.Lambda, ast.ClassDef)):
                continue
            if isinstance(c, (ast.For, ast.While)):
                out[id(c)] = counter[0]
                counter[0] += 1
            visit(c)
    visit(fn)
    return out


class Repo(object):
    def __init__(self, root=None):
        self.root = root or os.environ.get("VERIF_REPO", "/repo")
        self._mods = {}

    def module(self, rel):
        if rel not in self._mods:
            self._mods[rel] = Module(self.root, rel)
        return self._mods[rel]
