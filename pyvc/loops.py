"""Loop handling: functions defined here are attached to Engine as methods (see engine.py)."""
import ast
import z3
from . import core
from .core import CTX, V, NONEV, INT, List, Set, Map, Tup, OutsideSubset, fresh, wf, mk_int
from .state import Outcome, STATIC, CLOSURE, MODULE


def _append_loop_as_comprehension(self, s):
    """`for x in E: [if c:] L.append(e)` with nothing else in the body is `L.extend([e for x in E [if c]])`."""
    if s.orelse or len(s.body) != 1 or not isinstance(s.target, (ast.Name, ast.Tuple)):
        return None
    b = s.body[0]
    conds = []
    while isinstance(b, ast.If) and not b.orelse and len(b.body) == 1:
        conds.append(b.test)
        b = b.body[0]
    if not (isinstance(b, ast.Expr) and isinstance(b.value, ast.Call) and isinstance(b.value.func, ast.Attribute)
            and b.value.func.attr == "append" and isinstance(b.value.func.value, ast.Name) and len(b.value.args) == 1
            and not b.value.keywords):
        return None
    lst = b.value.func.value
    names = {n.id for n in ast.walk(s.target) if isinstance(n, ast.Name)}
    if lst.id in names or any(isinstance(n, ast.Name) and n.id == lst.id for c in conds + [b.value.args[0], s.iter] for n in ast.walk(c)):
        return None
    comp = ast.ListComp(elt=b.value.args[0], generators=[ast.comprehension(target=s.target, iter=s.iter, ifs=conds, is_async=0)])
    stmt = ast.Expr(value=ast.Call(func=ast.Attribute(value=ast.Name(id=lst.id, ctx=ast.Load()), attr="extend", ctx=ast.Load()),
                                   args=[comp], keywords=[]))
    ast.copy_location(stmt, s)
    ast.fix_missing_locations(stmt)
    return stmt


def st_For(self, s, st):
    ordinal = self.ordinals.get(id(s))
    if self.contract is not None and ordinal is not None and ordinal not in self.contract.loops:
        summ = self._append_loop_as_comprehension(s)
        if summ is not None:
            try:
                r = self.exec_stmt(summ, st)
                self.notes.append("loop at line %s read as the list comprehension it is (append-only body)" % s.lineno)
                return r
            except OutsideSubset as ex:
                self.notes.append("loop at line %s could not be read as a comprehension: %s" % (s.lineno, ex.args[0]))
                if __import__("os").environ.get("PYVC_DEBUG"):
                    print("summarise failed:", ex.args[0])
    outs = []
    for st1, seq in self.ev_iter(s.iter, st):
        if seq.ty is STATIC:
            outs.extend(self._unrolled(s, st1, seq.items))
        else:
            outs.extend(self.run_loop(s, st1, seq))
    return outs


def _unrolled(self, s, st, items):
    outs = []
    live = [st]
    for it in items:
        nxt = []
        for cur in live:
            for st2 in self.assign(s.target, it, cur, None):
                for o in self.exec_block(s.body, st2):
                    if o.kind in ("normal", "continue"):
                        nxt.append(o.st)
                    elif o.kind == "break":
                        outs.append(Outcome("normal", o.st))
                    else:
                        outs.append(o)
        live = nxt
    for cur in live:
        outs.extend(self.exec_block(s.orelse, cur) if s.orelse else [Outcome("normal", cur)])
    return outs


def st_While(self, s, st):
    return self.run_loop(s, st, None)


def dry_run(self, s, st, seq):
    """Execute the loop body once from the entry state ignoring path conditions, to learn which
    variables / heap fields / globals the body writes and with which types."""
    d = st.copy()
    d.dry = True
    d.written = set()
    n_obl, n_raise, n_cov = len(self.obls), len(self.raised), len(self.covers)
    types = {}
    try:
        sts = [d]
        if isinstance(s, ast.For):
            elem = core.lget(seq, fresh(INT, "dry_i").t)
            sts = [self._items_alias(s, x, self.ordinals.get(id(s))) for x in self.assign(s.target, self._elem_form(elem), d, None)]
        else:
            sts = [x for x, _ in self.ev_cond(s.test, d)]
        for cur in sts:
            for o in self.exec_block(s.body, cur):
                for k, v in o.st.env.items():
                    if ("v", k) in d.written and v is not None:
                        types.setdefault(k, v)
                for k, v in o.st.glob.items():
                    types.setdefault("g:" + k, v)
    finally:
        del self.obls[n_obl:]
        del self.raised[n_raise:]
        del self.covers[n_cov:]
    return d.written, types


def _elem_form(self, elem):
    if isinstance(elem.ty, Tup):
        return core.mk_tuple([core.tget(elem, i) for i in range(len(elem.ty.elems))])
    return elem


def havoc_written(self, st, written, types, keep=()):
    for kind, name in sorted(written):
        if kind == "r":
            continue
        if kind == "v":
            if name in keep:
                continue
            cur = st.env.get(name)
            proto = cur if cur is not None and cur.ty not in (STATIC,) and not str(cur.ty.key).startswith("Empty") else types.get(name)
            if proto is None:
                continue
            if proto.ty in (CLOSURE, MODULE):
                st.env[name] = proto
                continue
            if proto.ty is STATIC or str(proto.ty.key).startswith("Empty"):
                raise OutsideSubset("loop-modified variable %s has no declared type (add to locals)" % name)
            nv = fresh(proto.ty, name)
            st.assume(*wf(nv))
            st.env[name] = nv
            if ("r", name) in written:
                st.alias.pop(name, None)
        elif kind == "h":
            cls, f = name.split(".", 1)
            ty = self.field_ty(cls, f)
            st.heap[name] = z3.Const(CTX.fresh("H_" + name), z3.ArraySort(CTX.sort(core.Ref(cls)), CTX.sort(ty)))
            self.heap_wf(st.heap[name], cls, ty, st.pc)
        elif kind == "g":
            cur = st.glob[name]
            nv = fresh(cur.ty, name)
            st.assume(*wf(nv))
            st.glob[name] = nv


def check_invariants(self, st, ordinal, kind, line):
    invs = self.contract.loops.get(ordinal, [])
    for idx, text in enumerate(invs):
        g = self.spec_bool(text, st)
        self.oblige(st, kind, "L%d#%d" % (ordinal, idx), text, g, line)


def run_loop(self, s, st, seq):
    ordinal = self.ordinals.get(id(s))
    if ordinal is None:
        raise OutsideSubset("loop without ordinal (nested def?)")
    if self.contract is None or ordinal not in self.contract.loops:
        raise OutsideSubset("loop %s at line %s of %s has no invariant in the sidecar" % (ordinal, s.lineno, self.unit))
    is_for = isinstance(s, ast.For)
    iname, itname = "i_%d" % ordinal, "it_%d" % ordinal
    st = st.copy()
    if is_for:
        st.env[iname] = mk_int(0)
        st.env[itname] = seq
    st.lold = st.lold + [st.copy()]
    # 1. invariant holds on entry
    self.check_invariants(st, ordinal, "inv-init", s.lineno)
    if st.dry:
        # in a dry run just execute the body once and continue after the loop
        outs = []
        sts = [self._items_alias(s, x, ordinal) for x in self.assign(s.target, self._elem_form(core.lget(seq, fresh(INT, "dry_i").t)), st, None)] if is_for else [st]
        for cur in sts:
            for o in self.exec_block(s.body, cur):
                if o.kind in ("normal", "continue", "break"):
                    outs.append(Outcome("normal", _pop_lold(o.st)))
                else:
                    outs.append(o)
        for o in (self.exec_block(s.orelse, st) if s.orelse else [Outcome("normal", st)]):
            o.st = _pop_lold(o.st) if o.kind == "normal" else o.st
            outs.append(o)
        return outs
    # 2. arbitrary iteration
    written, types = self.dry_run(s, st, seq)
    h = st.copy()
    self.havoc_written(h, written, types, keep=(itname,))
    if is_for:
        i = fresh(INT, iname)
        h.env[iname] = i
        h.assume(i.t >= 0, i.t <= core.llen(seq))
    for text in self.contract.loops.get(ordinal, []):
        h.assume(self.spec_bool(text, h))
    h.note(s.lineno, "loop%d" % ordinal)
    outs = []
    after = []      # states that leave the loop by exhaustion
    # 2a. one more iteration
    if is_for:
        it = h.copy().assume(i.t < core.llen(seq))
        it.note(s.lineno, "iter")
        body_starts = self.assign(s.target, self._elem_form(core.lget(seq, i.t)), it, None) if self.feasible(it) else []
        body_starts = [self._items_alias(s, b, ordinal) for b in body_starts]
        exit_st = h.copy().assume(i.t == core.llen(seq))
        exits = [exit_st] if self.feasible(exit_st) else []
    else:
        body_starts, exits = [], []
        for st1, c in self.ev_cond(s.test, h):
            a, b = self.fork(st1, c, s.lineno, "while")
            if a is not None:
                body_starts.append(a)
            if b is not None:
                exits.append(b)
    self.covers.append(("%s/cover:L%d-body" % (self.unit, ordinal), [list(CTX.axioms) + list(x.pc) for x in body_starts]))
    for b0 in body_starts:
        for o in self.exec_block(s.body, b0):
            if o.kind in ("normal", "continue"):
                e = o.st.copy()
                if is_for:
                    e.env[iname] = V(INT, i.t + 1)
                self.check_invariants(e, ordinal, "inv-pres", s.lineno)
            elif o.kind == "break":
                outs.append(Outcome("normal", _pop_lold(o.st)))
            else:
                outs.append(o)
    # 2b. loop exit
    for e in exits:
        e.note(s.lineno, "exit")
        for o in (self.exec_block(s.orelse, e) if s.orelse else [Outcome("normal", e)]):
            if o.kind == "normal":
                o.st = _pop_lold(o.st)
            outs.append(o)
    return outs


def _items_alias(self, s, st, ordinal):
    """`for k, v in X.items()` with a container-valued v: v is an alias of X[k] (mutations write through).
    The model binds v to the value at loop entry; an obligation states that X[k] still has that value."""
    it = s.iter
    if not (isinstance(it, ast.Call) and isinstance(it.func, ast.Attribute) and it.func.attr == "items"
            and isinstance(it.func.value, ast.Name) and isinstance(s.target, ast.Tuple) and len(s.target.elts) == 2
            and all(isinstance(t, ast.Name) for t in s.target.elts)):
        return st
    k, v = s.target.elts[0].id, s.target.elts[1].id
    vv = st.env[v]
    if not isinstance(vv.ty, (List, Set, Map)):
        return st
    x = self.lookup(it.func.value.id, st)
    if x is None or not isinstance(x.ty, Map):
        return st
    cur = core.mget(x, st.env[k])
    self.oblige(st, "safety", "alias:L%d" % ordinal, "%s[%s] is still the object bound to %s" % (it.func.value.id, k, v),
                z3.And(core.mhas(x, st.env[k]), core.equals(cur, vv)), s.lineno)
    st = st.copy()
    st.alias[v] = ("sub", "%s[%s]" % (it.func.value.id, k))
    return st


def _pop_lold(st):
    st = st.copy()
    st.lold = st.lold[:-1]
    return st
