"""C02 - a component fires exactly when its requirements are met; arguments bind in declaration order."""
from contracts.dr import M
from contracts.plugins import P

SIDECARS = ["dr", "plugins"]
UNITS = [
    (M, "Broker.__contains__"),
    (M, "Broker.__getitem__"),
    (M, "Broker.get"),
    (M, "is_enabled"),
    (M, "ComponentType.get_missing_dependencies"),
    (M, "ComponentType.invoke"),
    (M, "ComponentType.process"),
    (P, "rule.process"),
    (M, "run_components"),
    (M, "ComponentType.__init__@classify"),
    (M, "ComponentType.__init__@dependencies"),
]
REFINEMENTS = [
    ((M, "ComponentType.process"), ("Delegate", "process")),
    ((P, "rule.process"), ("Delegate", "process")),
]
NOT_CARRIED = ["ComponentType.__init__: two windows of the body are under contract (classification of the declared dependencies into required / "
               "at-least-one / the ordered argument list; optional dependencies last; dependency set == members of the list). Not executed: the "
               "*deps / **kwargs unpacking before them (`deps`, the entry values of the three lists are arbitrary), optional from kwargs, metadata, "
               "group, tags",
               "apply_configs / apply_default_enabled name-prefix matching",
               "datasource and parser calling conventions are their own contracts (C03), not the default positional binding"]
