"""BOUNDED stand-in / native replay for the evaluation engine (C01, C02, C03; never counted as proved): the real dr.run on every dependency
graph with <= N plain components (each earlier component is: no dependency / required / optional / member of one at-least-one group), every
assignment of outcomes (value, value None, deliberate skip, crash), a set of enabled / seeded configurations, store_skips on and off - compared
with a reference evaluation written from the property statements:
  C01  each body runs at most once, only after every declared dependency that takes part was attempted; a seeded value is never recomputed
  C02  invoked iff enabled and requirements met; otherwise exactly the missing required / unsatisfied groups are reported; positional
       arguments in declaration order (required and group members as written, then optional), None for a dependency without value
  C03  no exception escapes; a crash is recorded with a traceback against the crashing component only; a skip only with store_skips
usage: /venv/bin/python dr_small_scope.py <repo root> <N> ; exit 1 + JSON line with a witness on a mismatch."""
import itertools, json, sys
root, N = sys.argv[1], int(sys.argv[2])
FULL = len(sys.argv) > 3 and sys.argv[3] == "full"
sys.path.insert(0, root)
import logging
logging.disable(logging.CRITICAL)
from insights.core import dr
from insights.core.plugins import component
from insights.core.exceptions import SkipComponent

OUTCOMES = ["value", "none", "skip", "crash"] if FULL else ["value", "skip", "crash"]
KINDS = ["-", "r", "o", "g", "h", "rg"]      # per earlier component: none / required / optional / member of group g / of group h / required AND in g
BEHAV = {}      # component index -> outcome (set per run)
LOG = []        # (index, args) in invocation order


def fail(**kw):
    print(json.dumps(kw, default=repr))
    sys.exit(1)


def make(i, kinds, comps):
    """kinds: per earlier component one of KINDS"""
    req = [comps[j] for j, k in enumerate(kinds) if k in ("r", "rg")]
    grps = [g for g in ([comps[j] for j, k in enumerate(kinds) if k in ("g", "rg")], [comps[j] for j, k in enumerate(kinds) if k == "h"]) if g]
    opt = [comps[j] for j, k in enumerate(kinds) if k == "o"]
    deps = list(req) + [list(g) for g in grps]

    def body(*args):
        LOG.append((i, args))
        o = BEHAV[i]
        if o == "skip":
            raise SkipComponent("skip %d" % i)
        if o == "crash":
            raise ValueError("crash %d" % i)
        return None if o == "none" else "v%d" % i
    body.__name__ = "c%d_%s" % (i, "".join(kinds) or "x")
    body.__module__ = "verif_small_scope_%d" % next(_ids)
    return component(*deps, optional=opt)(body), req, grps, opt


_ids = itertools.count()
runs = 0
for n in range(1, N + 1):
    for kindsets in itertools.product(*[list(itertools.product(KINDS, repeat=i)) for i in range(n)]):
        comps, meta = [], []
        for i, kinds in enumerate(kindsets):
            c, req, grps, opt = make(i, kinds, comps)
            comps.append(c)
            meta.append((req, grps, opt))
        graph = dict((c, set(dr.get_dependencies(c))) for c in comps)
        # (disabled, seeded with a value, seeded with None, failing observer, evaluate only the sub-graph without component 0's entry)
        E = frozenset()
        configs = [(E, E, E, False, False), (E, E, E, True, False)] + [(frozenset([i]), E, E, False, False) for i in range(n)] + \
                  [(E, frozenset([i]), E, False, False) for i in range(n)] + [(E, E, frozenset([i]), False, False) for i in range(n)] + \
                  ([(E, E, E, False, True)] if n > 1 else [])
        for outcomes in itertools.product(OUTCOMES, repeat=n):
            for disabled, seeded_v, seeded_n, bad_observer, partial in configs:
                seeded = seeded_v | seeded_n
                for store_skips in ((False, True) if "skip" in outcomes else (False,)):
                    for i in range(n):
                        BEHAV[i] = outcomes[i]
                        dr.set_enabled(comps[i], i not in disabled)
                    del LOG[:]
                    broker = dr.Broker()
                    broker.store_skips = store_skips
                    for i in seeded:
                        broker[comps[i]] = ("seed%d" % i) if i in seeded_v else None
                    if bad_observer:
                        def obs(c, b):
                            raise RuntimeError("observer")
                        broker.add_observer(obs, component)
                        # observers are arbitrary callables: a functools.partial (no __name__ / __qualname__) that fails as well
                        import functools
                        broker.add_observer(functools.partial(obs), component)
                    g = dict((c, set(d)) for c, d in graph.items())
                    if partial:
                        del g[comps[0]]          # component 0 is mentioned as a dependency but does not take part
                    try:
                        dr.run(g, broker=broker)
                    except Exception as ex:
                        fail(violation="an exception escaped the evaluation", kinds=kindsets, outcomes=outcomes, exc=repr(ex))
                    runs += 1
                    # ---- reference
                    val, has, want_log, want_exc, want_missing = {}, set(), [], set(), {}
                    for i in range(n):
                        req, grps, opt = meta[i]
                        if i in seeded:
                            val[i] = ("seed%d" % i) if i in seeded_v else None
                            has.add(i)
                            continue
                        if i in disabled or (partial and i == 0):
                            continue
                        idx = lambda c: comps.index(c)
                        mr = [c for c in req if idx(c) not in has]
                        mg = [g for g in grps if not any(idx(c) in has for c in g)]
                        grp = [c for g in grps for c in g]
                        if mr or mg:
                            want_missing[i] = (mr, mg)
                            continue
                        args = tuple(val.get(idx(c)) for c in req + grp + opt)
                        want_log.append((i, args))
                        o = outcomes[i]
                        if o in ("value", "none"):
                            val[i] = None if o == "none" else "v%d" % i
                            has.add(i)
                        elif o == "crash":
                            want_exc.add(i)
                        elif store_skips:
                            want_exc.add(i)
                    ctx = dict(kinds=[",".join(k) for k in kindsets], outcomes=outcomes, disabled=sorted(disabled), seeded_value=sorted(seeded_v),
                               seeded_none=sorted(seeded_n), failing_observer=bad_observer, partial_graph=partial, store_skips=store_skips)
                    got_log = sorted(LOG)
                    if len(set(i for i, _ in LOG)) != len(LOG):
                        fail(violation="C01: a component body ran more than once", log=LOG, **ctx)
                    if got_log != sorted(want_log):
                        fail(violation="C02: invocations / positional arguments differ from the reference", got=got_log, want=sorted(want_log), **ctx)
                    pos = dict((i, k) for k, (i, _) in enumerate(LOG))
                    for i, _ in LOG:
                        req, grps, opt = meta[i]
                        for c in req + [c for g in grps for c in g] + opt:
                            j = comps.index(c)
                            if j in pos and pos[j] > pos[i]:
                                fail(violation="C01: a component ran before a declared dependency that ran later", log=LOG, **ctx)
                    for i in range(n):
                        c = comps[i]
                        if (i in has) != (c in broker) or (i in has and broker[c] != val[i]):
                            fail(violation="C01/C02: final value of component %d differs (seed overwritten / value lost)" % i,
                                 got=broker.get(c, "<absent>"), want=val.get(i, "<absent>"), **ctx)
                    got_exc = set(comps.index(c) for c in broker.exceptions if c in comps and broker.exceptions[c])
                    foreign = [c for c in broker.exceptions if c not in comps]
                    if got_exc != want_exc or foreign:
                        fail(violation="C03: exceptions recorded against the wrong components", got=sorted(got_exc), want=sorted(want_exc), foreign=foreign, **ctx)
                    for c, excs in broker.exceptions.items():
                        for e in excs:
                            if not broker.tracebacks.get(e):
                                fail(violation="C03: a recorded exception has no traceback", component=comps.index(c), **ctx)
                    got_missing = dict((comps.index(c), m) for c, m in broker.missing_requirements.items() if c in comps)
                    if set(got_missing) != set(want_missing) or any(list(got_missing[i][0]) != want_missing[i][0] or
                                                                   [list(g) for g in got_missing[i][1]] != want_missing[i][1] for i in want_missing):
                        fail(violation="C02: reported missing requirements differ", got=got_missing, want=want_missing, **ctx)
        for c in comps:
            dr.set_enabled(c, True)
# ---------------------------------------------------------------- enable / disable configuration (insights.apply_default_enabled / apply_configs)
import insights as _ins
CFGLOG = []


def cfg_comp(name):
    def body():
        CFGLOG.append(name)
        return name
    body.__name__ = body.__qualname__ = name
    body.__module__ = "verif_cfg"
    return component()(body)


cfg_comps = dict((nm, cfg_comp(nm)) for nm in ("r_alpha", "r_beta", "s_gamma"))
NAMES = ["verif_cfg", "verif_cfg.r_", "verif_cfg.r_alpha", "verif_cfg.s_gamma", "verif_cfg.zzz"]
ENTRY = [dict(name=nm, **({} if en is None else {"enabled": en})) for nm in NAMES for en in (True, False, None)]
cfgs = 0
saved_enabled = dr.ENABLED
for default in (True, False):
    for k in (0, 1, 2):
        for entries in itertools.product(ENTRY, repeat=k):
            for pre_disabled in (None, "r_alpha"):
                dr.ENABLED = dict((c, True) for c in dr.ENABLED)
                if pre_disabled:
                    dr.set_enabled(cfg_comps[pre_disabled], False)
                config = {"default_component_enabled": default, "configs": [dict(e) for e in entries]}
                _ins.apply_default_enabled(config)
                _ins.apply_configs(config)
                cfgs += 1
                for nm, c in cfg_comps.items():
                    full = "verif_cfg." + nm
                    want = default
                    for e in entries:
                        if full.startswith(e["name"]):
                            want = e.get("enabled", default)
                    if bool(dr.is_enabled(c)) != bool(want):
                        fail(violation="C02: a component's enabled state is not the one of the last matching configuration entry (else the default)",
                             component=full, config=config, disabled_beforehand=pre_disabled, got=bool(dr.is_enabled(c)), want=bool(want))
                del CFGLOG[:]
                b = dr.Broker()
                dr.run(dict((c, set()) for c in cfg_comps.values()), broker=b)
                ran = sorted(CFGLOG)
                should = sorted(nm for nm, c in cfg_comps.items() if dr.is_enabled(c))
                if ran != should:
                    fail(violation="C02: invoked components differ from the enabled ones", config=config, ran=ran, enabled=should)
dr.ENABLED = saved_enabled
for c in cfg_comps.values():
    dr.set_enabled(c, True)

# ---------------------------------------------------------------- the same set of components evaluated again after a dependency was added
ORDERLOG = []


def oc(name, *deps):
    def body(*args):
        ORDERLOG.append(name)
        return name
    body.__name__ = body.__qualname__ = name
    body.__module__ = "verif_reorder_%d" % next(_ids)
    return component(*deps)(body)


for rounds in range(3):
    a = oc("a")
    b0 = oc("b0", a)
    b = oc("b", b0)
    c = oc("c", [a])
    comps4 = [a, b0, b, c]
    # components may carry a scheduling priority attribute (registry points do: `prio`); it must never override a dependency
    if rounds == 1:
        b.prio, c.prio, a.prio = 1, 1, -1
    if rounds == 2:
        b0.prio, b.prio = -1, 2
    g = dict((x, set(dr.get_dependencies(x))) for x in comps4)
    del ORDERLOG[:]
    dr.run(dict(g), broker=dr.Broker())
    first = list(ORDERLOG)
    dr.add_dependency(c, b)               # c now also depends on b: same components, one more edge
    g2 = dict((x, set(dr.get_dependencies(x))) for x in comps4)
    del ORDERLOG[:]
    dr.run(dict(g2), broker=dr.Broker())
    second = list(ORDERLOG)
    for log_ in (first, second):
        if sorted(log_) == ["a", "b", "b0", "c"] and not (log_.index("a") < log_.index("b0") < log_.index("b") and log_.index("a") < log_.index("c")):
            fail(violation="C01: a component was attempted before one of its declared dependencies (components carrying a priority attribute)",
                 order=log_, prio=dict((x.__name__, getattr(x, "prio", None)) for x in comps4))
    if b not in g2[c] or second.index("b") > second.index("c") or sorted(first) != ["a", "b", "b0", "c"] or sorted(second) != sorted(first):
        fail(violation="C01: after a dependency was added between two components of an already evaluated set, the next evaluation attempts the "
                       "dependent before its new dependency", first_order=first, second_order=second)

# ---------------------------------------------------------------- dependency closure: get_dependency_graph == every declared edge reachable from the target
closures = 0
for n in range(2, 6):
    for bits in itertools.product((0, 1), repeat=n * (n - 1) // 2):
        edges, k = {}, 0
        for i in range(n):
            edges[i] = []
            for j in range(i):
                if bits[k]:
                    edges[i].append(j)
                k += 1
        comps = []
        for i in range(n):
            def body(*args):
                return 1
            body.__name__ = body.__qualname__ = "g%d" % i
            body.__module__ = "verif_closure_%d" % next(_ids)
            # up to four components: dependencies declared as one at-least-one group (what dr.add_dependency appends to); five: all required
            decl = [[comps[j] for j in edges[i]]] if (n <= 4 and edges[i]) else [comps[j] for j in edges[i]]
            comps.append(component(*decl)(body))
        target = comps[n - 1]
        got = dr.get_dependency_graph(target)
        reach, todo = set(), [n - 1]
        while todo:
            x = todo.pop()
            if x not in reach:
                reach.add(x)
                todo.extend(edges[x])
        want = dict((comps[i], set(comps[j] for j in edges[i])) for i in reach)
        closures += 1
        if dict((c, set(d)) for c, d in got.items()) != want:
            fail(violation="C01: the dependency graph of a target is not the closure of its declared dependencies (an edge or a component is missing)",
                 edges=edges, target=n - 1, got=dict((comps.index(c), sorted(comps.index(d) for d in ds)) for c, ds in got.items()),
                 want=dict((comps.index(c), sorted(comps.index(d) for d in ds)) for c, ds in want.items()))
        order = dr.run_order(dict((c, set(d)) for c, d in got.items()))
        pos = dict((c, k) for k, c in enumerate(order))
        for c, ds in want.items():
            if any(pos[d] > pos[c] for d in ds):
                fail(violation="C01: the run order puts a component before one of its dependencies", edges=edges)
        # the registry changes between two look-ups (a dependency is added to a component of the closure, as registering one more
        # implementation of a spec does): the next closure of the same target has the new edge and whatever it makes reachable
        if n <= 4:
            missing = [(i, j) for i in sorted(reach) if edges[i] for j in range(i) if j not in edges[i]]
            if missing:
                i, j = missing[0]
                dr.add_dependency(comps[i], comps[j])
                edges[i].append(j)
                reach2, todo = set(), [n - 1]
                while todo:
                    x = todo.pop()
                    if x not in reach2:
                        reach2.add(x)
                        todo.extend(edges[x])
                want2 = dict((comps[a], set(comps[b] for b in edges[a])) for a in reach2)
                got2 = dr.get_dependency_graph(target)
                closures += 1
                if dict((c, set(d)) for c, d in got2.items()) != want2:
                    fail(violation="C01: after a dependency was added to a component of an already computed closure, the dependency graph of the same "
                                   "target misses the new edge (or what it makes reachable)", edges=edges, added=[i, j], target=n - 1,
                         got=dict((comps.index(c), sorted(comps.index(d) for d in ds)) for c, ds in got2.items()),
                         want=dict((comps.index(c), sorted(comps.index(d) for d in ds)) for c, ds in want2.items()))
print(json.dumps({"ok": True, "max_components": N, "runs": runs, "closure_graphs": closures, "configurations": cfgs}))
