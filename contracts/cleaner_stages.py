"""Sidecar contracts for the line-level stages Pattern.parse_line and Keyword.parse_line (C08 application half)."""
import collections
from pyvc.dsl import *

PM = "insights/cleaner/pattern.py"
KM = "insights/cleaner/keyword.py"
PMATCH = "(truthy(uf('re_search', PY, {p}, {l})) if self._regex else ({p} in {l}))"


def declare(reg):
    reg.sort(Str=STR)
    reg.cls("Pattern", _exclude=List(STR), _regex=BOOL)
    reg.cls("Keyword", _kw_db=Map(STR, STR), _obfuscated=Set(STR))
    for n in ("logger.debug", "logger.info", "logger.warning"):
        reg.external(n, drop=True)
    reg.external("re.search", params=dict(pat=STR, s=STR), returns=PY, pure=True, ensures=["result == uf('re_search', PY, pat, s)"],
                 note="re.search is a pure function of pattern and string; whether a pattern recognises a token is not decided")
    reg.contract(PM, "Pattern.parse_line", params=dict(self=Ref("Pattern"), line=Opt(STR), kwargs=Map(STR, PY)), returns=Opt(STR),
                 raises={},
                 ensures=[
                     # the whole line is dropped iff it is non-empty and some configured pattern matches; otherwise it passes unchanged
                     "(result is None) == (line is None or (truthy(line) and exists(j, range(0, len(self._exclude)), %s)))" % PMATCH.format(p="self._exclude[j]", l="some(line)"),
                     "implies(result is not None, result == line)"])
    reg.contract(KM, "Keyword.parse_line", params=dict(self=Ref("Keyword"), line=Opt(STR), kwargs=Map(STR, PY)), returns=Opt(STR),
                 modifies=["Keyword._obfuscated"], locals=dict(line=Opt(STR)),
                 loops={0: ["subset(old(self._obfuscated), self._obfuscated)", "line is not None",
                            "forall(x, self._obfuscated, x in old(self._obfuscated) or x in self._kw_db)",
                            "forall(o, Ref_Kw, implies(o != self, o._obfuscated == old(o._obfuscated)))"]},
                 raises={},
                 ensures=["implies(not old(line), result == old(line) and self._obfuscated == old(self._obfuscated))",
                          # only configured keywords are ever reported as replaced; the report only grows
                          "subset(old(self._obfuscated), self._obfuscated)",
                          "forall(x, self._obfuscated, x in old(self._obfuscated) or x in self._kw_db)",
                          "implies(truthy(old(line)), result is not None)"])
    reg.sort(Ref_Kw=Ref("Keyword"))
