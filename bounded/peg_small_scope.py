"""BOUNDED stand-in / native witness search for C19 (never counted as proved):
 (1) every grammar term of depth <= 2 over the combinators (and, since round 4, terms written with the operators + | << >> & / and until / sep_by / String) (Char, AnyChar, InSet, Literal, EOF; Sequence, Choice, Many with lower bound 0/1 over
     consuming terms, Opt, FollowedBy, NotFollowedBy, KeepLeft, KeepRight) on every input over {a, b} up to length LEN, against a reference PEG
     interpreter written from the property (left to right, first matching alternative, greedy repetition / option, look-ahead consumes nothing,
     a failed alternative leaves no trace); success/failure, the value and the position reached are compared;
 (2) the shipped JSON example grammar against json.loads on every document of a small generated subset.
usage: /venv/bin/python peg_small_scope.py <repo root> <LEN> <mode quick|full> ; exit 1 + JSON line with a witness."""
import itertools, json, sys
root, LEN, MODE = sys.argv[1], int(sys.argv[2]), sys.argv[3]
sys.path.insert(0, root)
from insights.parsr import (AnyChar, Char, InSet, Literal, EOF, Sequence, Choice, Many, Opt, FollowedBy, NotFollowedBy, KeepLeft, KeepRight, Lift, Backtrack)

AnyCharP = (lambda: AnyChar()) if isinstance(AnyChar, type) else (lambda: type(AnyChar)())      # the module may export an instance
EOFP = EOF() if isinstance(EOF, type) else EOF


def fail(**kw):
    print(json.dumps(kw, default=repr))
    sys.exit(1)


# ---- terms: (description, builder of the real parser, reference function (s, pos) -> None | (npos, value), consuming?)
def leaf_char(c):
    return ("Char(%r)" % c, lambda: Char(c), lambda s, p: (p + 1, c) if p < len(s) and s[p] == c else None, True)


LEAVES = [leaf_char("a"), leaf_char("b"),
          ("AnyChar", lambda: AnyCharP(), lambda s, p: (p + 1, s[p]) if p < len(s) else None, True),
          ("InSet('ab')", lambda: InSet("ab"), lambda s, p: (p + 1, s[p]) if p < len(s) and s[p] in "ab" else None, True),
          ("Literal('ab')", lambda: Literal("ab"), lambda s, p: (p + 2, "ab") if s[p:p + 2] == "ab" else None, True),
          ("EOF", lambda: EOFP, lambda s, p: (p, None) if p == len(s) else None, False)]


def seq(x, y):
    def ref(s, p):
        r1 = x[2](s, p)
        if r1 is None:
            return None
        r2 = y[2](s, r1[0])
        return None if r2 is None else (r2[0], [r1[1], r2[1]])
    return ("Sequence([%s, %s])" % (x[0], y[0]), lambda: Sequence([x[1](), y[1]()]), ref, x[3] or y[3])


def choice(x, y):
    def ref(s, p):
        r = x[2](s, p)
        return r if r is not None else y[2](s, p)
    return ("Choice([%s, %s])" % (x[0], y[0]), lambda: Choice([x[1](), y[1]()]), ref, x[3] and y[3])


def many(x, lower):
    def ref(s, p):
        out = []
        while True:
            r = x[2](s, p)
            if r is None:
                break
            p = r[0]
            out.append(r[1])
        return (p, out) if len(out) >= lower else None
    return ("Many(%s, lower=%d)" % (x[0], lower), lambda: Many(x[1](), lower=lower), ref, lower > 0)


def opt(x):
    def ref(s, p):
        r = x[2](s, p)
        return r if r is not None else (p, None)
    return ("Opt(%s)" % x[0], lambda: Opt(x[1]()), ref, False)


def two(name, cls, pick):
    def mk(x, y):
        def ref(s, p):
            r1 = x[2](s, p)
            if r1 is None:
                return None
            r2 = y[2](s, r1[0])
            return pick(r1, r2)
        return ("%s(%s, %s)" % (name, x[0], y[0]), lambda: cls(x[1](), y[1]()), ref, x[3])
    return mk


followed = two("FollowedBy", FollowedBy, lambda r1, r2: None if r2 is None else r1)
notfollowed = two("NotFollowedBy", NotFollowedBy, lambda r1, r2: r1 if r2 is None else None)
keepleft = two("KeepLeft", KeepLeft, lambda r1, r2: None if r2 is None else (r2[0], r1[1]))
keepright = two("KeepRight", KeepRight, lambda r1, r2: None if r2 is None else (r2[0], r2[1]))
BIN = [seq, choice, followed, notfollowed, keepleft, keepright]


# semantic predicates: a mapped / lifted function that rejects its argument with Backtrack is an ordinary failed alternative
def _reject_b(v):
    if v == "b":
        raise Backtrack("no b here")
    return ("ok", v)


def _same(a, b):
    if a != b:
        raise Backtrack("not doubled")
    return a + b


def mapbt(x):
    def ref(s, p):
        r = x[2](s, p)
        if r is None or r[1] == "b":
            return None
        return (r[0], ("ok", r[1]))
    return ("Map(%s, reject_b)" % x[0], lambda: x[1]().map(_reject_b), ref, x[3])


def liftbt(x, y):
    def ref(s, p):
        r1 = x[2](s, p)
        if r1 is None:
            return None
        r2 = y[2](s, r1[0])
        if r2 is None or r1[1] != r2[1] or not isinstance(r1[1], str):
            return None
        return (r2[0], r1[1] + r2[1])
    return ("Lift(same) * %s * %s" % (x[0], y[0]), lambda: Lift(_same) * x[1]() * y[1](), ref, x[3] or y[3])


def grow(pool_a, pool_b):
    out = []
    for x, y in itertools.product(pool_a, pool_b):
        for b in BIN:
            out.append(b(x, y))
    return out


depth1 = grow(LEAVES, LEAVES) + [many(x, k) for x in LEAVES if x[3] for k in (0, 1)] + [opt(x) for x in LEAVES]
depth1 += [mapbt(x) for x in LEAVES[:4]] + [liftbt(x, y) for x in LEAVES[:4] for y in LEAVES[:4]]
if MODE == "full":
    d1 = depth1
else:
    d1 = depth1[::3] + depth1[-20:]
depth2 = grow(LEAVES[:4], d1) + grow(d1, LEAVES[:4]) + [many(x, k) for x in d1 if x[3] for k in (0, 1)] + [opt(x) for x in d1]


# ---- terms built the way grammars are written: with the operators and helper methods (a + b, a | b, <<, >>, &, /, until, sep_by, String)
def flat3(x, y, z):
    def ref(s, p):
        out = []
        for t in (x, y, z):
            r = t[2](s, p)
            if r is None:
                return None
            p = r[0]
            out.append(r[1])
        return (p, out)
    return ref


def until_ref(x, y):
    def ref(s, p):
        out = []
        while y[2](s, p) is None:
            r = x[2](s, p)
            if r is None or r[0] == p:
                break
            p = r[0]
            out.append(r[1])
        return (p, out)
    return ref


def sepby_ref(x, sep):
    def ref(s, p):
        r = x[2](s, p)
        if r is None:
            out = []
        else:
            p, out = r[0], [r[1]]
        while True:
            r1 = sep[2](s, p)
            if r1 is None:
                break
            r2 = x[2](s, r1[0])
            if r2 is None:
                break
            p = r2[0]
            out.append(r2[1])
        return (p, out)
    return ref


def string_ref(chars, min_length):
    def ref(s, p):
        q = p
        while q < len(s) and s[q] in chars:
            q += 1
        return (q, s[p:q]) if q - p >= min_length else None
    return ref


from insights.parsr import String
L4 = LEAVES[:4]
OPTERMS = [("String('a')", lambda: String("a"), string_ref("a", 1), True), ("String('ab', min_length=2)", lambda: String("ab", min_length=2), string_ref("ab", 2), True),
           ("String('b', min_length=0)", lambda: String("b", min_length=0), string_ref("b", 0), False)]
for x, y in itertools.product(L4, L4):
    OPTERMS += [("%s + %s" % (x[0], y[0]), (lambda x=x, y=y: x[1]() + y[1]()), seq(x, y)[2], True),
                ("%s | %s" % (x[0], y[0]), (lambda x=x, y=y: x[1]() | y[1]()), choice(x, y)[2], True),
                ("%s << %s" % (x[0], y[0]), (lambda x=x, y=y: x[1]() << y[1]()), keepleft(x, y)[2], True),
                ("%s >> %s" % (x[0], y[0]), (lambda x=x, y=y: x[1]() >> y[1]()), keepright(x, y)[2], True),
                ("%s & %s" % (x[0], y[0]), (lambda x=x, y=y: x[1]() & y[1]()), followed(x, y)[2], True),
                ("%s / %s" % (x[0], y[0]), (lambda x=x, y=y: x[1]() / y[1]()), notfollowed(x, y)[2], True),
                ("%s.until(%s)" % (x[0], y[0]), (lambda x=x, y=y: x[1]().until(y[1]())), until_ref(x, y), False),
                ("%s.sep_by(%s)" % (x[0], y[0]), (lambda x=x, y=y: x[1]().sep_by(y[1]())), sepby_ref(x, y), False)]
for x, y, z in itertools.product(L4[:3], L4[:3], L4[:3]):
    OPTERMS += [("%s + (%s + %s)" % (x[0], y[0], z[0]), (lambda x=x, y=y, z=z: x[1]() + (y[1]() + z[1]())), seq(x, seq(y, z))[2], True),
                ("(%s + %s) + %s" % (x[0], y[0], z[0]), (lambda x=x, y=y, z=z: (x[1]() + y[1]()) + z[1]()), flat3(x, y, z), True),
                ("%s | (%s | %s)" % (x[0], y[0], z[0]), (lambda x=x, y=y, z=z: x[1]() | (y[1]() | z[1]())), choice(x, choice(y, z))[2], True),
                ("(%s | %s) | %s" % (x[0], y[0], z[0]), (lambda x=x, y=y, z=z: (x[1]() | y[1]()) | z[1]()), choice(choice(x, y), z)[2], True),
                ("(%s + %s) | %s" % (x[0], y[0], z[0]), (lambda x=x, y=y, z=z: (x[1]() + y[1]()) | z[1]()), choice(seq(x, y), z)[2], True),
                ("%s + (%s | %s)" % (x[0], y[0], z[0]), (lambda x=x, y=y, z=z: x[1]() + (y[1]() | z[1]())), seq(x, choice(y, z))[2], True),
                ("%s >> (%s + %s)" % (x[0], y[0], z[0]), (lambda x=x, y=y, z=z: x[1]() >> (y[1]() + z[1]())), keepright(x, seq(y, z))[2], True)]
TERMS = LEAVES + depth1 + depth2 + OPTERMS
INPUTS = [""] + ["".join(t) for n in range(1, LEN + 1) for t in itertools.product("ab", repeat=n)]
REST = ("rest", None, None, None)
n = 0
for t in TERMS:
    real = Sequence([t[1](), Many(AnyCharP())])          # the tail shows how far the term consumed
    for s in INPUTS:
        want = t[2](s, 0)
        try:
            got = real(s)
        except Exception:
            got = None
        n += 1
        if want is None:
            if got is not None:
                fail(violation="the term accepts an input PEG semantics rejects", term=t[0], input=s, got=got)
            continue
        if got is None:
            fail(violation="the term rejects an input PEG semantics accepts", term=t[0], input=s, expected_value=want[1], expected_position=want[0])
        if got[0] != want[1] or len(got[1]) != len(s) - want[0]:
            fail(violation="value or consumed length differs from PEG semantics", term=t[0], input=s, got_value=got[0], got_consumed=len(s) - len(got[1]),
                 expected_value=want[1], expected_position=want[0])

# ---------------------------------------------------------------- (2) the JSON example grammar
from insights.parsr.examples import json_parser
ATOMS = ["1", "-2", "1.5", "\"\"", "\"a\"", "\"a b\"", "true", "false", "null", "0", "9007199254740993", "18446744073709551615", "-9007199254740993", "0.5"]
docs = list(ATOMS)
docs += ["[]", "{}", "[ ]", "{ }"] + ["[%s]" % a for a in ATOMS] + ["[%s, %s]" % (a, b) for a, b in itertools.product(ATOMS[:5], repeat=2)]
docs += ["{\"k\": %s}" % a for a in ATOMS] + ["{\"k\": %s, \"j\": %s}" % (a, b) for a, b in itertools.product(ATOMS[:4], repeat=2)]
docs += ["{\"k\": [%s]}" % a for a in ATOMS[:5]] + ["[{\"k\": %s}]" % a for a in ATOMS[:5]] + [" %s " % a for a in ATOMS] + ["[1,2 ,3]", "{\"a\":{\"b\":[]}}"]
m = 0
for d in docs:
    want = json.loads(d)
    try:
        got = json_parser.loads(d)
    except Exception as ex:
        fail(violation="the JSON grammar rejects a document of its documented subset", document=d, exc=repr(ex))
    m += 1
    if got != want or type(got) is not type(want):
        fail(violation="the JSON grammar disagrees with json.loads", document=d, got=got, want=want)
for bad in ("[1,", "{\"a\" 1}", "[1 2]", "tru", "{\"a\":}", "1 1"):
    try:
        json_parser.loads(bad)
        fail(violation="the JSON grammar accepts a malformed document", document=bad)
    except SystemExit:
        raise
    except Exception:
        pass
print(json.dumps({"ok": True, "terms": len(TERMS), "inputs": len(INPUTS), "parses": n, "json_documents": m}))
