"""C17 - client identity and registration markers stay coherent over any history."""
from contracts.client_utilities import M

SIDECARS = ["client_utilities"]
UNITS = [(M, "write_to_disk"), (M, "delete_registered_file"), (M, "delete_unregistered_file"),
         (M, "write_registered_file"), (M, "write_unregistered_file"), (M, "machine_id_exists"), (M, "generate_machine_id")]
NOT_CARRIED = ["POSIX semantics of os.path.*, os.remove and open() are assumed contracts over a ghost file-system state (links one level deep)",
               "that the coherence invariant holds after ANY history is: established by either writer from any start state (postcondition) and "
               "preserved by the deleters (they only remove); induction over the history is the meta-step",
               "an identifier file containing only white-space ends in sys.exit (no identifier returned): outside the stability clause",
               "uuid4 freshness, RHSM identity look-up"]
