"""Sidecar contracts for insights/core/filters.py (C07 registration / look-up part)."""
import collections
from pyvc.dsl import *

M = "insights/core/filters.py"
Comp = U("Comp")
BUD = Map(STR, Opt(INT))     # budgets: max_matchs() yields none_max() values, typed Optional (never None in fact)
FT = Map(Comp, BUD)

# eff(c, F): the effective filter strings of component c under the registrations F (recursive over dependents)
ACTIVE = "(uf('is_datasource', BOOL, {c}) and not (uf('hasattr', BOOL, {c}, 'filterable') and {c}.filterable is False) and uf('filters_enabled', BOOL))"
COH = "forall(c, _CACHE, keys(_CACHE[c]) == eff(c, FILTERS))"
EN = "ENABLED == uf('filters_enabled', BOOL)"      # the module flag, fixed at import time


def declare(reg):
    reg.sort(Comp=Comp, Str=STR)
    reg.cls("Comp", __truthy__=True, filterable=PY)
    reg.cls("Delegate", filterable=PY, raw=PY)
    reg.glob(M, _CACHE=FT, FILTERS=FT, ENABLED=BOOL)
    reg.defaultdicts = getattr(reg, "defaultdicts", {})
    reg.defaultdicts["FILTERS"] = "{}"
    reg.external("plugins.is_datasource", params=dict(c=Comp), returns=BOOL, pure=True, ensures=["result == uf('is_datasource', BOOL, c)"])
    reg.external("dr.get_dependents", params=dict(c=Comp), returns=Set(Comp), pure=True, ensures=["result == uf('dependents_of', Set(Comp), c)"])
    reg.external("dr.get_dependencies", params=dict(c=Comp), returns=Set(Comp), pure=True, ensures=["result == uf('deps_of', Set(Comp), c)"])
    reg.external("dr.get_delegate", params=dict(c=Comp), returns=Ref("Delegate"), pure=True, ensures=["result == uf('delegate_of', Ref('Delegate'), c)"])
    reg.external("dr.get_name", params=dict(c=Comp), returns=STR, pure=True)
    # unfolding of eff (one step), instantiated for each registration table F that occurs: a datasource that is not explicitly
    # non-filterable, with filtering enabled, has its own filter strings plus those of every dependent; anything else has none
    reg.specfun("eff", dict(c=Comp, F=FT), Set(STR), None, inst_axioms=[(["F"],
        "forall(c2, Comp, forall(k, Str, (k in eff(c2, F)) == (%s and ((c2 in F and k in F[c2]) or "
        "exists(d, uf('dependents_of', Set(Comp), c2), k in eff(d, F))))))" % ACTIVE.format(c="c2"))])
    reg.sort(FiltersT=FT)

    INNER_POST = [
        "forall(k, Str, (k in result) == ((old(filters) is not None and k in some(old(filters))) or k in eff(c, FILTERS)))",
    ]
    reg.contract(M, "get_filters.<locals>.inner", params=dict(c=Comp, filters=Opt(BUD)), defaults=dict(filters="None"),
                 returns=BUD, free=dict(), modifies=["filters"], requires=[EN],
                 loops={0: ["forall(k, Str, (k in some(filters)) == (k in some(lold(filters)) or exists(j, range(0, i_0), k in eff(it_0[j], FILTERS))))",
                            "filters is not None"]},
                 raises={},
                 ensures=INNER_POST + ["implies(old(filters) is not None and truthy(some(old(filters))), filters is not None and keys(some(filters)) == keys(result))"])
    reg.contract(M, "get_filters", params=dict(component=Comp, with_matches=BOOL), returns=Set(STR),
                 requires=[COH, EN], modifies=["_CACHE"], raises={},
                 ensures=[COH, "result == eff(component, FILTERS)",
                          "forall(c, old(_CACHE), c in _CACHE and _CACHE[c] == old(_CACHE)[c])"])

    # ------------------------------------------------------------------ registration
    reg.contract(M, "add_filter.<locals>.none_max", params=dict(a=Opt(INT), b=Opt(INT)), returns=Opt(INT), pure=True, raises={},
                 ensures=["result == (a if b is None else (b if a is None else (some(a) if some(a) >= some(b) else some(b))))"], inline=True)
    reg.contract(M, "add_filter.<locals>.get_dependency_datasources", params=dict(comp=Comp), returns=Set(Comp), raises={},
                 loops={0: ["forall(d, dep_ds, uf('is_datasource', BOOL, d))"]}, locals=dict(dep_ds=Set(Comp)), empties=dict(set=Set(Comp)),
                 ensures=["forall(d, result, uf('is_datasource', BOOL, d))"])
    TARGET_POST = [
        # the strings are added to the component's own filters; no other component's registration changes
        "comp in FILTERS",
        "forall(k, Str, (k in FILTERS[comp]) == ((comp in old(FILTERS) and k in old(FILTERS)[comp]) or k in elems(old(patterns))))",
        "forall(c, Comp, implies(c != comp, (c in FILTERS) == (c in old(FILTERS)) and implies(c in FILTERS, FILTERS[c] == old(FILTERS)[c])))",
    ]
    reg.contract(M, "add_filter.<locals>.inner", params=dict(comp=Comp, patterns=List(STR)), free=dict(max_match=INT),
                 modifies=["_CACHE", "FILTERS"], requires=["max_match >= 1", EN],
                 loops={0: ["forall(j, range(0, i_0), truthy(it_0[j]))", "_CACHE == lold(_CACHE)", "FILTERS == lold(FILTERS)"]},
                 raises={"Exception": "exists(j, range(0, len(patterns)), not truthy(patterns[j]))"},
                 ensures=TARGET_POST + [
                     # budgets stay positive
                     "forall(k, FILTERS[comp], implies(forall(c, old(FILTERS), forall(f, old(FILTERS)[c], old(FILTERS)[c][f] is not None and some(old(FILTERS)[c][f]) >= 1)), "
                     "       FILTERS[comp][k] is not None and some(FILTERS[comp][k]) >= 1))",
                     # the look-up cache stays coherent with the registrations (every cached answer is still the effective set)
                     "implies(old(%s), %s)" % (COH, COH)],
                 note="verified for `patterns` given as a list of strings (the single-string and set forms are not covered)")

    ADDED = "forall(k, pats, {c} in FILTERS and k in FILTERS[{c}])"
    GROW = "forall(c, old(FILTERS), c in FILTERS and forall(k, old(FILTERS)[c], k in FILTERS[c]))"
    DS = "uf('is_datasource', BOOL, component)"
    DEL = "uf('delegate_of', Ref('Delegate'), {c})"
    reg.contract(M, "add_filter", params=dict(component=Comp, patterns=List(STR), max_match=INT),
                 requires=[COH, EN], modifies=["_CACHE", "FILTERS"],
                 locals=dict(filterable_deps=List(Comp)), ghosts=dict(pats=(Set(STR), "elems(patterns)")),
                 loops={0: [GROW, COH,
                            "forall(j, range(0, i_0), %s)" % ADDED.format(c="it_0[j]"),
                            # only the targeted datasources change
                            "forall(c, Comp, implies(forall(j, range(0, i_0), it_0[j] != c), (c in FILTERS) == (c in old(FILTERS)) and "
                            "       implies(c in FILTERS, FILTERS[c] == old(FILTERS)[c])))",
                            "forall(c, Comp, forall(k, Str, implies(c in FILTERS and k in FILTERS[c], (c in old(FILTERS) and k in old(FILTERS)[c]) or k in pats)))"]},
                 raises={"Exception": None},
                 ensures=[COH, GROW, "max_match >= 1",
                          # registered directly on a filterable datasource: that datasource has the strings afterwards
                          "implies(%s, truthy(%s.filterable) and not truthy(%s.raw) and %s)" % (DS, DEL.format(c="component"), DEL.format(c="component"), ADDED.format(c="component")),
                          # nothing but the given strings is ever added
                          "forall(c, Comp, forall(k, Str, implies(c in FILTERS and k in FILTERS[c], (c in old(FILTERS) and k in old(FILTERS)[c]) or k in pats)))",
                          "pats == elems(patterns)",
                          ],
                 note="patterns as a list of strings")
