#!/usr/bin/env python3-vt
"""dump_contracts.py <sidecar,sidecar> <out.json>: the textual contracts (requires / ensures / raises / ensures_raise) of every non-external
contract of the given sidecars, for the native cross-check (which runs under /venv/bin/python, where z3 is not importable)."""
import json, os, sys
sys.path.insert(0, os.path.dirname(os.path.dirname(os.path.abspath(__file__))))
from pyvc import run as R

reg = R.load_registry(sys.argv[1].split(","))
out = {}
for (module, qual), c in reg.contracts.items():
    if c.external:
        continue
    out["%s::%s" % (module, qual)] = dict(requires=list(c.requires), ensures=list(c.ensures), raises=dict(c.raises),
                                          ensures_raise={k: list(v) for k, v in c.ensures_raise.items()}, params=list(c.params))
out["__specfuns__"] = {name: dict(params=list(params), body=body) for name, (params, _ret, body) in reg.specfuns.items() if body}
json.dump(out, open(sys.argv[2], "w"), indent=1)
