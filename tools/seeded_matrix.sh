#!/bin/bash
# run every seeded change against the check of its property (scratch copies); one line per change in $1
OUT=${1:-/tmp/seeded_matrix.txt}; : > $OUT
cd /verif
for d in seeded/C*-*; do
  id=$(basename $d); pid=${id%-*}
  [ -f props/$pid.py ] || { echo "$id no-check" >> $OUT; continue; }
  r=$(tools/try_seeded.sh /verif/$d/patch.diff $pid 2>&1 | tr '\n' ' ' | cut -c1-400)
  echo "$id $r" >> $OUT
done
echo DONE >> $OUT
