"""BOUNDED stand-in / native witness search for the deny-list clause of C06 through the real entry point (never counted as proved):
insights.collect.collect() driven as the client drives it - a manifest (whose own blacklist sections are empty or already hold unrelated
entries) plus the user's redaction configuration - over the declarative factories (simple_file, first_file, glob_file, simple_command).
A file or command on the user's deny list must never be opened / executed and never land in the output; an allowed file is collected.
usage: /venv/bin/python collect_denylist.py <repo root> ; exit 1 + JSON line with a witness."""
import itertools, json, os, shutil, sys, tempfile
root = sys.argv[1]
sys.path.insert(0, root)
import logging
logging.disable(logging.CRITICAL)
from insights import collect
from insights.core import blacklist, dr
from insights.core.context import HostContext
from insights.core.spec_factory import RegistryPoint, SpecSet, first_file, glob_file, simple_command, simple_file


def fail(**kw):
    print(json.dumps(kw, default=repr))
    sys.exit(1)


BASE = os.path.realpath(tempfile.mkdtemp(prefix="c06c_"))
ETC = os.path.join(BASE, "etc")
os.makedirs(ETC)
DENIED_FILE, PLAIN_FILE = os.path.join(ETC, "user-secret.conf"), os.path.join(ETC, "plain.conf")
FILE_MARK, CMD_MARK = "C06-DENIED-FILE-CONTENT", "C06-DENIED-COMMAND"
ECHO = "/bin/echo" if os.access("/bin/echo", os.X_OK) else "/usr/bin/echo"
DENIED_CMD = "%s %s" % (ECHO, CMD_MARK)
open(DENIED_FILE, "w").write(FILE_MARK + "\n")
open(PLAIN_FILE, "w").write("nothing to hide\n")


class Specs(SpecSet):
    secret_simple = RegistryPoint()
    secret_first = RegistryPoint()
    secret_glob = RegistryPoint(multi_output=True)
    secret_cmd = RegistryPoint()
    plain = RegistryPoint()


class Stuff(Specs):
    secret_simple = simple_file(DENIED_FILE, context=HostContext)
    secret_first = first_file([DENIED_FILE], context=HostContext)
    secret_glob = glob_file(os.path.join(ETC, "user-*.conf"), context=HostContext)
    secret_cmd = simple_command(DENIED_CMD)
    plain = simple_file(PLAIN_FILE, context=HostContext)


def manifest(shipped):
    return {"version": 0,
            "client": {"context": {"class": "insights.core.context.HostContext", "args": {"timeout": 10}},
                       "blacklist": dict({"files": [], "commands": [], "patterns": [], "keywords": []}, **shipped),
                       "persist": [{"name": "__main__.Specs", "enabled": True}],
                       "run_strategy": {"name": "serial", "args": {"max_workers": None}}},
            "plugins": {"default_component_enabled": False, "packages": [],
                        "configs": [{"name": "__main__.Specs", "enabled": True}, {"name": "__main__.Stuff", "enabled": True}]}}


executed = []
_orig = HostContext.check_output


def recording(self, cmd, *a, **kw):
    executed.append(repr(cmd))
    return _orig(self, cmd, *a, **kw)


def scan(path):
    hits = []
    for top, _, files in os.walk(path):
        for name in files:
            full = os.path.join(top, name)
            try:
                data = open(full, "rb").read().decode("utf-8", "replace")
            except (IOError, OSError):
                continue
            if os.sep + "data" + os.sep in full and (FILE_MARK in data or CMD_MARK in data):
                hits.append(os.path.relpath(full, path))
    return sorted(hits)


n = 0
saved_enabled = dr.ENABLED
try:
    HostContext.check_output = recording
    SHIPPED = [{}, {"files": ["/etc/some/unrelated.bak"]}, {"commands": ["/sbin/vendor-tool --dump"]},
               {"files": ["/etc/some/unrelated.bak"], "commands": ["/sbin/vendor-tool --dump"]}]
    USER = [{"files": [DENIED_FILE], "commands": [DENIED_CMD]}, {"files": [DENIED_FILE]}, {"commands": [DENIED_CMD]}]
    for shipped, user in itertools.product(SHIPPED, USER):
        out = os.path.join(BASE, "out%d" % n)
        os.makedirs(out)
        del executed[:]
        for st in (blacklist._FILE_FILTERS, blacklist._COMMAND_FILTERS, blacklist._PATTERN_FILTERS, blacklist._KEYWORD_FILTERS):
            st.clear()
        del blacklist.BLACKLISTED_SPECS[:]
        try:
            output_path, _ = collect.collect(manifest=manifest(shipped), rm_conf=dict(user), tmp_path=out, archive_name="archive")
        except Exception as ex:
            fail(violation="collect() raised", manifest_blacklist=shipped, user_deny_list=user, exc=repr(ex))
        n += 1
        hits = scan(output_path)
        ran = [c for c in executed if CMD_MARK in c]
        ctx = dict(manifest_blacklist=shipped, user_deny_list=user)
        if "files" in user and any(FILE_MARK in open(os.path.join(output_path, h), "rb").read().decode("utf-8", "replace") for h in hits):
            fail(violation="a file on the user's deny list was collected", persisted=hits, **ctx)
        if "commands" in user and (ran or any(CMD_MARK in open(os.path.join(output_path, h), "rb").read().decode("utf-8", "replace") for h in hits)):
            fail(violation="a command on the user's deny list was executed / its output collected", executed=ran, persisted=hits, **ctx)
        if not os.path.isfile(os.path.join(output_path, "data", PLAIN_FILE.lstrip("/"))):
            fail(violation="a file that is not on any deny list was not collected", **ctx)
finally:
    HostContext.check_output = _orig
    dr.ENABLED = saved_enabled
    shutil.rmtree(BASE, ignore_errors=True)
print(json.dumps({"ok": True, "collections": n}))
