"""Verification of one function body against its sidecar contract; contract-only lemmas."""
import ast
import z3
from . import core
from .core import (CTX, V, NONEV, INT, BOOL, STR, NONE, PY, EXC, List, Set, Map, Opt, Tup, Ref,
                   OutsideSubset, fresh, wf, truthy, coerce, mk_int, mk_bool)
from .state import State, Outcome, Obl, CLOSURE
from .source import loop_ordinals


class VerifyMixin(object):

    def initial_state(self, c):
        st = State()
        for name, ty in self.reg.globals.get(c.module, {}).items():
            v = fresh(ty, "G_" + name)
            st.assume(*wf(v))
            st.glob[name] = v
        for name, ty in list(c.params.items()) + list(c.free.items()):
            v = fresh(ty, name)
            st.assume(*wf(v))
            st.env[name] = v
            if isinstance(ty, (List, Set, Map)) and name in c.params:
                st.alias[name] = ("param", name)     # mutations in place are visible to the caller
        return st

    def verify_unit(self, c):
        """Symbolically execute the real body of contract c's function; append obligations to self.obls.
        Returns info dict (file, qualname, lines, sha1, decorators, paths)."""
        mod = self.repo.module(c.module)
        fn, cls = mod.find(c.qualname)
        self.unit = c.qualname if "::" in c.qualname else "%s::%s" % (c.module, c.qualname)
        if c.window:
            self.unit += "@" + c.window
        self.contract = c
        self.module = mod
        self.fn = fn
        self.ordinals = loop_ordinals(fn)
        self.pyclass = cls.name if cls is not None else None
        n_loops = len(self.ordinals)
        for k in c.loops:
            if k >= n_loops:
                raise OutsideSubset("contract for %s names loop %d but the function has %d loops" % (c.qualname, k, n_loops))
        # parameters must match the declared ones (drift guard)
        actual = [a.arg for a in fn.args.args] + [a.arg for a in fn.args.kwonlyargs]
        if fn.args.vararg or fn.args.kwarg:
            actual += [x.arg for x in (fn.args.vararg, fn.args.kwarg) if x]
        declared = [p for p in c.params]
        if actual != declared:
            raise OutsideSubset("parameters of %s are %s, sidecar declares %s" % (c.qualname, actual, declared))
        st = self.initial_state(c)
        if "<locals>" in c.qualname:
            st.env[fn.name] = V(CLOSURE, None, (fn, None, fn.name))     # a nested function can call itself
            parent, _ = mod.find(c.qualname.rsplit(".<locals>.", 1)[0])
            for n in parent.body:                                         # ... and its siblings
                if isinstance(n, ast.FunctionDef) and n.name not in st.env:
                    st.env[n.name] = V(CLOSURE, None, (n, None, n.name))
        for x in (fn.args.vararg, fn.args.kwarg):
            if x is not None:
                st.alias.pop(x.arg, None)      # *args / **kwargs are fresh objects of the callee: never caller-visible
        # defaults are not substituted: parameters are arbitrary values of the declared type
        pre = st
        pre.old = None
        for text in c.requires:
            st.assume(self.spec_bool(text, st))
        for text in c.assume:
            st.assume(self.spec_bool(text, st))
        for name, (ty, init) in c.ghosts.items():
            gv = self.spec(init, st)
            st.env[name] = self.store_form(st, self.adapt(gv, ty), ty)
        if c.yields is not None:
            st.env["yields_"] = core.lempty(c.yields)
        for name, ty in c.locals.items():
            if name not in st.env:
                # a declared local read before its first assignment would be an UnboundLocalError: assumed not to happen;
                # it starts as an arbitrary value of its type
                v = fresh(ty, "unbound_" + name)
                st.assume(*wf(v))
                st.env[name] = v
        old = st.copy()
        old.old = old
        st.old = old
        self.covers.append(("%s/cover:pre" % self.unit, [list(CTX.axioms) + list(st.pc)]))
        mark = CTX.counter_mark()
        if c.skip_body:
            self.notes.append("%s: only the named sub-expression is under contract, the rest of the body is not executed" % c.qualname)
            outs = []
        else:
            body = fn.body
            if c.from_stmt is not None:
                pat = ast.parse(c.from_stmt).body[0]
                from .engine import _match
                idx = [i for i, s0 in enumerate(fn.body) if _match(pat, s0)]
                if len(idx) != 1:
                    raise OutsideSubset("from_stmt %r matches %d top-level statements of %s" % (c.from_stmt, len(idx), c.qualname))
                body = fn.body[idx[0] + (1 if c.from_after else 0):]
                if not body:
                    raise OutsideSubset("from_stmt %r is the last statement of %s" % (c.from_stmt, c.qualname))
                if c.to_stmt is not None:
                    pat2 = ast.parse(c.to_stmt).body[0]
                    end = [i for i, s0 in enumerate(body) if i > 0 and _match(pat2, s0)]
                    if not end:
                        raise OutsideSubset("to_stmt %r matches no later top-level statement of %s" % (c.to_stmt, c.qualname))
                    body = body[:end[0]]
                self.notes.append("%s: executed from line %d on; the statements before it are not under contract (locals arbitrary at that point)"
                                  % (c.qualname, body[0].lineno))
            outs = self.exec_block(body, st.copy() if c.self_compose else st)
        if c.self_compose:
            self.self_composition(c, fn, st, outs, mark)
        # nested raise outcomes are already Outcome('raise')
        n_paths = 0
        for o in outs:
            n_paths += 1
            if o.kind in ("normal", "return"):
                self.check_post(c, o, old)
            elif o.kind == "raise":
                self.check_raise(c, o, old)
            else:
                raise OutsideSubset("break/continue escaping function")
        for idx, (code_text, free, spec_text) in enumerate(c.expr_eq):
            self.check_expr_eq(c, fn, old, idx, code_text, free, spec_text)
        info = dict(file=c.module, qualname=c.qualname + ("@" + c.window if c.window else ""), lines=[fn.lineno, fn.end_lineno], sha1=mod.sha1(fn),
                    decorators=[ast.unparse(d) for d in fn.decorator_list], paths=n_paths)
        self.contract = None
        return info

    def self_composition(self, c, fn, st0, outs1, mark):
        """Determinism under arbitrary iteration orders: the body is executed a second time from the same initial state
        with the same fresh-symbol sequence, except that every symbol standing for the enumeration order of a set / dict is
        a different one.  For every pair of normal outcomes the observable must be equal."""
        n_obl, n_cov = len(self.obls), len(self.covers)
        CTX.counter_reset(mark)
        CTX.run_tag = "@2"
        try:
            outs2 = self.exec_block(fn.body, st0.copy())
        finally:
            CTX.run_tag = ""
        del self.obls[n_obl:]          # the second run's own obligations are duplicates
        del self.covers[n_cov:]
        n = 0
        for o1 in outs1:
            for o2 in outs2:
                if o1.kind not in ("normal", "return") or o2.kind not in ("normal", "return"):
                    continue
                for text in c.self_compose:
                    s1, s2 = self._post_state(c, o1, st0.old), self._post_state(c, o2, st0.old)
                    v1, v2 = self.spec(text, s1), self.spec(text, s2)
                    both = s1.copy()
                    both.pc = list(s1.pc) + [p for p in s2.pc if not any(p is q for q in s1.pc)]
                    g = core.equals(v1, v2) if not isinstance(v1.ty, List) else core.seq_eq(v1, v2)
                    self.oblige(both, "deterministic", text, "%s is the same whatever order sets / dicts are iterated in" % text, g, None)
                    n += 1
        return n

    def check_expr_eq(self, c, fn, old, idx, code_text, free, spec_text):
        """A sub-expression of the real body (found by its text) equals a specification expression for all values of its
        free variables."""
        want = ast.unparse(ast.parse(code_text.strip(), mode="eval").body)
        node = None
        for n in ast.walk(fn):
            if isinstance(n, ast.expr) and ast.unparse(n) == want:
                node = n
                break
        if node is None:
            raise OutsideSubset("expression `%s` named by the sidecar is not in %s any more" % (code_text, c.qualname))
        st = old.copy()
        st.old = old
        for name, ty in free.items():
            v = fresh(ty, name)
            st.assume(*wf(v))
            st.env[name] = v
        self.spec_depth += 1
        try:
            cv = self.ev1(node, st)
        finally:
            self.spec_depth -= 1
        sv = self.spec(spec_text, st)
        self.oblige(st, "expr", "X%d" % idx, "`%s` == %s" % (code_text, spec_text), core.equals(cv, sv), getattr(node, "lineno", None))

    def _post_state(self, c, o, old):
        st = o.st.copy()
        if c.yields is not None:
            res = st.env["yields_"]
        else:
            res = o.val if o.kind == "return" else NONEV
            if c.returns is not None:
                res = self.store_form(st, self.adapt(res, c.returns), c.returns) if c.returns is not NONE or res.ty is not NONE else NONEV
        st.env = dict(st.env)
        st.env["result"] = res
        st.old = old
        for name, (ty, expr) in c.ghost_final.items():
            st.env[name] = self.adapt(self.spec(expr, st), ty)
        return st

    def check_post(self, c, o, old):
        st = self._post_state(c, o, old)
        line = None
        for idx, text in enumerate(c.ensures):
            cond = c.kf.get("E%d" % idx)
            if cond is None:
                self.oblige(st, "post", "E%d" % idx, text, self.spec_bool(text, st), line)
            else:
                # known finding: the clause is split on the finding's condition (evaluated in the pre-state)
                k = self.spec_bool(cond, old)
                self.oblige(st.copy().assume(z3.Not(k)), "post", "E%d" % idx, text + "   [outside the known finding: not (%s)]" % cond,
                            self.spec_bool(text, st), line)
                self.oblige(st.copy().assume(k), "post", "E%d[kf]" % idx, text + "   [known finding: %s]" % cond, self.spec_bool(text, st), line)
        for ename, cond in c.raises.items():
            if cond is not None and not cond.startswith("?"):
                self.oblige(st, "raises-iff", ename, "not (%s)" % cond, z3.Not(self.spec_bool(cond, old)), line)
        self.check_frame(c, st, old)

    def check_frame(self, c, st, old, kind="frame"):
        allowed = set(c.modifies)
        for key, arr in st.heap.items():
            if key in allowed:
                continue
            if key in old.heap and arr is old.heap[key]:
                continue
            # a field first touched inside the body is not in the entry snapshot: its entry value is the initial heap constant
            before = old.heap[key] if key in old.heap else z3.Const("H_%s%s" % (key, CTX.tag), arr.sort())
            if arr.eq(before):
                continue
            self.oblige(st, kind, key, "field %s unchanged" % key, arr == before, None)
        for name, v in st.glob.items():
            if name in allowed:
                continue
            ov = old.glob.get(name)
            if ov is None or ov is v:
                continue
            self.oblige(st, kind, "G:" + name, "global %s unchanged" % name, core.equals(v, ov), None)

    def check_raise(self, c, o, old):
        st = o.st.copy()
        exc = o.val
        st.env = dict(st.env)
        st.env["exc"] = exc
        st.old = old
        alts = []
        for ename, cond in c.raises.items():
            g = self.exc_isinstance(exc, ename)
            if cond is not None:
                ctext = cond[1:] if cond.startswith("?") else cond
                g = z3.And(g, self.spec_bool(ctext, old))
            alts.append(g)
        goal = z3.Or(alts) if alts else z3.BoolVal(False)
        self.oblige(st, "raises", "allowed", "exception escapes only as declared: %s" % (dict(c.raises) or "nothing"), goal, None)
        for ename, clauses in c.ensures_raise.items():
            for idx, text in enumerate(clauses):
                self.oblige(st, "post-raise", "%s#%d" % (ename, idx), text,
                            z3.Implies(self.exc_isinstance(exc, ename), self.spec_bool(text, st)), None)
        if c.raise_frame == "unchanged":
            for key, arr in st.heap.items():
                before = old.heap[key] if key in old.heap else z3.Const("H_%s%s" % (key, CTX.tag), arr.sort())
                if arr is not before and not arr.eq(before):
                    self.oblige(st, "frame-raise", key, "field %s unchanged on raise" % key, arr == before, None)
        else:
            self.check_frame(c, st, old, "frame-raise")

    # ------------------------------------------------------------------------------------------
    # lemmas over contracts only
    # ------------------------------------------------------------------------------------------
    def verify_lemma(self, name, decls, hyps, goals, module=None):
        """decls: OrderedDict name -> Ty (universally quantified constants); hyps/goals: contract strings."""
        self.unit = "lemma::" + name
        self.contract = None
        self.module = None
        st = State()
        if module:
            for g, ty in self.reg.globals.get(module, {}).items():
                v = fresh(ty, "G_" + g)
                st.assume(*wf(v))
                st.glob[g] = v
        for n, ty in decls.items():
            v = fresh(ty, n)
            st.assume(*wf(v))
            st.env[n] = v
        st.old = st
        for h in hyps:
            st.assume(self.spec_bool(h, st))
        self.covers.append(("%s/cover:hyps" % self.unit, [list(CTX.axioms) + list(st.pc)]))
        for idx, g in enumerate(goals):
            self.oblige(st, "lemma", "G%d" % idx, g, self.spec_bool(g, st), None)

    # ------------------------------------------------------------------------------------------
    # refinement: an override's contract implies the interface contract its callers rely on
    # ------------------------------------------------------------------------------------------
    def verify_refinement(self, over, iface):
        self.unit = "refines::%s<=%s" % (over.qualname, iface.qualname)
        self.contract = None
        self.module = self.repo.module(over.module) if over.module and not over.module.startswith("<") else None
        extra = [m for m in over.modifies if m not in iface.modifies and m not in over.params]
        if extra:
            raise OutsideSubset("%s modifies %s which the interface %s does not allow" % (over.qualname, extra, iface.qualname))
        if list(over.params.values()) != list(iface.params.values()):
            raise OutsideSubset("parameter types of %s differ from interface %s" % (over.qualname, iface.qualname))
        st = State()
        for name, ty in self.reg.globals.get(over.module, {}).items():
            v = fresh(ty, "G_" + name)
            st.assume(*wf(v))
            st.glob[name] = v
        args = []
        for (name, ty), iname in zip(over.params.items(), iface.params):
            v = fresh(ty, name)
            st.assume(*wf(v))
            st.env[iname] = v
            args.append(v)
        for text in list(iface.requires) + list(over.assume):
            st.assume(self.spec_bool(text, st))
        old = st.copy()
        old.old = old
        mark = len(self.raised)
        n_obl = len(self.obls)
        outs = self.call_contract(over, args, {}, st.copy(), None)
        # pre@call obligations of the override under the interface's requires stay: the interface must establish them
        raised = self.raised[mark:]
        del self.raised[mark:]
        self.covers.append(("%s/cover:pre" % self.unit, [list(CTX.axioms) + list(st.pc)]))
        for ns, res in outs:
            ns = ns.copy()
            ns.env = dict(old.env)
            ns.env["result"] = res
            ns.old = old
            for idx, text in enumerate(iface.ensures):
                self.oblige(ns, "refine-post", "E%d" % idx, text, self.spec_bool(text, ns), None)
            for ename, cond in iface.raises.items():
                if cond is not None and not cond.startswith("?"):
                    self.oblige(ns, "refine-raises-iff", ename, cond, z3.Not(self.spec_bool(cond, old)), None)
        for rs, exc in raised:
            rs = rs.copy()
            rs.env = dict(old.env)
            rs.env["exc"] = exc
            rs.old = old
            alts = []
            for ename, cond in iface.raises.items():
                g = self.exc_isinstance(exc, ename)
                if cond is not None:
                    g = z3.And(g, self.spec_bool(cond[1:] if cond.startswith("?") else cond, old))
                alts.append(g)
            self.oblige(rs, "refine-raises", "allowed", "raises within the interface: %s" % dict(iface.raises),
                        z3.Or(alts) if alts else z3.BoolVal(False), None)
            for ename, clauses in iface.ensures_raise.items():
                for idx, text in enumerate(clauses):
                    self.oblige(rs, "refine-post-raise", "%s#%d" % (ename, idx), text,
                                z3.Implies(self.exc_isinstance(exc, ename), self.spec_bool(text, rs)), None)
