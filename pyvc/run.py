"""Running a set of units / lemmas: VC generation, discharge, finite-scope refutation."""
import importlib
import os
import sys
import time
import traceback
import z3
from . import core, solve
from .core import CTX, OutsideSubset
from .dsl import Registry
from .engine import Engine
from .source import Repo, SourceError


def load_registry(sidecar_names):
    reg = Registry()
    for n in sidecar_names:
        m = importlib.import_module("contracts." + n)
        importlib.reload(m)
        m.declare(reg)
    return reg


class UnitResult(object):
    def __init__(self, name):
        self.name = name
        self.info = None
        self.obls = []          # list of (Obl, result dict)
        self.error = None       # OutsideSubset / SourceError text
        self.covers = []        # (name, ok)
        self.notes = []


def generate(reg, units, lemmas, repo, scope=None, strmode="opaque", only=None, refinements=()):
    """Returns (engine, list of UnitResult with .obls = [Obl]).  Errors are recorded per unit."""
    eng = Engine(reg, repo, scope=scope, strmode=strmode)
    results = []
    # contract-only lemmas first: their text must not depend on what the execution of the (possibly changed) code adds to the axiom list
    for lm in lemmas:
        ur = UnitResult("lemma::" + lm["name"])
        results.append(ur)
        if only and ur.name not in only:
            continue
        n0, c0 = len(eng.obls), len(eng.covers)
        try:
            eng.verify_lemma(lm["name"], lm["decls"], lm.get("hyps", []), lm["goals"], lm.get("module"))
            ur.info = dict(file="<lemma>", qualname=lm["name"], lines=[0, 0], sha1="", decorators=[], paths=1)
        except (OutsideSubset, SourceError) as e:
            ur.error = "%s: %s" % (type(e).__name__, e)
        ur.obls = eng.obls[n0:]
        ur.covers = eng.covers[c0:]
        ur.scope_constraints = list(CTX.scope_constraints)
    for key in units:
        c = reg.contracts.get(key)
        ur = UnitResult("%s::%s" % key)
        results.append(ur)
        if only and ur.name not in only:
            continue
        if c is None:
            ur.error = "no contract registered for %s" % (key,)
            continue
        n0, c0 = len(eng.obls), len(eng.covers)
        eng.notes = []
        try:
            ur.info = eng.verify_unit(c)
        except (OutsideSubset, SourceError) as e:
            ur.error = "%s: %s" % (type(e).__name__, e)
        except z3.Z3Exception as e:
            ur.error = "Z3Exception: %s\n%s" % (e, traceback.format_exc())
        ur.obls = eng.obls[n0:]
        ur.covers = eng.covers[c0:]
        ur.notes = sorted(set(eng.notes))
        ur.scope_constraints = list(CTX.scope_constraints)
    for over_key, iface_key in refinements:
        ur = UnitResult("refines::%s<=%s" % (over_key[1], ".".join(iface_key)))
        results.append(ur)
        if only and ur.name not in only:
            continue
        n0, c0 = len(eng.obls), len(eng.covers)
        try:
            over = reg.contracts[over_key]
            iface = reg.ifaces[iface_key] if iface_key in reg.ifaces else reg.contracts[iface_key]
            eng.verify_refinement(over, iface)
            ur.name = eng.unit
            ur.info = dict(file="<refinement>", qualname=eng.unit, lines=[0, 0], sha1="", decorators=[], paths=1)
        except (OutsideSubset, SourceError, KeyError) as e:
            ur.error = "%s: %s" % (type(e).__name__, e)
        ur.obls = eng.obls[n0:]
        ur.covers = eng.covers[c0:]
        ur.scope_constraints = list(CTX.scope_constraints)
    return eng, results


def discharge_units(results, z3_timeout=20, cvc5_timeout=20, recheck=False, seed=None, extra_hyps=None):
    items = []
    index = []
    for ur in results:
        for o in ur.obls:
            if o.trivially_true():
                index.append((ur, o, {"verdict": "proved", "backend": "trivial", "z3": "unsat", "z3_s": 0.0}))
                continue
            hyps = list(o.hyps) + list(extra_hyps or [])
            items.append((hyps, o.goal, False, {}))
            index.append((ur, o, len(items) - 1))
    res = solve.discharge(items, z3_timeout=z3_timeout, cvc5_timeout=cvc5_timeout, recheck=recheck, seed=seed)
    out = []
    for ur, o, r in index:
        out.append((ur, o, res[r] if isinstance(r, int) else r))
    return out


def check_covers(results, timeout=5):
    """Reachability: for each cover name (a loop body, a precondition), at least one of the hypothesis sets collected
    over all paths must be satisfiable (not shown unsat)."""
    items = []
    groups = {}
    order = []
    for ur in results:
        for name, hypsets in ur.covers:
            if name not in groups:
                groups[name] = (ur, [])
                order.append(name)
            for h in hypsets:
                groups[name][1].append(len(items))
                items.append((h, z3.BoolVal(False), False, {}))
    res = solve.discharge(items, z3_timeout=timeout, cvc5=False)
    out = []
    for name in order:
        ur, idxs = groups[name]
        verdicts = [res[i]["z3"] for i in idxs]
        ok = any(v != "unsat" for v in verdicts)     # sat or unknown: not shown contradictory
        out.append((ur, name, ok, verdicts))
    return out
