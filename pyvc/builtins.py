"""Specification forms (sf_*: forall, exists, implies, old, ...) and modelled Python builtins (bi_*)."""
import ast
import z3
from . import core
from .core import (CTX, V, NONEV, INT, BOOL, STR, NONE, PY, EXC, REAL, U, List, Set, Map, Opt, Tup, Ref, Fn,
                   OutsideSubset, fresh, wf, truthy, coerce, mk_int, mk_bool, mk_str, mk_tuple)
from .state import State, Outcome, CLOSURE, EMPTY_LIST, EMPTY_DICT, EMPTY_SET, MODULE, STATIC


class BuiltinMixin(object):

    # ==========================================================================================
    # specification forms (only in contract text)
    # ==========================================================================================
    def _quant(self, e, st, universal):
        if len(e.args) != 3 or not isinstance(e.args[0], (ast.Name, ast.Tuple)):
            raise OutsideSubset("forall/exists(x, domain, body)")
        var = e.args[0]
        dom = e.args[1]
        body = e.args[2]
        Q_int = core.forall_int if universal else core.exists_int
        Q_ty = core.forall_ty if universal else core.exists_ty
        conn = z3.Implies if universal else z3.And

        def run(val):
            s2 = st.copy()
            n0 = len(self.spec_defs)
            for s3 in self.assign(var, val, s2, None):
                r = truthy(self.ev1(body, s3))
                self.no_defs_under_binder(n0)
                return r

        if isinstance(dom, ast.Call) and isinstance(dom.func, ast.Name) and dom.func.id == "range":
            args = [self.ev1(a, st) for a in dom.args]
            lo, hi = (mk_int(0), args[0]) if len(args) == 1 else (args[0], args[1])
            return V(BOOL, Q_int(coerce(lo, INT).t, coerce(hi, INT).t, lambda j: run(V(INT, j))))
        if isinstance(dom, ast.Name) and dom.id in self.reg.sorts and self.lookup(dom.id, st) is None:
            ty = self.reg.sorts[dom.id]
            return V(BOOL, Q_ty(ty, lambda x: run(V(ty, x))))
        d = self.ev1(dom, st)
        if d.ty is STATIC:
            parts = [run(it) for it in d.items]
            return V(BOOL, (z3.And if universal else z3.Or)(parts or [z3.BoolVal(universal)]))
        if isinstance(d.ty, List):
            return V(BOOL, Q_int(0, core.llen(d), lambda j: run(self._elem_form(core.lget(d, j)))))
        if isinstance(d.ty, Set):
            return V(BOOL, Q_ty(d.ty.elem, lambda x: conn(core.smem_t(d, x), run(V(d.ty.elem, x)))))
        if isinstance(d.ty, Map):
            return V(BOOL, Q_ty(d.ty.k, lambda x: conn(core.smem_t(core.mdom(d), x), run(V(d.ty.k, x)))))
        if isinstance(d.ty, Opt):
            inner = core.oval(d)
            e2 = ast.Call(func=e.func, args=[var, ast.Name(id="__dom", ctx=ast.Load()), body], keywords=[])
            s2 = st.copy()
            s2.env["__dom"] = inner
            r = self._quant(e2, s2, universal)
            return V(BOOL, conn(z3.Not(core.ois_none(d)), r.t))
        if d.ty in (EMPTY_LIST, EMPTY_SET, EMPTY_DICT):
            return mk_bool(universal)
        raise OutsideSubset("quantifier domain %r" % (d.ty,))

    def sf_forall(self, e, st):
        return self._quant(e, st, True)

    def sf_exists(self, e, st):
        return self._quant(e, st, False)

    def sf_implies(self, e, st):
        a, b = [truthy(self.ev1(x, st)) for x in e.args]
        return V(BOOL, z3.Implies(a, b))

    def sf_iff(self, e, st):
        a, b = [truthy(self.ev1(x, st)) for x in e.args]
        return V(BOOL, a == b)

    def sf_ite(self, e, st):
        c, a, b = [self.ev1(x, st) for x in e.args]
        return self._select(truthy(c), a, b)

    def sf_old(self, e, st):
        if st.old is None:
            raise OutsideSubset("old() outside a contract")
        return self.spec(e.args[0], self._with_binders(st.old, st))

    def sf_at_old(self, e, st):
        """at_old(obj, 'field'): the field of the object denoted *now* by obj, read in the pre-state heap"""
        obj = self.ev1(e.args[0], st)
        return self.heap_get(st.old, obj, e.args[1].value)

    def sf_lold(self, e, st):
        if not st.lold:
            raise OutsideSubset("lold() outside a loop")
        depth = 1
        if len(e.args) > 1:
            depth = e.args[1].value
        return self.spec(e.args[0], self._with_binders(st.lold[-depth], st))

    def _with_binders(self, old, st):
        """old state + names that exist only in the current environment (bound variables, result)."""
        extra = [k for k in st.env if k not in old.env]
        if not extra:
            return old
        s = old.copy()
        s.old = old.old
        for k in extra:
            s.env[k] = st.env[k]
        return s

    def sf_truthy(self, e, st):
        return V(BOOL, truthy(self.ev1(e.args[0], st)))

    def sf_distinct(self, e, st):
        l = self.ev1(e.args[0], st)
        if l.ty is STATIC:
            return V(BOOL, z3.And([z3.Not(self.py_equals(a, b)) for i, a in enumerate(l.items) for b in l.items[i + 1:]] or [z3.BoolVal(True)]))
        return V(BOOL, core.forall_int(0, core.llen(l), lambda i: core.forall_int(
            0, core.llen(l), lambda j: z3.Implies(i < j, z3.Not(core.eq_t(l.ty.elem, z3.Select(core.larr(l), i), z3.Select(core.larr(l), j)))))))

    def sf_elems(self, e, st):
        l = self.ev1(e.args[0], st)
        if isinstance(l.ty, Opt):
            l = core.oval(l)
        if l.ty in (EMPTY_LIST,):
            raise OutsideSubset("elems of untyped empty list")
        return core.elems(l)

    def sf_keys(self, e, st):
        m = self.ev1(e.args[0], st)
        return core.mdom(m)

    def sf_subset(self, e, st):
        a, b = [self.ev1(x, st) for x in e.args]
        return V(BOOL, core.ssubset(a, b))

    def sf_disjoint(self, e, st):
        a, b = [self.ev1(x, st) for x in e.args]
        return V(BOOL, core.sisempty(core.sinter(a, b)))

    def sf_isempty(self, e, st):
        a = self.ev1(e.args[0], st)
        return V(BOOL, z3.Not(truthy(a)))

    def sf_seq_eq(self, e, st):
        a, b = [self.ev1(x, st) for x in e.args]
        if a.ty is STATIC:
            a = self.adapt(a, b.ty)
        if b.ty is STATIC:
            b = self.adapt(b, a.ty)
        if a.ty in (EMPTY_LIST,):
            return V(BOOL, core.llen(b) == 0)
        if b.ty in (EMPTY_LIST,):
            return V(BOOL, core.llen(a) == 0)
        if a.ty != b.ty and isinstance(a.ty, List) and isinstance(b.ty, List):
            # a list of T against a list of Optional[T]: the former is lifted element-wise
            if isinstance(a.ty.elem, Opt) and a.ty.elem.elem == b.ty.elem:
                b = self.adapt(b, a.ty)
            elif isinstance(b.ty.elem, Opt) and b.ty.elem.elem == a.ty.elem:
                a = self.adapt(a, b.ty)
        return V(BOOL, core.seq_eq(a, b))

    def sf_is_none(self, e, st):
        a = self.ev1(e.args[0], st)
        return V(BOOL, self.py_is(a, NONEV))

    def sf_some(self, e, st):
        a = self.ev1(e.args[0], st)
        return core.oval(a) if isinstance(a.ty, Opt) else a

    def sf_dom(self, e, st):
        return core.mdom(self.ev1(e.args[0], st))

    def sf_store(self, e, st):
        m, k, v = [self.ev1(x, st) for x in e.args]
        return core.mstore(m, k, self.store_form(st, self.adapt(v, m.ty.v), m.ty.v))

    def sf_remove(self, e, st):
        m, k = [self.ev1(x, st) for x in e.args]
        if isinstance(m.ty, Map):
            return core.mremove(m, k)
        return core.sremove(m, k)

    def sf_union(self, e, st):
        a, b = [self.ev1(x, st) for x in e.args]
        return core.sunion(a, b)

    def sf_diff(self, e, st):
        a, b = [self.ev1(x, st) for x in e.args]
        return core.sdiff(a, b)

    def sf_inter(self, e, st):
        a, b = [self.ev1(x, st) for x in e.args]
        return core.sinter(a, b)

    def sf_bigunion(self, e, st):
        """union of the values of a dict of sets (virtual set)"""
        m = self.ev1(e.args[0], st)
        return core.svirt(m.ty.v.elem, lambda x, m=m: core.exists_ty(
            m.ty.k, lambda k: z3.And(core.smem_t(core.mdom(m), k), z3.Select(z3.Select(core.mval(m), k), x))))

    def sf_box(self, e, st):
        """box(x): x as a dynamically typed value"""
        return self.adapt(self.ev1(e.args[0], st), PY)

    def sf_unbox_int(self, e, st):
        """the integer inside a dynamically typed value (meaningful under an isinstance(x, int) guard)"""
        a = self.ev1(e.args[0], st)
        return V(INT, core.py_num(core.to_py(a).t))

    def sf_concat_all(self, e, st):
        return core.concat_all(self.ev1(e.args[0], st))

    def sf_single(self, e, st):
        a = self.ev1(e.args[0], st)
        return core.sadd(core.sempty(a.ty), a)

    def sf_isinstance_exc(self, e, st):
        a = self.ev1(e.args[0], st)
        return V(BOOL, self.exc_isinstance(a, e.args[1].id if isinstance(e.args[1], ast.Name) else e.args[1].value))

    def sf_exc_is(self, e, st):
        """exact class test"""
        a = self.ev1(e.args[0], st)
        nm = e.args[1].id if isinstance(e.args[1], ast.Name) else e.args[1].value
        return V(BOOL, self.exc_cls(a.t) == CTX.exc_id(self.exc_name(nm)))

    def sf_uf(self, e, st):
        """uf("name", RetType, args...) - application of a named uninterpreted function"""
        name = e.args[0].value
        ret = self.ty_from_ast(e.args[1])
        args = [self.ev1(x, st) for x in e.args[2:]]
        return core.ufun(name, args, ret)

    def ty_from_ast(self, node):
        env = {"INT": INT, "BOOL": BOOL, "STR": STR, "PY": PY, "EXC": EXC, "NONE": NONE, "List": List, "Set": Set,
               "Map": Map, "Opt": Opt, "Tup": Tup, "Ref": Ref, "U": U, "REAL": REAL}
        env.update(self.reg.sorts)
        return eval(compile(ast.Expression(body=node), "<ty>", "eval"), {"__builtins__": {}}, env)

    def call_specfun(self, name, e, st):
        params, ret, body = self.reg.specfuns[name]
        args = [self.ev1(a, st) for a in e.args]
        if len(args) != len(params):
            raise OutsideSubset("spec function %s arity" % name)
        args = [self.store_form(st, self.adapt(a, t), t) if t is not None else a for a, t in zip(args, params.values())]
        for pnames, text in self.reg.inst_axioms.get(name, ()):
            vals = [args[list(params).index(pn)] for pn in pnames]
            seen = self.__dict__.setdefault("_inst_seen", [])
            if not any(n == name and t == text and all(a.t.eq(b.t) for a, b in zip(vals, vs)) for n, t, vs in seen):
                seen.append((name, text, vals))
                s3 = State()
                s3.env = dict(zip(pnames, vals))
                s3.heap, s3.glob = st.heap, st.glob
                saved = self.spec_defs
                self.spec_defs = []
                self.spec_depth += 1
                try:
                    g = truthy(self.ev1(ast.parse(text.strip(), mode="eval").body, s3))
                finally:
                    self.spec_depth -= 1
                    extra = self.spec_defs
                    self.spec_defs = saved
                CTX.axioms.extend(extra)
                CTX.axioms.append(g)
        if body is None:
            return core.ufun("sf_" + name, args, ret)
        s2 = State()
        s2.env = dict(zip(params, args))
        s2.heap, s2.glob, s2.old, s2.lold = st.heap, st.glob, st.old, st.lold
        return self.spec(body, s2)

    # ==========================================================================================
    # builtins (code and contracts)
    # ==========================================================================================
    def _args1(self, e, st):
        return self.ev_list(e.args, st)

    def bi_assume(self, e, st):
        """assume(<spec>) in a ghost statement: a definitional link between a spec symbol and a code value (listed in the evidence)"""
        if self.ghost_depth == 0:
            raise OutsideSubset("assume outside ghost code")
        self.spec_depth += 1
        try:
            g = truthy(self.ev1(e.args[0], st))
        finally:
            self.spec_depth -= 1
        self.notes.append("ghost assume: %s" % ast.unparse(e.args[0]))
        st = st.copy().assume(g)
        return [(st, NONEV)]

    def bi_len(self, e, st):
        res = []
        for st1, (a,) in self._args1(e, st):
            if a.ty is STATIC:
                res.append((st1, mk_int(len(a.items))))
            elif a.ty in (EMPTY_LIST, EMPTY_DICT, EMPTY_SET):
                res.append((st1, mk_int(0)))
            elif isinstance(a.ty, Ref):
                res.extend(self.call_method(a, "__len__", [], {}, st1, e))
            elif isinstance(a.ty, Opt):
                if self.in_spec:
                    res.append((st1, V(INT, core.length(core.oval(a)))))
                    continue
                x, y = self.fork(st1, core.ois_none(a), e.lineno, "len-none")
                if x is not None:
                    self.do_raise(x, "TypeError")
                if y is not None:
                    res.append((y, V(INT, core.length(core.oval(a)))))
            elif a.ty is PY:
                res.append((st1, core.ufun("py_len", [a], INT)))
            else:
                res.append((st1, V(INT, core.length(a))))
        return res

    def bi_bool(self, e, st):
        return [(st1, V(BOOL, truthy(a))) for st1, (a,) in self._args1(e, st)]

    def bi_isinstance(self, e, st):
        res = []
        for st1, v in self.ev(e.args[0], st):
            res.append((st1, V(BOOL, self.isinstance_test(v, e.args[1], st1))))
        return res

    def isinstance_test(self, v, tnode, st):
        if isinstance(tnode, ast.Tuple):
            return z3.Or([self.isinstance_test(v, t, st) for t in tnode.elts])
        name = self.dotted(tnode, st) if isinstance(tnode, (ast.Attribute, ast.Name)) else None
        if name is None:
            raise OutsideSubset("isinstance against computed type")
        short = name.split(".")[-1]
        if v.ty is EXC and self.is_exc_class(short):
            return self.exc_isinstance(v, short)
        if isinstance(v.ty, Opt):
            if short == "NoneType":
                return core.ois_none(v)
            return z3.And(z3.Not(core.ois_none(v)), self.isinstance_test(core.oval(v), tnode, st))
        static = {"list": List, "dict": Map, "set": Set}
        if v.ty is PY:
            P = core.py_sort()
            if short in ("str", "string_types", "basestring", "text_type"):
                return P.is_PStr(v.t)
            if short == "bool":
                return P.is_PBool(v.t)
            if short in ("int", "integer_types"):
                return z3.Or(P.is_PInt(v.t), P.is_PBool(v.t))
            return z3.And(P.is_PObj(v.t), CTX.func("obj_isinstance_" + short, z3.IntSort(), z3.BoolSort())(P.o(v.t)))
        if isinstance(v.ty, (Ref, U)):
            # class test on an object: declared table or uninterpreted predicate
            cname = v.ty.cls if isinstance(v.ty, Ref) else v.ty.name
            tbl = self.reg.classes.get(cname, {}).get("__isinstance__", {})
            if short in tbl:
                r = tbl[short]
                if isinstance(r, bool):
                    return z3.BoolVal(r)
                s2 = State()
                s2.env = {"self": v}
                s2.heap, s2.glob = st.heap, st.glob
                return self.spec_bool(r, s2)
            return core.ufun("isinstance_" + short, [v], BOOL).t
        if short in static:
            return z3.BoolVal(isinstance(v.ty, static[short]) or (short == "list" and v.ty in (STATIC, EMPTY_LIST))
                              or (short == "dict" and v.ty is EMPTY_DICT) or (short == "set" and v.ty is EMPTY_SET))
        if short in ("str", "string_types", "basestring", "text_type"):
            return z3.BoolVal(v.ty is STR)
        if short == "bool":
            return z3.BoolVal(v.ty is BOOL)
        if short in ("int", "integer_types"):
            return z3.BoolVal(v.ty in (INT, BOOL))
        if short == "tuple":
            return z3.BoolVal(isinstance(v.ty, Tup))
        if v.ty is NONE:
            return z3.BoolVal(short == "NoneType")
        if v.ty in (INT, BOOL, STR, REAL) or isinstance(v.ty, (List, Set, Map, Tup)) or v.ty in (STATIC, EMPTY_LIST, EMPTY_DICT, EMPTY_SET):
            return z3.BoolVal(False)
        raise OutsideSubset("isinstance(%r, %s)" % (v.ty, name))

    def bi_callable(self, e, st):
        res = []
        for st1, (a,) in self._args1(e, st):
            if a.ty is CLOSURE or isinstance(a.ty, Fn):
                res.append((st1, mk_bool(True)))
            elif a.ty is PY:
                P = core.py_sort()
                res.append((st1, V(BOOL, z3.And(P.is_PObj(a.t), CTX.func("obj_callable", z3.IntSort(), z3.BoolSort())(P.o(a.t))))))
            else:
                res.append((st1, mk_bool(False)))
        return res

    def _empty(self, kind):
        hints = getattr(self.contract, "empties", None) if self.contract else None
        if hints and kind in hints:
            ty = hints[kind]
            return {"set": lambda: core.sempty(ty.elem), "list": lambda: core.lempty(ty.elem),
                    "dict": lambda: core.mempty(ty.k, ty.v)}[kind]()
        return V({"set": EMPTY_SET, "list": EMPTY_LIST, "dict": EMPTY_DICT}[kind], None)

    def bi__reduce(self, e, st):
        """functools.reduce(set.union, <collection of sets>[, initial]) : the union of the sets."""
        if not (isinstance(e.args[0], ast.Attribute) and ast.unparse(e.args[0]) == "set.union"):
            raise OutsideSubset("reduce with a function other than set.union")
        res = []
        a1 = e.args[1]
        if isinstance(a1, ast.Call) and isinstance(a1.func, ast.Attribute) and a1.func.attr == "values" and not a1.args:
            # union of the values of a dict of sets: characterised per key (no positions)
            for st1, m in self.ev(a1.func.value, st):
                if not (isinstance(m.ty, Map) and isinstance(m.ty.v, Set)):
                    raise OutsideSubset("reduce(set.union, X.values()) on %r" % (m.ty,))
                if len(e.args) < 3:
                    ok, bad = self.fork(st1, z3.Not(core.sisempty(core.mdom(m))), e.lineno, "reduce-empty")
                    if bad is not None:
                        self.do_raise(bad, "TypeError")
                    if ok is None:
                        continue
                    st1 = ok
                res.append((st1, core.svirt(m.ty.v.elem, lambda x, m=m: core.exists_ty(
                    m.ty.k, lambda k: z3.And(core.smem_t(core.mdom(m), k), z3.Select(z3.Select(core.mval(m), k), x))))))
            return res
        for st1, seq in self.ev_iter(e.args[1], st):
            if seq.ty is STATIC:
                raise OutsideSubset("reduce over static sequence")
            ety = seq.ty.elem.elem
            if len(e.args) < 3:
                ok, bad = self.fork(st1, core.llen(seq) > 0, e.lineno, "reduce-empty")
                if bad is not None:
                    self.do_raise(bad, "TypeError")
                if ok is None:
                    continue
                st1 = ok
            res.append((st1, core.svirt(ety, lambda x, seq=seq: core.exists_int(0, core.llen(seq), lambda j: z3.Select(z3.Select(core.larr(seq), j), x)))))
        return res

    bi_reduce = bi__reduce

    def sf_store_all(self, e, st):
        """store_all(m, S, v): m with every key of S mapped to v"""
        m, s, v = [self.ev1(x, st) for x in e.args]
        v = self.adapt(v, m.ty.v)
        r = fresh(m.ty, "storeall")
        self.spec_defs.append(z3.And(
            core.forall_ty(m.ty.k, lambda k: core.smem_t(core.mdom(r), k) == z3.Or(core.smem_t(core.mdom(m), k), core.smem_t(s, k))),
            core.forall_ty(m.ty.k, lambda k: z3.Select(core.mval(r), k) == z3.If(core.smem_t(s, k), v.t, z3.Select(core.mval(m), k)))))
        return r

    def bi_set(self, e, st):
        if not e.args:
            return [(st, self._empty("set"))]
        if isinstance(e.args[0], (ast.GeneratorExp, ast.ListComp)):
            return self.comprehension(e.args[0], st, "set")
        res = []
        for st1, (a,) in self._args1(e, st):
            if a.ty in (EMPTY_LIST, EMPTY_SET, EMPTY_DICT):
                res.append((st1, V(EMPTY_SET, None)))
            elif a.ty is STATIC:
                res.append((st1, self.adapt(a, Set(a.items[0].ty))))
            else:
                inner = a.ty.elem if isinstance(a.ty, Opt) else a.ty
                ety = inner.k if isinstance(inner, Map) else inner.elem
                res.append((st1, self._as_set(a, ety, st1)))
        return res

    bi_frozenset = bi_set

    def bi_list(self, e, st):
        if not e.args:
            return [(st, V(EMPTY_LIST, None))]
        res = []
        for st1, seq in self.ev_iter(e.args[0], st):
            res.append((st1, seq))
        return res

    bi_tuple = bi_list

    def bi_dict(self, e, st):
        if not e.args and not e.keywords:
            return [(st, V(EMPTY_DICT, None))]
        if e.keywords and not e.args:
            res = []
            for st1, vals in self.ev_list([k.value for k in e.keywords], st):
                vty = vals[0].ty if all(v.ty == vals[0].ty for v in vals) else PY
                m = core.mempty(STR, vty)
                for k, v in zip(e.keywords, vals):
                    m = core.mstore(m, mk_str(k.arg), self.adapt(v, vty))
                res.append((st1, m))
            return res
        a0 = e.args[0]
        # dict(<generator of pairs>) == dict comprehension
        if isinstance(a0, (ast.GeneratorExp, ast.ListComp)) and isinstance(a0.elt, ast.Tuple) and len(a0.elt.elts) == 2:
            dc = ast.copy_location(ast.DictComp(key=a0.elt.elts[0], value=a0.elt.elts[1], generators=a0.generators), a0)
            return self.ev(dc, st)
        res = []
        for st1, (a,) in self._args1(e, st):
            if isinstance(a.ty, Map) or a.ty is EMPTY_DICT:
                res.append((st1, a))
            elif isinstance(a.ty, Opt) and isinstance(a.ty.elem, Map):
                x, y = self.fork(st1, core.ois_none(a), e.lineno, "dict-none") if not self.in_spec else (None, st1)
                if x is not None:
                    self.do_raise(x, "TypeError")
                if y is not None:
                    res.append((y, core.oval(a)))
            else:
                raise OutsideSubset("dict(%r)" % (a.ty,))
        return res

    def bi_sorted(self, e, st):
        if e.keywords:
            for k in e.keywords:
                if k.arg not in ("reverse", "key"):
                    raise OutsideSubset("sorted keyword")
        res = []
        for st1, v in self.ev(e.args[0], st):
            if v.ty in (EMPTY_LIST, EMPTY_SET, EMPTY_DICT):
                res.append((st1, V(EMPTY_LIST, None)))
                continue
            if isinstance(v.ty, (Set, Map)):
                s = v if isinstance(v.ty, Set) else core.mdom(v)
                st1 = st1.copy()
                name = "sorted" + ("_rev" if any(k.arg == "reverse" for k in e.keywords) else "") + ("_key" if any(k.arg == "key" for k in e.keywords) else "")
                res.append((st1, self.enumerate_set(s, st1, fn=name)))
                self.notes.append("sorted(set) is a fixed (uninterpreted) enumeration of the set, the same for equal sets")
                continue
            if isinstance(v.ty, List) or v.ty is STATIC:
                if v.ty is STATIC:
                    v = self.adapt(v, List(v.items[0].ty))
                r = core.ufun("sorted_list", [v], v.ty)
                st1 = st1.copy().assume(core.llen(r) == core.llen(v), core.set_eq(core.elems(r), core.elems(v)))
                self.notes.append("sorted(list) is an uninterpreted permutation (same length, same elements)")
                res.append((st1, r))
                continue
            raise OutsideSubset("sorted(%r)" % (v.ty,))
        return res

    def bi_reversed(self, e, st):
        return self.ev_iter(e, st)

    def bi_enumerate(self, e, st):
        return self.ev_iter(e, st)

    def bi_zip(self, e, st):
        return self.ev_iter(e, st)

    def bi_range(self, e, st):
        return self.ev_iter(e, st)

    def _anyall(self, e, st, universal):
        a0 = e.args[0]
        if isinstance(a0, (ast.GeneratorExp, ast.ListComp)) and len(a0.generators) == 2 and not a0.generators[0].ifs:
            # two generators: any(E for a in A for b in B) == any(any(E for b in B) for a in A)
            g1, g2 = a0.generators
            inner = ast.Call(func=ast.Name(id="all" if universal else "any", ctx=ast.Load()),
                             args=[ast.GeneratorExp(elt=a0.elt, generators=[g2])], keywords=[])
            outer = ast.Call(func=e.func, args=[ast.GeneratorExp(elt=inner, generators=[g1])], keywords=[])
            ast.copy_location(outer, e)
            ast.fix_missing_locations(outer)
            return self._anyall(outer, st, universal)
        if isinstance(a0, (ast.GeneratorExp, ast.ListComp)) and len(a0.generators) == 1:
            g = a0.generators[0]
            res = []
            for st1, seq in self.ev_iter(g.iter, st):
                if seq.ty is STATIC:
                    parts = []
                    for it in seq.items:
                        s2 = self._bind_elem(g.target, it, st1.copy())
                        self.spec_depth += 1
                        n0 = len(self.spec_defs)
                        try:
                            conds = [truthy(self.ev1(c, s2)) for c in g.ifs]
                            body = truthy(self.ev1(a0.elt, s2))
                            self.no_defs_under_binder(n0)
                        finally:
                            self.spec_depth -= 1
                        parts.append((z3.Implies(z3.And(conds), body) if conds else body) if universal else z3.And(conds + [body]))
                    res.append((st1, V(BOOL, (z3.And if universal else z3.Or)(parts or [z3.BoolVal(universal)]))))
                    continue

                as_code = not self.in_spec
                last_raises = []

                def at(j, st1=st1, seq=seq):
                    s2 = self._bind_elem(g.target, core.lget(seq, j), st1.copy())
                    self.spec_depth += 1
                    n0 = len(self.spec_defs)
                    saved_collect = getattr(self, "comp_collect", None)
                    self.comp_collect = [] if as_code else None
                    try:
                        conds = [truthy(self.ev1(c, s2)) for c in g.ifs]
                        body = truthy(self.ev1(a0.elt, s2))
                        self.no_defs_under_binder(n0)
                        last_raises[:] = self.comp_collect or []
                    finally:
                        self.spec_depth -= 1
                        self.comp_collect = saved_collect
                    return (z3.Implies(z3.And(conds), body) if conds else body) if universal else z3.And(conds + [body])
                Q = core.forall_int if universal else core.exists_int
                at(z3.Int("anyall!probe"))
                if as_code and last_raises:
                    # an element evaluation that raises ends any()/all(), unless the scan stopped earlier (short circuit)
                    ename = last_raises[0][0]

                    def rc(j):
                        at(j)
                        return z3.Or([t for _, t in last_raises])

                    def goes_on(i):          # position i neither raised nor stopped the scan
                        v = at(i)
                        return z3.And(z3.Not(rc(i)), v if universal else z3.Not(v))
                    n = core.llen(seq)
                    raising = core.exists_int(0, n, lambda j: z3.And(rc(j), core.forall_int(0, j, goes_on)))
                    bad, ok = self.fork(st1, raising, getattr(e, "lineno", None), "anyall-raise")
                    if bad is not None:
                        bad = bad.copy()
                        self.do_raise(bad, self.new_exc(ename, bad, exact=False))
                    if ok is None:
                        continue
                    st1 = ok
                res.append((st1, V(BOOL, Q(0, core.llen(seq), at))))
            return res
        res = []
        for st1, seq in self.ev_iter(a0, st):
            if seq.ty is STATIC:
                parts = [truthy(i) for i in seq.items]
                res.append((st1, V(BOOL, (z3.And if universal else z3.Or)(parts or [z3.BoolVal(universal)]))))
            else:
                Q = core.forall_int if universal else core.exists_int
                res.append((st1, V(BOOL, Q(0, core.llen(seq), lambda j: truthy(core.lget(seq, j))))))
        return res

    def bi_any(self, e, st):
        return self._anyall(e, st, False)

    def bi_all(self, e, st):
        return self._anyall(e, st, True)

    def bi_str(self, e, st):
        if not e.args:
            return [(st, mk_str(""))]
        res = []
        for st1, (a,) in self._args1(e, st):
            if a.ty is STR:
                res.append((st1, a))
            elif isinstance(a.ty, Opt) and a.ty.elem is STR:
                res.append((st1, V(STR, z3.If(core.ois_none(a), CTX.strlit("None"), core.oval(a).t))))
            elif a.ty is MODULE:
                res.append((st1, fresh(STR, "str")))
            else:
                res.append((st1, core.ufun("to_str", [core.tpack(a) if isinstance(a.ty, Tup) else a], STR)))
        return res

    bi_repr = bi_str

    def bi_int(self, e, st):
        res = []
        for st1, (a,) in self._args1(e, st):
            if a.ty in (INT, BOOL):
                res.append((st1, coerce(a, INT)))
                continue
            # int(<string / dynamic>) may raise ValueError / TypeError
            ok = core.ufun("int_parsable", [a], BOOL).t
            x, y = self.fork(st1, ok, e.lineno, "int()") if not self.in_spec else (st1, None)
            if y is not None:
                self.do_raise(y, "ValueError")
            if x is not None:
                res.append((x, core.ufun("int_of", [a], INT)))
        return res

    def bi_float(self, e, st):
        res = []
        for st1, (a,) in self._args1(e, st):
            ok = core.ufun("float_parsable", [a], BOOL).t
            x, y = self.fork(st1, ok, e.lineno, "float()") if not self.in_spec else (st1, None)
            if y is not None:
                self.do_raise(y, "ValueError")
            if x is not None:
                res.append((x, core.ufun("float_of", [a], REAL)))
        return res

    def bi_type(self, e, st):
        res = []
        for st1, (a,) in self._args1(e, st):
            static = {INT: "int", BOOL: "bool", STR: "str", NONE: "NoneType"}.get(a.ty)
            if static is None and isinstance(a.ty, (List, Set, Map, Tup)):
                static = {List: "list", Set: "set", Map: "dict", Tup: "tuple"}[type(a.ty)]
            if static is not None:
                res.append((st1, V(MODULE, None, (static,))))      # compares with the builtin type names
                continue
            res.append((st1, core.ufun("type_of", [core.tpack(a) if isinstance(a.ty, Tup) else a], U("Type"))))
        return res

    def bi_hasattr(self, e, st):
        res = []
        for st1, (a, n) in self._args1(e, st):
            res.append((st1, core.ufun("hasattr", [a, n], BOOL)))
        return res

    def bi_issubclass(self, e, st):
        ext = self.reg.externals.get("issubclass")
        if ext is not None and ext != "drop":
            return self.call_external(ext, e, st)       # the sidecar states when it raises (TypeError for a non-class)
        res = []
        for st1, (a, b) in self._args1(e, st):
            if isinstance(a.ty, Opt):
                a = core.oval(a)
            res.append((st1, core.ufun("issubclass", [a, b], BOOL)))
        return res

    def bi_print(self, e, st):
        return [(st, NONEV)]

    def bi_max(self, e, st):
        return self._maxmin(e, st, True)

    def bi_min(self, e, st):
        return self._maxmin(e, st, False)

    def _maxmin(self, e, st, is_max):
        if e.keywords:
            raise OutsideSubset("max/min with key")
        res = []
        if len(e.args) >= 2:
            for st1, vals in self._args1(e, st):
                r = vals[0]
                for v in vals[1:]:
                    c = self.num(v) > self.num(r) if is_max else self.num(v) < self.num(r)
                    r = self._select(c, v, r)
                res.append((st1, r))
            return res
        for st1, seq in self.ev_iter(e.args[0], st):
            if seq.ty is STATIC:
                raise OutsideSubset("max of static")
            if isinstance(seq.ty.elem, Ref) and (seq.ty.elem.cls, "__lt__") in self.reg.methods:
                # max / min over objects ordered by their __lt__ contract: an element no other element is greater (smaller) than
                ok, bad = self.fork(st1, core.llen(seq) > 0, e.lineno, "max-empty") if not self.in_spec else (st1, None)
                if bad is not None:
                    self.do_raise(bad, "ValueError")
                if ok is None:
                    continue
                m = fresh(seq.ty.elem, "max" if is_max else "min")
                ok = ok.copy()
                lt = self.reg.methods[(seq.ty.elem.cls, "__lt__")]
                def less(x, y, ok=ok, lt=lt):
                    s2 = State()
                    s2.env = {"self": x, "other": y}
                    s2.heap, s2.glob, s2.old = ok.heap, ok.glob, None
                    t = [t_ for t_ in lt.ensures if t_.strip().startswith("result == ")][0]
                    return truthy(self.spec(t.strip()[len("result == "):], s2))
                ok.assume(core.lcontains(seq, m),
                          core.forall_int(0, core.llen(seq), lambda j: z3.Not(less(m, core.lget(seq, j)) if is_max else less(core.lget(seq, j), m))))
                self.notes.append("max/min over objects: an element with no greater/smaller element under the __lt__ contract "
                                  "(the builtin's contract over a strict weak order; comparison errors not modelled)")
                res.append((ok, m))
                continue
            ok, bad = self.fork(st1, core.llen(seq) > 0, e.lineno, "max-empty") if not self.in_spec else (st1, None)
            if bad is not None:
                self.do_raise(bad, "ValueError")
            if ok is None:
                continue
            m = fresh(seq.ty.elem, "max" if is_max else "min")
            ok = ok.copy()
            if seq.ty.elem is INT:
                ok.assume(core.lcontains(seq, m),
                          core.forall_int(0, core.llen(seq), lambda j: (z3.Select(core.larr(seq), j) <= m.t) if is_max else (z3.Select(core.larr(seq), j) >= m.t)))
            else:
                ok.assume(core.lcontains(seq, m))
                self.notes.append("max/min over non-integers: only membership of the result is modelled")
            res.append((ok, m))
        return res

    def bi_sum(self, e, st):
        raise OutsideSubset("sum")

    def bi_getattr(self, e, st):
        res = []
        for st1, vals in self._args1(e, st):
            obj, name = vals[0], e.args[1]
            if isinstance(obj.ty, Opt) and isinstance(obj.ty.elem, Ref):
                self.notes.append("getattr on an optional object: taken as present (guarded by a truthiness test)")
                obj = core.oval(obj)
                vals = [obj] + list(vals[1:])
            if len(vals) == 3 and isinstance(name, ast.Constant) and isinstance(obj.ty, Ref) and \
                    self.field_ty(obj.ty.cls, name.value) is not None:
                has = core.ufun("hasattr_" + name.value, [obj], BOOL).t
                res.append((st1, self._select(has, self.heap_get(st1, obj, name.value), vals[2])))
                continue
            if isinstance(name, ast.Constant) and isinstance(obj.ty, Ref):
                if self.field_ty(obj.ty.cls, name.value) is not None or self.reg.classes[obj.ty.cls].get("__dynamic__"):
                    res.append((st1, self.heap_get(st1, obj, name.value)))
                    continue
            if isinstance(obj.ty, Ref) and self.reg.classes[obj.ty.cls].get("__dynamic__"):
                m = self.heap_get(st1, obj, self.reg.classes[obj.ty.cls]["__dynamic__"])
                res.append((st1, core.mget(m, vals[1])))
                continue
            raise OutsideSubset("getattr")
        return res

    def bi_setattr(self, e, st):
        res = []
        for st1, vals in self._args1(e, st):
            obj = vals[0]
            if isinstance(obj.ty, Ref) and self.reg.classes[obj.ty.cls].get("__dynamic__"):
                dyn = self.reg.classes[obj.ty.cls]["__dynamic__"]
                st1 = st1.copy()
                m = self.heap_get(st1, obj, dyn)
                self.heap_set(st1, obj, dyn, core.mstore(m, vals[1], self.adapt(vals[2], m.ty.v)))
                res.append((st1, NONEV))
                continue
            raise OutsideSubset("setattr")
        return res
