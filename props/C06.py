"""C06 - collection stays in its root, honours the deny list, writes only to the archive."""
from contracts.providers import SF, BL

GROUPS = [dict(name="validate", sidecars=["providers"], strmode="z3", units=[
    (BL, "allow_file"), (BL, "allow_command"), (SF, "FileProvider.validate"), (SF, "CommandOutputProvider.validate")])]
Z3_TIMEOUT = 40
CVC5_TIMEOUT = 60
NOT_CARRIED = ["os.path.realpath, os.path.exists, glob, shlex, which: assumed contracts of the OS / library (realpath: absolute, no trailing "
               "slash unless the root directory; the location the kernel opens)",
               "factory typestate (every provider a factory returns went through validate): the datasource factories' __call__ methods are "
               "not under contract in this revision",
               "destination shape of persisted content (serializers, mangle_command) and '..' inside relative paths re-joined under the "
               "output directory: not under contract",
               "apply_blacklist (translation of the user's redaction config into deny entries)"]
