"""C10 - cleaning is a deterministic, order-preserving function of content and configuration."""
from contracts.cleaner import M as CM
from contracts.provider_clean import M as SF

GROUPS = [
    dict(name="cleaner", sidecars=["cleaner"], units=[(CM, "Cleaner.clean_content.<locals>._clean_line"), (CM, "Cleaner.clean_content")]),
    dict(name="provider", sidecars=["provider_clean"], units=[(SF, "ContentProvider._clean_content"), (SF, "ContentProvider.content"),
                                                               (SF, "ContentProvider.write")],
         refinements=[((SF, "ContentProvider._clean_content"), ("Provider", "_clean_content")),
                      ((SF, "ContentProvider.content"), ("Provider", "content"))]),
]
NOT_CARRIED = ["the stages themselves (Pattern, AllowFilter, Keyword, Password, IPv4, IPv6, Hostname, Mac .parse_line) are one assumed interface "
               "contract: deterministic in (stage, its state, line, keyword arguments); given that, the output is a function of the stage "
               "list and the lines, and the `deterministic` obligation states that the stage list does not depend on set iteration order",
               "clean_content with a single string instead of a list of lines",
               "'blank' is read as the empty string (a spec of white-space-only lines is kept), see DESIGN.md"]
