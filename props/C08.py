"""C08 - nothing configured or recognised as sensitive survives cleaning (application half only)."""
from contracts.cleaner import M as CM
from contracts.provider_clean import M as SF
from contracts.cleaner_stages import PM, KM

GROUPS = [
    dict(name="cleaner", sidecars=["cleaner"], units=[(CM, "Cleaner.clean_content.<locals>._clean_line"), (CM, "Cleaner.clean_content")]),
    dict(name="stages", sidecars=["cleaner_stages"], units=[(PM, "Pattern.parse_line"), (KM, "Keyword.parse_line")]),
    dict(name="provider", sidecars=["provider_clean"], units=[(SF, "ContentProvider._clean_content"), (SF, "ContentProvider.write")],
         refinements=[((SF, "ContentProvider._clean_content"), ("Provider", "_clean_content"))]),
]
NOT_CARRIED = ["every recogniser: the regular expressions of ip.py, hostname.py, mac.py, password.py (look-around, back-references) and the "
               "str.replace chains that remove what they find - outside both solvers' theories; NOT decided deductively - "
               "covered only by the bounded stand-in bounded/cleaner_exhaustive.py (labelled bounded)",
               "'no occurrence of a keyword remains' (replace can re-create a keyword across the seam of a substitute)",
               "RawFileProvider.write copies without cleaning (documented exemption)",
               "decided here: which stage runs on which line, in which order, under which exemption; that a pattern-matching line is dropped; "
               "that what is written is exactly the cleaned content"]


def bounded(check):
    """bounded stand-in for the recognition half (regular expressions, replace chains): the real Cleaner on generated lines"""
    import json, os, subprocess
    lvl = 1 if check.tier == "quick" else 2
    here = os.path.dirname(os.path.dirname(os.path.abspath(__file__)))
    p = subprocess.run(["/venv/bin/python", os.path.join(here, "bounded", "cleaner_exhaustive.py"), check.repo.root, str(lvl)],
                       stdout=subprocess.PIPE, stderr=subprocess.PIPE, universal_newlines=True, timeout=3000)
    line = (p.stdout.strip().splitlines() or ["{}"])[-1]
    try:
        info = json.loads(line)
    except ValueError:
        info = {"error": (p.stderr or p.stdout)[-400:]}
    out = dict(name="recognition: no IPv4 / host name / MAC / password secret / keyword / excluded line survives the real Cleaner", level="bounded",
               bound="level %d: 3-5 addresses, 3 host-name forms, 2 MACs x 7-10 prefixes x 8-12 suffixes (line start/end, punctuation), two per line; "
                     "7 password notations x 1-3 occurrences; 2 keywords; plain and regex exclusion lists" % lvl,
               result=info, violation=(p.returncode == 1), error=(p.returncode not in (0, 1)))
    if p.returncode == 1:
        os.makedirs(os.path.join(here, "replays"), exist_ok=True)
        path = os.path.join(here, "replays", "C08-bounded.json")
        json.dump(dict(obligation="bounded:cleaner-recognition", witness=info,
                       replay_cmd="/venv/bin/python %s %s %d" % (os.path.join(here, "bounded", "cleaner_exhaustive.py"), check.repo.root, lvl)),
                  open(path, "w"), indent=1)
        out["replay"] = path
    return [out]
