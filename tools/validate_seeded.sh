#!/bin/bash
# validate_seeded.sh <incoming dir> <out dir>: for every <id>/{A,B}.diff check demo PASS on pristine, FAIL with patch,
# and that the patch adds no failure to the stable baseline of the test-suite.  Uses one scratch worktree at a time.
IN=${1:-/verif/seeded/_incoming}; OUT=${2:-/tmp/seedval}; mkdir -p $OUT
WT=/tmp/vw_seed
git -C /repo worktree remove --force $WT 2>/dev/null
git -C /repo worktree add --detach $WT HEAD >/dev/null 2>&1 || exit 3
cd $WT
if [ ! -f $OUT/pristine.txt ]; then
  /venv/bin/python -m pytest -q -p no:cacheprovider --timeout=900 -n 8 -x --co -q >/dev/null 2>&1
  /venv/bin/python -m pytest -q -p no:cacheprovider --timeout=900 -n 8 2>&1 | grep -E "^(FAILED|ERROR)" | sed 's/ - .*//' | sort > $OUT/pristine.txt
fi
for d in $IN/C*; do id=$(basename $d)
 for X in A B; do
  [ -f $d/$X.diff ] || continue
  [ -f $OUT/$id.$X.result ] && continue
  git checkout -q -- . ; git clean -fdq
  mkdir -p _out; cp $d/demo_$X.py _out/
  /venv/bin/python _out/demo_$X.py > $OUT/$id.$X.pristine.log 2>&1; p=$?
  if ! git apply $d/$X.diff 2>$OUT/$id.$X.apply.log; then echo "$id $X APPLY-FAILED" > $OUT/$id.$X.result; continue; fi
  /venv/bin/python _out/demo_$X.py > $OUT/$id.$X.mutant.log 2>&1; m=$?
  rm -rf _out
  /venv/bin/python -m pytest -q -p no:cacheprovider --timeout=900 -n 8 2>&1 | grep -E "^(FAILED|ERROR)" | sed 's/ - .*//' | sort > $OUT/$id.$X.fail.txt
  new=$(comm -13 $OUT/pristine.txt $OUT/$id.$X.fail.txt | tr '\n' ' ')
  echo "$id $X demo_pristine_exit=$p demo_mutant_exit=$m new_failures=[$new]" > $OUT/$id.$X.result
  git checkout -q -- . ; git clean -fdq
 done
done
cd /; git -C /repo worktree remove --force $WT
echo ALLDONE > $OUT/DONE
