#!/bin/bash
cd /verif
for p in $(python3 -c "import json; print(' '.join(c['property_id'] for c in json.load(open('MANIFEST.json'))['checks']))"); do
  timeout 6000 ./check $p --tier thorough 2>&1 | grep -E "VIOLATION|CHECKER-ERROR|UNDECIDED|KNOWN-FINDING|exit [0-9]" | cut -c1-220
done
echo THOROUGH-DONE
