"""C19 - parser combinators implement ordered-choice PEG semantics."""
from contracts.parsr import M

T = "insights/core/taglang.py"
SIDECARS = ["parsr"]
_CLASSES = ["AnyChar", "Char", "InSet", "Sequence", "Choice", "Many", "FollowedBy", "NotFollowedBy", "KeepLeft", "KeepRight", "Opt",
            "Wrapper", "Forward", "EOF", "Literal", "Until", "Map"]
UNITS = [(M, c + ".process") for c in _CLASSES] + [(T, "Not.test"), (T, "And.test"), (T, "Or.test")]
NOT_CARRIED = ["String, Lift, PosMarker, the comment / indentation / tag-name parsers are not under contract in this revision; Literal: positions and the "
               "match condition for both case modes, the value only for the case-sensitive mode and for an explicit value",
               "the _ParserMeta debug wrapper (_debug_hook) around every process()",
               "the interface P.process (ok/npos/val) is the denotation each class's contract DEFINES by its equation; that a grammar built from these classes computes the composed denotation: structural induction over grammar terms (meta-step)",
               "the shipped grammars as wholes (JSON example grammar vs json; tag language precedence as parsed): whole-grammar language "
               "equivalence is not decided; taglang: only And/Or/Not.test are under contract",
               "termination of Many over non-consuming children (excluded by the property's own quantifier)"]


def bounded(check):
    """bounded stand-in for the shipped tag-expression grammar against boolean evaluation under the stated precedence"""
    import json, os, subprocess
    n = 3 if check.tier == "quick" else 4
    here = os.path.dirname(os.path.dirname(os.path.abspath(__file__)))
    p = subprocess.run(["/venv/bin/python", os.path.join(here, "bounded", "taglang_exhaustive.py"), check.repo.root, str(n)],
                       stdout=subprocess.PIPE, stderr=subprocess.PIPE, universal_newlines=True, timeout=3000)
    line = (p.stdout.strip().splitlines() or ["{}"])[-1]
    try:
        info = json.loads(line)
    except ValueError:
        info = {"error": (p.stderr or p.stdout)[-400:]}
    out = dict(name="taglang.parse(e).test(tags) == boolean evaluation under ! > & > (| ,)", level="bounded",
               bound="all expressions with <= %d tags from {a,b,c}, optional !, parentheses nested once, all 8 tag sets" % n, result=info,
               violation=(p.returncode == 1), error=(p.returncode not in (0, 1)))
    if p.returncode == 1:
        os.makedirs(os.path.join(here, "replays"), exist_ok=True)
        path = os.path.join(here, "replays", "C19-bounded.json")
        cmd = "/venv/bin/python -c 'from insights.core.taglang import parse; print(parse(%r).test(%r))'" % (info.get("expr"), info.get("tags"))
        json.dump(dict(obligation="bounded:taglang==reference", witness=info, replay_cmd=cmd), open(path, "w"), indent=1)
        out["replay"] = path
    return [out]
