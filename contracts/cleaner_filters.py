"""Sidecar contracts for insights/cleaner/filters.py (C07 content part)."""
import collections
from pyvc.dsl import *

M = "insights/cleaner/filters.py"
BUD = Map(STR, INT)

HAS = "exists(f, old(allowlist), f in lines[{i}])"
OUTER = [
    # budgets: what is left of a filter is positive, never more than it started with; a filter no processed line contains is untouched
    "forall(f, allowlist, f in old(allowlist) and 1 <= allowlist[f] and allowlist[f] <= old(allowlist)[f])",
    "forall(f, old(allowlist), implies(forall(k, range(0, i_0), not (f in lines[it_0[k]])), f in allowlist and allowlist[f] == old(allowlist)[f]))",
    # the processed positions: it_0[k] = len(lines) - 1 - k
    "forall(k, range(0, len(it_0)), it_0[k] == len(lines) - 1 - k)",
    # result: the kept lines, newest first; src: their positions, strictly decreasing, all processed
    "len(src) == len(result)",
    "forall(j, range(0, len(src)), 0 <= src[j] and src[j] < len(lines) and src[j] > len(lines) - 1 - i_0 and result[j] == lines[src[j]] and src[j] in kept)",
    "forall(a, range(0, len(src)), forall(b, range(0, len(src)), implies(a < b, src[a] > src[b])))",
    "forall(i, kept, i in kidx and 0 <= kidx[i] and kidx[i] < len(src) and src[kidx[i]] == i)",
    # every kept line contains a registered filter
    "forall(i, kept, exists(f, old(allowlist), f in lines[i]))",
    # the first processed (= last in the file) line containing a filter is kept
    "forall(f, old(allowlist), forall(i, range(len(lines) - i_0, len(lines)), implies(f in lines[i] and forall(i2, range(i + 1, len(lines)), not (f in lines[i2])), i in kept)))",
    "i_0 <= len(lines)",
    # a processed line that was dropped contains only filters whose budget is used up (they left the allow list for good)
    "forall(k, range(0, i_0), implies(it_0[k] not in kept, forall(f, old(allowlist), implies(f in lines[it_0[k]], f not in allowlist))))",
]
INNER = [
    "allowlist == lold(allowlist)", "result == lold(result)", "src == lold(src)", "kept == lold(kept)", "kidx == lold(kidx)",
    "forall(j, range(0, i_1), not (it_1[j] in lines[idx]))",
    "0 <= idx and idx < len(lines)",
]
POST = [
    # an order-preserving sub-sequence of the input (src: increasing positions after the final reverse is stated on kept)
    "len(result) == len(src)",
    "forall(j, range(0, len(result)), result[j] == lines[src[len(src) - 1 - j]])",
    "forall(a, range(0, len(src)), forall(b, range(0, len(src)), implies(a < b, src[a] > src[b])))",
    "forall(j, range(0, len(src)), 0 <= src[j] and src[j] < len(lines) and src[j] in kept)",
    "forall(i, kept, i in kidx and 0 <= kidx[i] and kidx[i] < len(src) and src[kidx[i]] == i)",
    # every kept line contains a filter
    "forall(i, kept, exists(f, old(allowlist), f in lines[i]))",
    # the last line matching each filter is always kept
    "forall(f, old(allowlist), forall(i, range(0, len(lines)), implies(f in lines[i] and forall(i2, range(i + 1, len(lines)), not (f in lines[i2])), i in kept)))",
]


def declare(reg):
    reg.sort(Str=STR, Int=INT)
    reg.contract(M, "AllowFilter.filter_content", params=dict(lines=List(STR), allowlist=BUD), returns=List(STR),
                 requires=["forall(f, allowlist, allowlist[f] >= 1)"],
                 locals=dict(result=List(STR), src=List(INT), kept=Set(INT), kidx=Map(INT, INT)),
                 ghosts=collections.OrderedDict(src=(List(INT), "[]"), kept=(Set(INT), "set()"), kidx=(Map(INT, INT), "{}")),
                 empties=dict(set=Set(INT)),
                 ghost_on=[("result.append(lines[idx])", "kidx[idx] = len(src); src.append(idx); kept.add(idx)", "after")],
                 loops={0: OUTER, 1: INNER},
                 raises={}, ensures=POST)
