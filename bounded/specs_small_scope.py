"""BOUNDED stand-in / native witness search for C05 (never counted as proved): every sequence of <= K implementations of one spec name, each
bound to HostContext, HostArchiveContext or both, each yielding a value or deliberately skipping; after EVERY registration the spec is
evaluated in a fresh broker for each active context (so look-ups interleave with registrations).  Reference, from the property: the value is
the one of the most recently registered implementation declared for the active context; earlier implementations for that context are not
executed; implementations for other contexts never contribute; if that implementation yields nothing the spec is absent.
usage: /venv/bin/python specs_small_scope.py <repo root> <K> ; exit 1 + JSON line with a witness."""
import itertools, json, sys
root, K = sys.argv[1], int(sys.argv[2])
sys.path.insert(0, root)
import logging
logging.disable(logging.CRITICAL)
from insights.core import dr
from insights.core.context import HostContext, HostArchiveContext
from insights.core.exceptions import SkipComponent
from insights.core.plugins import datasource
from insights.core.spec_factory import RegistryPoint, SpecSet

CTX = {"H": (HostContext,), "A": (HostArchiveContext,), "HA": (HostContext, HostArchiveContext)}
CALLS = []


def fail(**kw):
    print(json.dumps(kw, default=repr))
    sys.exit(1)


def impl(tag, ctxs, outcome):
    @datasource(list(ctxs) if len(ctxs) > 1 else ctxs[0])
    def thing(broker):
        CALLS.append(tag)
        if outcome == "skip":
            raise SkipComponent()
        return "value-" + tag
    return thing


n = 0
uid = itertools.count()
for k in range(1, K + 1):
    for seq in itertools.product(itertools.product(sorted(CTX), ("value", "skip")), repeat=k):
        Specs = type("Specs%d" % next(uid), (SpecSet,), {"thing": RegistryPoint()})
        registered = []
        for pos, (ck, outcome) in enumerate(seq):
            tag = "i%d" % pos
            type("Impl%d_%d" % (next(uid), pos), (Specs,), {"thing": impl(tag, CTX[ck], outcome)})
            registered.append((tag, CTX[ck], outcome))
            for active in (HostContext, HostArchiveContext):
                del CALLS[:]
                broker = dr.Broker()
                broker[active] = active()
                try:
                    dr.run(dr.get_dependency_graph(Specs.thing), broker)
                except Exception as ex:
                    fail(violation="evaluation raised", exc=repr(ex), sequence=[(c, o) for c, o in seq[:pos + 1]], active=active.__name__)
                n += 1
                mine = [(t, o) for t, cs, o in registered if active in cs]
                want_calls = [mine[-1][0]] if mine else []
                want_val = ("value-" + mine[-1][0]) if mine and mine[-1][1] == "value" else None
                got_val = broker.get(Specs.thing)
                if sorted(CALLS) != want_calls or got_val != want_val:
                    fail(violation="spec resolution differs from the reference", sequence=[(c, o) for c, o in seq[:pos + 1]], active=active.__name__,
                         executed=list(CALLS), expected_executed=want_calls, value=got_val, expected_value=want_val)
print(json.dumps({"ok": True, "max_implementations": K, "evaluations": n}))
