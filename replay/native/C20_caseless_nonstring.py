# A negated case-insensitive predicate did not match a non-string attribute when compiled (to_pyfunc), but did when interpreted (test).
import sys, os
sys.path.insert(0, os.getcwd())
from insights.parsr.query import Entry, ieq
doc = Entry(name="doc", children=[Entry(name="port", attrs=(80,)), Entry(name="port", attrs=("AB",)), Entry(name="port", attrs=("x",))])
q = ~ieq("ab")
interp = [c.attrs for c in doc.children if q.test(c.attrs[0])]
comp = [c.attrs for c in doc.select(("port", q)).children]
print("interpreted:", interp, "compiled:", comp)
sys.exit(0 if interp == comp else 1)
