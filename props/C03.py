"""C03 - a failing component affects only its dependents and is always accounted for."""
from contracts.dr import M
from contracts.plugins import P

SIDECARS = ["dr", "plugins"]
UNITS = [
    (M, "Broker.__contains__"),
    (M, "Broker.__setitem__"),
    (M, "Broker.add_exception"),
    (M, "Broker.fire_observers"),
    (M, "ComponentType.invoke"),
    (M, "ComponentType.process"),
    (P, "PluginType.invoke"),
    (P, "datasource.invoke"),
    (P, "parser.invoke"),
    (P, "rule.process"),
    (M, "run_components"),
]
REFINEMENTS = [
    ((M, "ComponentType.process"), ("Delegate", "process")),
    ((P, "rule.process"), ("Delegate", "process")),
    ((M, "ComponentType.invoke"), ("Delegate", "invoke")),
    ((P, "PluginType.invoke"), ("Delegate", "invoke")),
    ((P, "datasource.invoke"), ("Delegate", "invoke")),
    ((P, "parser.invoke"), ("Delegate", "invoke")),
]
GROUPS = [dict(name="main", sidecars=SIDECARS, units=UNITS, refinements=REFINEMENTS),
          # get_registry_points itself: what an exception may additionally be recorded against is only a registry point the component
          # implements / is built on (in the main group it is an assumed function `regpoints` of the component)
          dict(name="regpoints", sidecars=["dr", "dr_regpoints"], units=[(M, "get_registry_points")])]
NOT_CARRIED = ["signal / alarm delivery: a timeout is 'the body may raise TimeoutException'",
               "in the evaluation loop get_registry_points is a read-only function `regpoints` of the component; the function itself is under contract in its "
               "own group (every element is a registry point reachable through dependents - for a datasource - or dependencies; a registry point "
               "maps to itself), with `reach` an abstract relation closed under one step and is_registry_point / is_datasource assumed type tests",
               "isolation of non-dependents is carried by the frames (instances of other components untouched); the 'same value as "
               "without the fault' reading needs the determinism lemma of C04"]


def _bounded0(check):
    """bounded stand-in / native witness search: the real dr.run on every small dependency graph against a reference evaluation"""
    import json, os, subprocess
    here = os.path.dirname(os.path.dirname(os.path.abspath(__file__)))
    args = ["3"] + (["full"] if check.tier != "quick" else [])
    p = subprocess.run(["/venv/bin/python", os.path.join(here, "bounded", "dr_small_scope.py"), check.repo.root] + args,
                       stdout=subprocess.PIPE, stderr=subprocess.PIPE, universal_newlines=True, timeout=6000)
    line = (p.stdout.strip().splitlines() or ["{}"])[-1]
    try:
        info = json.loads(line)
    except ValueError:
        info = {"error": (p.stderr or p.stdout)[-400:]}
    out = dict(name="real dr.run == reference evaluation (at most once, after dependencies, seeds kept, fires iff requirements met, arguments in "
                    "declaration order, faults contained and accounted)", level="bounded",
               bound="every graph of <= 3 plain components (per earlier component: none / required / optional / one of two at-least-one groups / "
                     "required and grouped) x outcomes (value%s, skip, crash) x {nothing, failing observer, one disabled, one seeded with a value, one "
                     "seeded with None, partial graph} x store_skips" % (", None" if check.tier != "quick" else ""),
               result=info, violation=(p.returncode == 1), error=(p.returncode not in (0, 1)))
    if p.returncode == 1:
        os.makedirs(os.path.join(here, "replays"), exist_ok=True)
        path = os.path.join(here, "replays", "%s-bounded.json" % check.pid)
        json.dump(dict(obligation="bounded:dr-small-scope", witness=info,
                       replay_cmd="/venv/bin/python %s %s %s" % (os.path.join(here, "bounded", "dr_small_scope.py"), check.repo.root, " ".join(args))),
                  open(path, "w"), indent=1)
        out["replay"] = path
    outs = [out]
    p2 = subprocess.run(["/venv/bin/python", os.path.join(here, "bounded", "fault_attribution.py"), check.repo.root],
                        stdout=subprocess.PIPE, stderr=subprocess.PIPE, universal_newlines=True, timeout=3000)
    line2 = (p2.stdout.strip().splitlines() or ["{}"])[-1]
    try:
        info2 = json.loads(line2)
    except ValueError:
        info2 = {"error": (p2.stderr or p2.stdout)[-400:]}
    out2 = dict(name="a fault is recorded, with a traceback, against its raiser or a spec it implements / is built on and nothing else; skips only with "
                     "skip recording; non-dependents keep their value", level="bounded",
                bound="a spec world of 5 datasources, 3 specs (one multi-output), 3 parsers, 2 combiners x 8 fault positions x 3 fault kinds x skip "
                      "recording on / off + one failing element of a multi-output parser",
                result=info2, violation=(p2.returncode == 1), error=(p2.returncode not in (0, 1)))
    if p2.returncode == 1:
        os.makedirs(os.path.join(here, "replays"), exist_ok=True)
        path2 = os.path.join(here, "replays", "C03-bounded-attribution.json")
        json.dump(dict(obligation="bounded:fault-attribution", witness=info2,
                       replay_cmd="/venv/bin/python %s %s" % (os.path.join(here, "bounded", "fault_attribution.py"), check.repo.root)), open(path2, "w"), indent=1)
        out2["replay"] = path2
    outs.append(out2)
    return outs


def bounded(check):
    from props._xcheck import xcheck
    return list(_bounded0(check)) + [xcheck(check, ["dr"], "faults")]
