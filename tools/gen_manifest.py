#!/usr/bin/env python3-vt
"""Regenerate MANIFEST.json from props/*.py (claimed) and the fixed property list (not claimed -> not_applicable)."""
import importlib, json, os, sys
HERE = os.path.dirname(os.path.dirname(os.path.abspath(__file__)))
sys.path.insert(0, HERE)
props = [json.loads(l) for l in open(os.path.join(HERE, "properties.jsonl"))]
NA = {
    "C15": "inverse-pair claim whose rendering side does not exist in the repository and whose parsing side is string induction "
           "(split on white-space runs, index arithmetic over columns) outside both solvers; see DESIGN.md section 8",
}
PENDING = "contracts for this property are not built yet in this revision (see DESIGN.md for the plan); nothing is claimed"
checks, na = [], []
fixes = [l.split()[2] for l in open(os.path.join(HERE, "KNOWN_FINDINGS.txt")) if l.startswith("fixed:")] if os.path.exists(os.path.join(HERE, "KNOWN_FINDINGS.txt")) else []
for p in props:
    pid = p["id"]
    path = os.path.join(HERE, "props", pid + ".py")
    if pid in NA or not os.path.exists(path):
        na.append({"property_id": pid, "reason": NA.get(pid, PENDING)})
        continue
    m = importlib.import_module("props." + pid)
    units = []
    for g in (m.GROUPS if hasattr(m, "GROUPS") else [dict(units=m.UNITS, lemmas=getattr(m, "LEMMAS", []))]):
        units += [q for _, q in g["units"]] + ["lemma " + l["name"] for l in g.get("lemmas", [])]
    checks.append({
        "property_id": pid,
        "quick_cmd": "./check %s --tier quick" % pid,
        "thorough_cmd": "./check %s --tier thorough" % pid,
        "evidence_file": "evidence/%s.json" % pid,
        "replay_cmd_template": "./check %s --replay {path}" % pid,
        "engine": "pyvc",
        "level_claimed": {"category": "proof",
                          "text": getattr(m, "LEVEL_TEXT", "") or ("Every obligation generated from the current source of the functions under contract (%s) is "
                                  "discharged by z3/cvc5 for all inputs and all loop iterations; the property is tied to them by contract-only lemmas / "
                                  "refinement obligations. Partial: clauses listed under not_carried in the evidence are not decided." % ", ".join(units))
                                 + (" A bounded stand-in on the real code (labelled bounded in the evidence, never counted as proved) additionally "
                                    "searches small scopes for a concrete failing input." if hasattr(m, "bounded") else ""),
                          "design_ref": "DESIGN.md sections 6 and 11 (%s)" % pid},
        "_drop": {},
        "level_note": getattr(m, "LEVEL_NOTE", "") or ("Trusted: the pyvc encoder's Python semantics (DESIGN 2.3-2.5, 5), z3/cvc5, assumed contracts of externals and "
                                "component bodies as listed in the evidence file; termination not proved. Not carried: " + "; ".join(getattr(m, "NOT_CARRIED", []))),
        "technique": getattr(m, "TECHNIQUE", "contract-based deductive verification: VCs generated from the Python AST of the real functions against sidecar "
                             "contracts (pre/post, loop invariants, ghost state, frames), discharged by z3 with cvc5 fallback; finite-scope counter-models"
                             + ("; bounded exhaustive stand-in on the real code (labelled)" if hasattr(m, "bounded") else "")),
    })
for c in checks:
    c.pop("_drop", None)
man = {
    "version": 1,
    "setup_cmd": "./setup.sh",
    "hooks": {"guard": "INSIGHTS_CORE_VERIF", "enable": "no hooks or instrumentation in /repo: checks read /repo's source directly (VERIF_REPO overrides the path)",
              "baseline_off_cmd": "cd /repo && /venv/bin/python -m pytest -ra -q -p no:cacheprovider --timeout=900 --continue-on-collection-errors",
              "source_commits": [], "add_only": True},
    "engines": [{"name": "pyvc", "path": "pyvc/", "serves_properties": [c["property_id"] for c in checks],
                 "kind_free_text": "AST-to-SMT verification-condition generator for a Python subset with sidecar contracts; z3 5.1 API + cvc5 CLI"}],
    "checks": checks,
    "notes": "There are no guarded hooks or instrumentation commits in /repo (hooks.source_commits is empty). Unguarded 'fix:' commits in /repo "
             "(genuine defects found by refuted obligations / the bounded stand-ins, each recorded as 'fixed:' in KNOWN_FINDINGS.txt): " + ", ".join(fixes) + ". "
             "Exit codes of ./check: 0 held, 1 violation (VIOLATION line), 2 undecided, 3 checker error (source outside the accepted subset, vacuity guard, "
             "bounded stand-in crashed).",
    "not_applicable": na,
}
json.dump(man, open(os.path.join(HERE, "MANIFEST.json"), "w"), indent=1)
print("claimed:", [c["property_id"] for c in checks])
