"""C04 - evaluation results do not depend on scheduling (sub-graph partition; order / hash-seed independence)."""
from contracts.dr import M, TS

SIDECARS = ["dr"]
UNITS = [
    (M, "get_subgraphs"),
    (TS, "toposort"),
    (TS, "toposort_flatten"),
    (M, "run_order"),
    (M, "run_components"),
]
NOT_CARRIED = ["thread-pool dispatch of sub-graphs (run_all with a pool): no thread semantics in the encoding"]

# ---- C04-L1 (contracts only): the local outcome rule has a unique solution on a DAG - inductive step -------------
# out_*(c, inst): what process() does for component c given the broker's instances (a function: bodies are assumed
# deterministic; the per-override contracts are functional in body_value / ds_value / p_value).  LOC(c, inst, miss): the entry
# of c is what the local rule prescribes.  Step: two brokers that satisfy LOC at c and agree on everything c reads agree at c.
import collections
from contracts.dr import Comp, Val, MISSING
from pyvc.dsl import Map, Opt, Set, BOOL, EXC

_INST = Map(Comp, Opt(Val))
_MISS = Map(Comp, MISSING)


def _loc(i, m):
    same0 = "((c in {m}) == (c in m0) and implies(c in m0, {m}[c] == m0[c]))"
    return ("(implies(c in seeds, c in {i} and {i}[c] == seeds[c] and " + same0 + ") and "
            " implies(c not in seeds and not uf('runnable', BOOL, c), c not in {i} and " + same0 + ") and "
            " implies(c not in seeds and uf('runnable', BOOL, c) and not uf('out_raises', BOOL, c, {i}), "
            "         c in {i} and {i}[c] == uf('out_value', Opt(Val), c, {i}) and " + same0 + ") and "
            " implies(c not in seeds and uf('runnable', BOOL, c) and uf('out_raises', BOOL, c, {i}), c not in {i} and "
            "         implies(isinstance_exc(uf('out_exc', EXC, c, {i}), MissingRequirements), c in {m} and {m}[c] == uf('out_exc', EXC, c, {i}).requirements) and "
            "         implies(not isinstance_exc(uf('out_exc', EXC, c, {i}), MissingRequirements), " + same0 + ")))").format(i=i, m=m)


LEMMAS = [dict(
    name="C04-L1-step",
    module=M,
    decls=collections.OrderedDict(c=Comp, seeds=_INST, i1=_INST, i2=_INST, m1=_MISS, m2=_MISS, m0=_MISS, reads=Set(Comp)),
    hyps=[
        _loc("i1", "m1"), _loc("i2", "m2"),
        # induction hypothesis: the two brokers agree on everything c reads (its dependencies and ignored contexts:
        # all seeds or of lower level)
        "forall(d, reads, (d in i1) == (d in i2) and implies(d in i1, i1[d] == i2[d]))",
        # locality of the outcome function (instance for i1, i2): it reads the broker only at `reads`
        "implies(forall(d, reads, (d in i1) == (d in i2) and implies(d in i1, i1[d] == i2[d])), "
        "        uf('out_raises', BOOL, c, i1) == uf('out_raises', BOOL, c, i2) and "
        "        uf('out_value', Opt(Val), c, i1) == uf('out_value', Opt(Val), c, i2) and "
        "        uf('out_exc', EXC, c, i1) == uf('out_exc', EXC, c, i2))",
    ],
    goals=["(c in i1) == (c in i2)", "implies(c in i1, i1[c] == i2[c])",
           "(c in m1) == (c in m2)", "implies(c in m1, m1[c] == m2[c])"])]
NOT_CARRIED += ["that run_components establishes the local rule LOC for every processed component is not an obligation yet: "
                "the lemma C04-L1-step is the inductive step over the level function only (induction on levels is the meta-step)",
                "determinism and locality of process() are hypotheses of the lemma (bodies are assumed deterministic)"]


def bounded(check):
    """bounded stand-in / native witness search for the scheduling variants that are not under contract (run_incremental, run_all with a pool)"""
    import json, os, subprocess
    n = 3 if check.tier == "quick" else 4
    here = os.path.dirname(os.path.dirname(os.path.abspath(__file__)))
    p = subprocess.run(["/venv/bin/python", os.path.join(here, "bounded", "dr_scheduling.py"), check.repo.root, str(n)],
                       stdout=subprocess.PIPE, stderr=subprocess.PIPE, universal_newlines=True, timeout=3000)
    line = (p.stdout.strip().splitlines() or ["{}"])[-1]
    try:
        info = json.loads(line)
    except ValueError:
        info = {"error": (p.stderr or p.stdout)[-400:]}
    out = dict(name="single pass == one sub-graph at a time == 3-thread pool; sub-graphs partition the components; same digest under 4 hash seeds",
               level="bounded", bound="every graph of <= %d plain components (none / required / optional per earlier component) x outcomes (value, crash); plus: an edge added between two components of an already evaluated set, every driver against a forced dependency-respecting order" % n,
               result=info, violation=(p.returncode == 1), error=(p.returncode not in (0, 1)))
    if p.returncode == 1:
        os.makedirs(os.path.join(here, "replays"), exist_ok=True)
        path = os.path.join(here, "replays", "C04-bounded.json")
        json.dump(dict(obligation="bounded:scheduling-independence", witness=info,
                       replay_cmd="/venv/bin/python %s %s %d" % (os.path.join(here, "bounded", "dr_scheduling.py"), check.repo.root, n)),
                  open(path, "w"), indent=1)
        out["replay"] = path
    return [out]
