"""C04 - evaluation results do not depend on scheduling (sub-graph partition; order / hash-seed independence)."""
from contracts.dr import M, TS

SIDECARS = ["dr", "dr_det"]      # dr_det: the process() interface as a function of (component, instances) + the snapshot invariant of run_components
UNITS = [
    (M, "get_subgraphs"),
    (TS, "toposort"),
    (TS, "toposort_flatten"),
    (M, "run_order"),
    (M, "run_components"),
]
NOT_CARRIED = ["thread-pool dispatch of sub-graphs (run_all with a pool): no thread semantics in the encoding"]

# ---- C04-L1 (contracts only): the local outcome rule has a unique solution on a DAG - inductive step -------------
# out_*(c, inst): what process() does for component c given the broker's instances (a function: bodies are assumed
# deterministic; the per-override contracts are functional in body_value / ds_value / p_value).  LOC(c, inst, miss): the entry
# of c is what the local rule prescribes.  Step: two brokers that satisfy LOC at c and agree on everything c reads agree at c.
import collections
from contracts.dr import Comp, Val, MISSING
from pyvc.dsl import Map, Opt, Set, BOOL, EXC

_INST = Map(Comp, Opt(Val))
_MISS = Map(Comp, MISSING)


def _loc(i, m):
    same0 = "((c in {m}) == (c in m0) and implies(c in m0, {m}[c] == m0[c]))"
    return ("(implies(c in seeds, c in {i} and {i}[c] == seeds[c] and " + same0 + ") and "
            " implies(c not in seeds and not uf('runnable', BOOL, c), c not in {i} and " + same0 + ") and "
            " implies(c not in seeds and uf('runnable', BOOL, c) and not uf('out_raises', BOOL, c, {i}), "
            "         c in {i} and {i}[c] == uf('out_value', Opt(Val), c, {i}) and " + same0 + ") and "
            " implies(c not in seeds and uf('runnable', BOOL, c) and uf('out_raises', BOOL, c, {i}), c not in {i} and "
            "         implies(isinstance_exc(uf('out_exc', EXC, c, {i}), MissingRequirements), c in {m} and {m}[c] == uf('out_exc', EXC, c, {i}).requirements) and "
            "         implies(not isinstance_exc(uf('out_exc', EXC, c, {i}), MissingRequirements), " + same0 + ")))").format(i=i, m=m)


LEMMAS = [dict(
    name="C04-L1-step",
    module=M,
    decls=collections.OrderedDict(c=Comp, seeds=_INST, i1=_INST, i2=_INST, m1=_MISS, m2=_MISS, m0=_MISS, reads=Set(Comp)),
    hyps=[
        _loc("i1", "m1"), _loc("i2", "m2"),
        # induction hypothesis: the two brokers agree on everything c reads (its dependencies and ignored contexts:
        # all seeds or of lower level)
        "forall(d, reads, (d in i1) == (d in i2) and implies(d in i1, i1[d] == i2[d]))",
        # locality of the outcome function (instance for i1, i2): it reads the broker only at `reads`
        "implies(forall(d, reads, (d in i1) == (d in i2) and implies(d in i1, i1[d] == i2[d])), "
        "        uf('out_raises', BOOL, c, i1) == uf('out_raises', BOOL, c, i2) and "
        "        uf('out_value', Opt(Val), c, i1) == uf('out_value', Opt(Val), c, i2) and "
        "        uf('out_exc', EXC, c, i1) == uf('out_exc', EXC, c, i2))",
    ],
    goals=["(c in i1) == (c in i2)", "implies(c in i1, i1[c] == i2[c])",
           "(c in m1) == (c in m2)", "implies(c in m1, m1[c] == m2[c])"])]
# ---- C04-L0 (contracts only): what run_components' postcondition (verified on the real loop against the deterministic process() interface of
# contracts/dr_det.py) says about the FINAL broker is the local rule LOC of C04-L1-step, for every component of the executed order, provided the
# order is topological for what each component reads and the outcome function is local in those reads.
from contracts.dr import RC_POST
from contracts.dr_det import DET_INV
from pyvc.dsl import List, INT


def _rn(t):
    return (t.replace("ordered_components", "ordered").replace("old(broker.instances)", "seeds").replace("broker.instances", "final")
             .replace("old(broker.missing_requirements)", "m0").replace("broker.missing_requirements", "miss"))


LEMMAS.append(dict(
    name="C04-L0-run_components-establishes-LOC",
    module=M,
    decls=collections.OrderedDict(c=Comp, p=INT, ordered=List(Comp), att=List(Comp), attpos=List(INT), attidx=Map(Comp, INT), snap=List(_INST),
                                  seeds=_INST, final=_INST, miss=_MISS, m0=_MISS, reads=Set(Comp)),
    hyps=[_rn(t) for t in RC_POST] + [_rn(t) for t in DET_INV] + [
        "forall(x, attidx, 0 <= attidx[x] and attidx[x] < len(att) and att[attidx[x]] == x)",
        "distinct(ordered)",
        # the guard of run_components: exactly the runnable, unseeded components of the order are attempted
        "forall(k, range(0, len(ordered)), implies(ordered[k] not in seeds and uf('runnable', BOOL, ordered[k]), ordered[k] in attidx))",
        "forall(j, range(0, len(att)), att[j] not in seeds and uf('runnable', BOOL, att[j]))",
        # c takes part, at position p; everything it reads that takes part sits at an earlier position (topological order), and it does not read itself
        "0 <= p and p < len(ordered) and ordered[p] == c",
        "c not in reads",
        "forall(q, range(0, len(ordered)), implies(ordered[q] in reads, q < p))",
        # locality of the outcome function: it reads the broker only at `reads` (instantiated for what c saw and the final broker)
        "implies(c in attidx, implies(forall(d, reads, (d in snap[attidx[c]]) == (d in final) and implies(d in final, snap[attidx[c]][d] == final[d])), "
        "        uf('out_raises', BOOL, c, snap[attidx[c]]) == uf('out_raises', BOOL, c, final) and "
        "        uf('out_value', Opt(Val), c, snap[attidx[c]]) == uf('out_value', Opt(Val), c, final) and "
        "        uf('out_exc', EXC, c, snap[attidx[c]]) == uf('out_exc', EXC, c, final)))",
    ],
    goals=[_loc("final", "miss")]))
NOT_CARRIED += ["run_components is verified (group `deterministic`) against a process() interface that is a function of the component and the broker's "
                "instances, and the lemma C04-L0 derives the local rule LOC of the final broker from its postcondition; that ComponentType.process / "
                "rule.process / datasource and parser invocation refine that functional interface clause is NOT an obligation (they are functional in "
                "the assumed body functions of the argument list): determinism and locality of process() remain assumptions",
                "C04-L1-step is the inductive step over the level function (induction on levels is the meta-step)"]


def bounded(check):
    """bounded stand-in / native witness search for the scheduling variants that are not under contract (run_incremental, run_all with a pool)"""
    import json, os, subprocess
    n = 3 if check.tier == "quick" else 4
    here = os.path.dirname(os.path.dirname(os.path.abspath(__file__)))
    p = subprocess.run(["/venv/bin/python", os.path.join(here, "bounded", "dr_scheduling.py"), check.repo.root, str(n)],
                       stdout=subprocess.PIPE, stderr=subprocess.PIPE, universal_newlines=True, timeout=3000)
    line = (p.stdout.strip().splitlines() or ["{}"])[-1]
    try:
        info = json.loads(line)
    except ValueError:
        info = {"error": (p.stderr or p.stdout)[-400:]}
    out = dict(name="single pass == one sub-graph at a time == 3-thread pool; sub-graphs partition the components; same digest under 4 hash seeds",
               level="bounded", bound="every graph of <= %d plain components (none / required / optional per earlier component) x outcomes (value, crash); plus: an edge added between two components of an already evaluated set, every driver against a forced dependency-respecting order" % n,
               result=info, violation=(p.returncode == 1), error=(p.returncode not in (0, 1)))
    if p.returncode == 1:
        os.makedirs(os.path.join(here, "replays"), exist_ok=True)
        path = os.path.join(here, "replays", "C04-bounded.json")
        json.dump(dict(obligation="bounded:scheduling-independence", witness=info,
                       replay_cmd="/venv/bin/python %s %s %d" % (os.path.join(here, "bounded", "dr_scheduling.py"), check.repo.root, n)),
                  open(path, "w"), indent=1)
        out["replay"] = path
    return [out]
