"""C02 - a component fires exactly when its requirements are met; arguments bind in declaration order."""
from contracts.dr import M
from contracts.plugins import P

SIDECARS = ["dr", "plugins"]
UNITS = [
    (M, "Broker.__contains__"),
    (M, "Broker.__getitem__"),
    (M, "Broker.get"),
    (M, "is_enabled"),
    (M, "ComponentType.get_missing_dependencies"),
    (M, "ComponentType.invoke"),
    (M, "ComponentType.process"),
    (P, "rule.process"),
    (M, "run_components"),
]
REFINEMENTS = [
    ((M, "ComponentType.process"), ("Delegate", "process")),
    ((P, "rule.process"), ("Delegate", "process")),
]
NOT_CARRIED = ["ComponentType.__init__ (dependency classification from *deps/**kwargs) - see DESIGN.md",
               "apply_configs / apply_default_enabled name-prefix matching",
               "datasource and parser calling conventions are their own contracts (C03), not the default positional binding"]
