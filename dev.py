#!/usr/bin/env python3-vt
"""Developer runner: python3-vt dev.py <sidecar> [unit-substring] [--scope k]"""
import sys, time
import os; sys.path.insert(0, os.path.dirname(os.path.abspath(__file__)))
from pyvc import run as R
from pyvc.source import Repo
import argparse
ap = argparse.ArgumentParser()
ap.add_argument("sidecars")
ap.add_argument("filter", nargs="?")
ap.add_argument("--scope", type=int)
ap.add_argument("--str", default="opaque")
ap.add_argument("--t", type=float, default=10)
ap.add_argument("-v", action="store_true")
a = ap.parse_args()
reg = R.load_registry(a.sidecars.split(","))
units = [k for k, c in reg.contracts.items() if not c.external and (not a.filter or a.filter in k[1])]
t0 = time.time()
eng, results = R.generate(reg, units, [], Repo(), scope=a.scope, strmode=a.str)
print("generated in %.2fs" % (time.time() - t0))
for ur in results:
    if ur.error:
        print("ERROR", ur.name, ur.error)
extra = eng_sc = None
from pyvc.core import CTX
out = R.discharge_units(results, z3_timeout=a.t, cvc5_timeout=a.t, extra_hyps=CTX.scope_constraints if a.scope else None)
bad = 0
for ur, o, r in out:
    if r["verdict"] != "proved" or a.v:
        print("%-9s %s  [%s %ss] %s" % (r["verdict"], o.name, r.get("backend"), r.get("z3_s"), r.get("reason", "")))
        if r["verdict"] != "proved":
            bad += 1
            print("      clause:", o.clause[:200])
            print("      trace :", " ".join(o.trace[-12:]))
print("%d obligations, %d not proved, %.1fs" % (len(out), bad, time.time() - t0))
for ur, name, ok, v in R.check_covers(results):
    if not ok:
        print("VACUOUS", name, v)
