"""C04 - evaluation results do not depend on scheduling (sub-graph partition; order / hash-seed independence)."""
from contracts.dr import M, TS

SIDECARS = ["dr"]
UNITS = [
    (M, "get_subgraphs"),
    (TS, "toposort"),
    (TS, "toposort_flatten"),
    (M, "run_order"),
    (M, "run_components"),
]
NOT_CARRIED = ["thread-pool dispatch of sub-graphs (run_all with a pool): no thread semantics in the encoding"]
