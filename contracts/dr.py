"""Sidecar contracts for insights/core/dr.py and insights/contrib/toposort.py (no repository code here)."""
from pyvc.dsl import *

M = "insights/core/dr.py"
TS = "insights/contrib/toposort.py"

Comp = U("Comp")
Val = U("Val")
Obs = U("Obs")
TypeT = U("Type")
MISSING = Tup(List(Comp), List(List(Comp)))


PROCESS_FRAME = [
    # process() may record exceptions (through add_exception) only against its own component or that
    # component's registry points, only by appending, and gives each a traceback
    "forall(c, Comp, implies(c in old(broker.exceptions), c in broker.exceptions))",
    "forall(c, Comp, implies(c != self.component and c not in regpoints(self.component), "
    "       (c in broker.exceptions) == (c in old(broker.exceptions)) and "
    "       implies(c in broker.exceptions, seq_eq(broker.exceptions[c], old(broker.exceptions)[c]))))",
    "forall(b, Ref_Broker, implies(b != broker, b.exceptions == old(b.exceptions) and b.tracebacks == old(b.tracebacks)))",
]

# --- loop invariants of run_components (ordinal 0: the main loop) ------------------------------
RC_INV = [
    # C01: attempt log is a strictly increasing sub-sequence of the processed prefix
    "len(att) == len(attpos)",
    "forall(j, range(0, len(att)), 0 <= attpos[j] and attpos[j] < i_0 and att[j] == it_0[attpos[j]])",
    "forall(a, range(0, len(att)), forall(b, range(0, len(att)), implies(a < b, attpos[a] < attpos[b])))",
    # C01: seeds are neither attempted nor overwritten; everything new in the broker was attempted
    "forall(c, old(broker.instances), c in broker.instances and broker.instances[c] == old(broker.instances)[c])",
    "forall(j, range(0, len(att)), att[j] not in old(broker.instances))",
    "forall(c, attidx, 0 <= attidx[c] and attidx[c] < len(att) and att[attidx[c]] == c)",
    "forall(c, broker.instances, c in old(broker.instances) or c in attidx)",
    # other brokers are not touched
    "forall(b, Ref_Broker, implies(b != broker, b.instances == old(b.instances)))",
]
RC_INV_INNER = ["True"]
RC_POST = [
    "forall(c, old(broker.instances), c in broker.instances and broker.instances[c] == old(broker.instances)[c])",
]


def declare(reg):
    reg.sort(Comp=Comp, Val=Val, Obs=Obs)
    reg.exc_files.append("insights/core/exceptions.py")
    reg.exc_files.append("insights/core/dr.py")
    reg.exc_extra.update({"CalledProcessError": "Exception"})
    reg.exc_attrs["MissingRequirements"] = dict(requirements=MISSING)

    reg.cls("Delegate", pyclasses=["ComponentType"],
            component=Comp, requires=List(Comp), at_least_one=List(List(Comp)), deps=List(Comp),
            optional=List(Comp), dependencies=Set(Comp))
    reg.cls("Broker",
            instances=Map(Comp, Opt(Val)), missing_requirements=Map(Comp, MISSING),
            exceptions=Map(Comp, List(EXC)), tracebacks=Map(EXC, Opt(STR)), exec_times=Map(Comp, REAL),
            store_skips=BOOL, observers=Map(TypeT, Set(Obs)),
            __iterset__="self.instances")
    reg.defaultdicts = getattr(reg, "defaultdicts", {})
    reg.defaultdicts.update({"Broker.exceptions": "[]", "Broker.observers": "set()", "IGNORE": "set()", "ENABLED": "True",
                             "DEPENDENTS": "set()"})
    reg.glob(M, DELEGATES=Map(Comp, Ref("Delegate")), ENABLED=Map(Comp, BOOL), IGNORE=Map(Comp, Set(Comp)),
             BLACKLISTED_SPECS=List(STR), DEPENDENTS=Map(Comp, Set(Comp)))

    for n in ("log.info", "log.debug", "log.exception", "log.warning", "log.error"):
        reg.external(n, drop=True)
    reg.external("log.isEnabledFor", params=dict(level=None), returns=BOOL)
    reg.external("time.time", returns=REAL)
    reg.external("traceback.format_exc", returns=STR)
    reg.external("get_name", params=dict(component=Comp), returns=STR, pure=True)
    reg.external("stringify_requirements", params=dict(requires=MISSING), returns=STR, pure=True)

    # --- component bodies: an assumed contract (deterministic function of the arguments; C04 needs determinism)
    reg.specfun("body_raises", dict(c=Comp, args=List(Opt(Val))), BOOL, None)
    reg.specfun("body_value", dict(c=Comp, args=List(Opt(Val))), Opt(Val), None)
    reg.specfun("body_exc", dict(c=Comp, args=List(Opt(Val))), EXC, None)
    reg.callables = getattr(reg, "callables", {})
    reg.callables[("Delegate", "component")] = reg.external(
        "<component body>", params=dict(c=Comp, args=List(Opt(Val))), returns=Opt(Val),
        raises={"Exception": "body_raises(c, args)"},
        ensures=["result == body_value(c, args)"],
        ensures_raise={"Exception": ["exc == body_exc(c, args)"]},
        raise_frame="unchanged",
        note="component bodies are arbitrary: they return a value or raise some Exception subclass, deterministically "
             "in their arguments, and do not write Broker fields")

    # ------------------------------------------------------------------ Broker
    reg.contract(M, "Broker.__contains__", params=dict(self=Ref("Broker"), component=Comp), returns=BOOL, pure=True,
                 ensures=["result == (component in self.instances)"])
    reg.contract(M, "Broker.__setitem__", params=dict(self=Ref("Broker"), component=Comp, instance=Opt(Val)),
                 modifies=["Broker.instances"],
                 raises={"KeyError": "component in self.instances"}, raise_frame="unchanged",
                 ensures=["self.instances == store(old(self.instances), component, instance)",
                          "forall(b, Ref_Broker, implies(b != self, b.instances == old(b.instances)))"])
    reg.contract(M, "Broker.__getitem__", params=dict(self=Ref("Broker"), component=Comp), returns=Opt(Val),
                 raises={"KeyError": "component not in self.instances"}, raise_frame="unchanged",
                 ensures=["result == self.instances[component]"])
    reg.contract(M, "Broker.get", params=dict(self=Ref("Broker"), component=Comp, default=Opt(Val)),
                 defaults=dict(default="None"), returns=Opt(Val),
                 ensures=["result == (self.instances[component] if component in self.instances else default)"])
    reg.contract(M, "Broker.add_exception",
                 params=dict(self=Ref("Broker"), component=Comp, ex=EXC, tb=Opt(STR)), defaults=dict(tb="None"),
                 modifies=["Broker.missing_requirements", "Broker.exceptions", "Broker.tracebacks"],
                 ensures=[
                     # MissingRequirements goes to missing_requirements only
                     "implies(isinstance_exc(ex, MissingRequirements), self.missing_requirements == store(old(self.missing_requirements), component, ex.requirements))",
                     "implies(isinstance_exc(ex, MissingRequirements), self.exceptions == old(self.exceptions) and self.tracebacks == old(self.tracebacks))",
                     # anything else is appended to exceptions[component], traceback recorded, nothing else touched
                     "implies(not isinstance_exc(ex, MissingRequirements), self.missing_requirements == old(self.missing_requirements))",
                     "implies(not isinstance_exc(ex, MissingRequirements), component in self.exceptions and seq_eq(self.exceptions[component], excs_of(old(self.exceptions), component) + [ex]))",
                     "implies(not isinstance_exc(ex, MissingRequirements), forall(c, Comp, implies(c != component, (c in self.exceptions) == (c in old(self.exceptions)) and implies(c in old(self.exceptions), seq_eq(self.exceptions[c], old(self.exceptions)[c])))))",
                     "implies(not isinstance_exc(ex, MissingRequirements), self.tracebacks == store(old(self.tracebacks), ex, tb))",
                     "forall(b, Ref_Broker, implies(b != self, b.exceptions == old(b.exceptions) and b.missing_requirements == old(b.missing_requirements) and b.tracebacks == old(b.tracebacks)))",
                 ])
    reg.sort(Ref_Broker=Ref("Broker"), Ref_Delegate=Ref("Delegate"))
    reg.specfun("excs_of", dict(m=Map(Comp, List(EXC)), c=Comp), List(EXC), "m[c] if c in m else empty_excs()")
    reg.specfun("empty_excs", dict(), List(EXC), None)
    reg.axiom("len(empty_excs()) == 0")

    # ------------------------------------------------------------------ ComponentType
    reg.contract(M, "ComponentType.get_missing_dependencies", params=dict(self=Ref("Delegate"), broker=Ref("Broker")),
                 returns=Opt(MISSING),
                 ensures=[
                     "(result is None) == (all(r in broker.instances for r in self.requires) and "
                     " all(any(m in broker.instances for m in g) for g in self.at_least_one))",
                     "implies(result is not None, seq_eq(some(result)[0], [r for r in self.requires if r not in broker.instances]))",
                     "implies(result is not None, seq_eq(some(result)[1], [g for g in self.at_least_one "
                     "                                      if not any(m in broker.instances for m in g)]))",
                 ])

    # ------------------------------------------------------------------ registry helpers (assumed, read-only)
    reg.specfun("regpoints", dict(c=Comp), Set(Comp), None)
    reg.external("get_registry_points", params=dict(component=Comp, datasource=Opt(BOOL)), defaults=dict(datasource="None"),
                 returns=Set(Comp), pure=True, ensures=["result == regpoints(component)"],
                 note="used only as 'the registry points of a component' (an arbitrary fixed set per component)")
    reg.contract(M, "is_enabled", params=dict(component=Comp), returns=BOOL, pure=True,
                 ensures=["result == (ENABLED[component] if component in ENABLED else True)"])

    # interface contract of process(): what run_components may rely on (each override is verified against it)
    reg.interface("Delegate", "process", params=dict(self=Ref("Delegate"), broker=Ref("Broker")), returns=Opt(Val),
                  modifies=["Broker.exceptions", "Broker.tracebacks"],
                  raises={"Exception": None},
                  ensures=PROCESS_FRAME, ensures_raise={"Exception": PROCESS_FRAME})
    reg.interface("Broker", "fire_observers", params=dict(self=Ref("Broker"), component=Comp),
                  note="observers are assumed not to write Broker fields; that no observer exception escapes is verified in Broker.fire_observers")

    reg.contract(M, "run_components",
                 params=dict(ordered_components=List(Comp), components=Map(Comp, Set(Comp)), broker=Ref("Broker")),
                 returns=Ref("Broker"),
                 requires=["distinct(ordered_components)",
                           "forall(c, DELEGATES, DELEGATES[c].component == c)"],
                 modifies=["Broker.instances", "Broker.exceptions", "Broker.tracebacks", "Broker.missing_requirements",
                           "Broker.exec_times", "BLACKLISTED_SPECS"],
                 ghosts=dict(att=(List(Comp), "[]"), attpos=(List(INT), "[]"), attidx=(Map(Comp, INT), "{}")),
                 locals=dict(att=List(Comp), attpos=List(INT), attidx=Map(Comp, INT)),
                 ghost_on=[("result = DELEGATES[component].process(broker)", "attidx[component] = len(att); att.append(component); attpos.append(i_0)", "before")],
                 loops={0: RC_INV, 1: ["True"], 2: RC_INV_INNER},
                 raises={},
                 ensures=["result == broker"] + RC_POST)
