"""C02 - a component fires exactly when its requirements are met; arguments bind in declaration order."""
from contracts.dr import M
from contracts.plugins import P

SIDECARS = ["dr", "plugins"]
UNITS = [
    (M, "Broker.__contains__"),
    (M, "Broker.__getitem__"),
    (M, "Broker.get"),
    (M, "is_enabled"),
    (M, "ComponentType.get_missing_dependencies"),
    (M, "ComponentType.invoke"),
    (M, "ComponentType.process"),
    (P, "rule.process"),
    (M, "run_components"),
    (M, "ComponentType.__init__@reset"),
    (M, "ComponentType.__init__@classify"),
    (M, "ComponentType.__init__@dependencies"),
]
REFINEMENTS = [
    ((M, "ComponentType.process"), ("Delegate", "process")),
    ((P, "rule.process"), ("Delegate", "process")),
]
NOT_CARRIED = ["ComponentType.__init__: three windows of the body are under contract (the three dependency lists start empty; classification of the declared dependencies into required / "
               "at-least-one / the ordered argument list; optional dependencies last; dependency set == members of the list). Not executed: the "
               "*deps / **kwargs unpacking before them (`deps` is arbitrary), optional from kwargs, metadata, "
               "group, tags",
               "apply_configs / apply_default_enabled name-prefix matching",
               "datasource and parser calling conventions are their own contracts (C03), not the default positional binding"]


def _bounded0(check):
    """bounded stand-in / native witness search: the real dr.run on every small dependency graph against a reference evaluation"""
    import json, os, subprocess
    here = os.path.dirname(os.path.dirname(os.path.abspath(__file__)))
    args = ["3"] + (["full"] if check.tier != "quick" else [])
    p = subprocess.run(["/venv/bin/python", os.path.join(here, "bounded", "dr_small_scope.py"), check.repo.root] + args,
                       stdout=subprocess.PIPE, stderr=subprocess.PIPE, universal_newlines=True, timeout=6000)
    line = (p.stdout.strip().splitlines() or ["{}"])[-1]
    try:
        info = json.loads(line)
    except ValueError:
        info = {"error": (p.stderr or p.stdout)[-400:]}
    out = dict(name="real dr.run == reference evaluation (at most once, after dependencies, seeds kept, fires iff requirements met, arguments in "
                    "declaration order, faults contained and accounted)", level="bounded",
               bound="every graph of <= 3 plain components (per earlier component: none / required / optional / one of two at-least-one groups / "
                     "required and grouped) x outcomes (value%s, skip, crash) x {nothing, failing observer, one disabled, one seeded with a value, one "
                     "seeded with None, partial graph} x store_skips" % (", None" if check.tier != "quick" else ""),
               result=info, violation=(p.returncode == 1), error=(p.returncode not in (0, 1)))
    if p.returncode == 1:
        os.makedirs(os.path.join(here, "replays"), exist_ok=True)
        path = os.path.join(here, "replays", "%s-bounded.json" % check.pid)
        json.dump(dict(obligation="bounded:dr-small-scope", witness=info,
                       replay_cmd="/venv/bin/python %s %s %s" % (os.path.join(here, "bounded", "dr_small_scope.py"), check.repo.root, " ".join(args))),
                  open(path, "w"), indent=1)
        out["replay"] = path
    return [out]


def bounded(check):
    from props._xcheck import xcheck
    return list(_bounded0(check)) + [xcheck(check, ['dr'], 'dr')]
