"""pyvc core: type language, z3 sorts, quantifier helpers (full / finite-scope), typed values.

Everything that creates a quantifier goes through `forall_*` / `exists_*` here so that the same
verification condition can be rebuilt at finite scope (sorts become enumerations, integer ranges
are expanded) to obtain counter-models.  See DESIGN.md section 2.
"""
import itertools
import z3

# ----------------------------------------------------------------------------------------------
# type language
# ----------------------------------------------------------------------------------------------


class Ty(object):
    key = None

    def __eq__(self, o):
        return isinstance(o, Ty) and self.key == o.key

    def __ne__(self, o):
        return not self.__eq__(o)

    def __hash__(self):
        return hash(self.key)

    def __repr__(self):
        return self.key


class _Prim(Ty):
    def __init__(self, name):
        self.key = name


INT = _Prim("Int")
BOOL = _Prim("Bool")
STR = _Prim("Str")
NONE = _Prim("None")
PY = _Prim("Py")        # dynamically typed value
EXC = _Prim("Exc")      # exception value
REAL = _Prim("Real")


class U(Ty):
    """Uninterpreted sort (opaque hashable things: components, values, ...)."""

    def __init__(self, name):
        self.name = name
        self.key = "U:" + name


class List(Ty):
    def __init__(self, elem):
        self.elem = elem
        self.key = "List(%s)" % elem.key


class Set(Ty):
    def __init__(self, elem):
        self.elem = elem
        self.key = "Set(%s)" % elem.key


class Map(Ty):
    def __init__(self, k, v):
        self.k = k
        self.v = v
        self.key = "Map(%s,%s)" % (k.key, v.key)


class Opt(Ty):
    def __init__(self, elem):
        assert not isinstance(elem, Opt)
        self.elem = elem
        self.key = "Opt(%s)" % elem.key


class Tup(Ty):
    def __init__(self, *elems):
        self.elems = tuple(elems)
        self.key = "Tup(%s)" % ",".join(e.key for e in elems)


class Ref(Ty):
    def __init__(self, cls):
        self.cls = cls
        self.key = "Ref:" + cls


class Fn(Ty):
    """First-order function value with an `apply` relation given by a named spec function."""

    def __init__(self, name="Fn"):
        self.name = name
        self.key = "Fn:" + name


# ----------------------------------------------------------------------------------------------
# context: mode (full / finite scope), sorts, fresh names, axioms
# ----------------------------------------------------------------------------------------------


class Ctx(object):
    def __init__(self):
        self.reset()

    def reset(self, scope=None, strmode="opaque"):
        """scope None = unbounded; scope k = finite scope of size k."""
        self.scope = scope
        self.strmode = strmode          # 'opaque' | 'z3'
        self._sorts = {}
        self._enum_consts = {}
        self._n = itertools.count()
        self.axioms = []                # global axioms (list of z3 Bool)
        self.scope_constraints = []     # finite-scope side constraints (bounds on lengths)
        self._strlits = {}
        self._funcs = {}
        self._pyval = None
        self.exc_classes = {}           # name -> id
        self.exc_parent = {}            # name -> parent name
        self.tag = "" if scope is None else "_fs%d" % scope
        self.str_enum = None
        self.run_tag = ""           # suffix of the symbols that stand for an arbitrary iteration order (self-composition)
        self.always_truthy = set(getattr(self, "always_truthy", ()))

    # -- names
    def fresh(self, base):
        return "%s!%d" % (base, next(self._n))

    def counter_mark(self):
        v = next(self._n)
        self._n = itertools.count(v + 1)
        return v + 1

    def counter_reset(self, v):
        self._n = itertools.count(v)

    # -- sorts
    def sort(self, ty):
        k = ty.key
        if k in self._sorts:
            return self._sorts[k]
        s = self._mk_sort(ty)
        self._sorts[k] = s
        return s

    def _finite_sort(self, name, n=None):
        """A finite sort of at least n values: a bit-vector sort (every bit pattern is a value, so no exhaustiveness axiom is
        needed - an EnumSort is a datatype, which the fast quantifier-free logics silently treat as uninterpreted)."""
        n = n or self.scope
        bits = max(1, (n - 1).bit_length())
        s = z3.BitVecSort(bits)
        self._enum_consts["bv%d" % bits] = [z3.BitVecVal(i, bits) for i in range(2 ** bits)]
        return s

    def _mk_sort(self, ty):
        if ty is INT:
            return z3.IntSort()
        if ty is BOOL:
            return z3.BoolSort()
        if ty is REAL:
            return z3.RealSort()
        if ty is NONE:
            return z3.BoolSort()        # unit; the term is never looked at
        if ty is STR:
            if self.strmode == "z3":
                return z3.StringSort()
            if self.scope is not None:
                return self._finite_sort("Str", 64)
            return z3.DeclareSort("Str")
        if ty is EXC:
            if self.scope is not None:
                return self._finite_sort("Exc")
            return z3.DeclareSort("Exc")
        if ty is PY:
            return self._pyval_sort()
        if isinstance(ty, (U, Ref, Fn)):
            nm = ty.name if isinstance(ty, (U, Fn)) else "Ref_" + ty.cls
            if self.scope is not None:
                return self._finite_sort(nm)
            return z3.DeclareSort(nm)
        if isinstance(ty, Set):
            return z3.ArraySort(self.sort(ty.elem), z3.BoolSort())
        if isinstance(ty, List):
            u = "L_" + _mangle(ty.elem.key) + self.tag
            d = z3.Datatype(u)
            d.declare("mk_" + u, ("len_" + u, z3.IntSort()), ("arr_" + u, z3.ArraySort(z3.IntSort(), self.sort(ty.elem))))
            return _alias(d.create(), u, mk="mk_", len="len_", arr="arr_")
        if isinstance(ty, Map):
            u = "M_" + _mangle(ty.k.key) + "_" + _mangle(ty.v.key) + self.tag
            d = z3.Datatype(u)
            d.declare("mk_" + u, ("dom_" + u, z3.ArraySort(self.sort(ty.k), z3.BoolSort())),
                      ("val_" + u, z3.ArraySort(self.sort(ty.k), self.sort(ty.v))))
            return _alias(d.create(), u, mk="mk_", dom="dom_", val="val_")
        if isinstance(ty, Opt):
            u = "O_" + _mangle(ty.elem.key) + self.tag
            d = z3.Datatype(u)
            d.declare("none_" + u)
            d.declare("some_" + u, ("v_" + u, self.sort(ty.elem)))
            return _alias(d.create(), u, none="none_", some="some_", v="v_", is_none="is_none_", is_some="is_some_")
        if isinstance(ty, Tup):
            u = "T_" + _mangle(ty.key) + self.tag
            d = z3.Datatype(u)
            d.declare("mk_" + u, *[("f%d_%s" % (i, u), self.sort(e)) for i, e in enumerate(ty.elems)])
            return _alias(d.create(), u, mk="mk_")
        raise TypeError("no sort for %r" % (ty,))

    def _pyval_sort(self):
        if self._pyval is None:
            t = self.tag
            d = z3.Datatype("PyVal" + t)
            d.declare("PNone" + t)
            d.declare("PBool" + t, ("pb" + t, z3.BoolSort()))
            d.declare("PInt" + t, ("pi" + t, z3.IntSort()))
            d.declare("PStr" + t, ("ps" + t, self.sort(STR)))
            d.declare("PObj" + t, ("po" + t, z3.IntSort()))
            P = d.create()
            for short in ("PNone", "PBool", "PInt", "PStr", "PObj"):
                setattr(P, short, getattr(P, short + t))
                setattr(P, "is_" + short, getattr(P, "is_" + short + t))
            for short, full in (("b", "pb"), ("i", "pi"), ("s", "ps"), ("o", "po")):
                setattr(P, short, getattr(P, full + t))
            self._pyval = P
        return self._pyval

    def enum_values(self, sort):
        """Constants of a finite sort (finite scope only)."""
        if z3.is_bv_sort(sort):
            return self._enum_consts.get("bv%d" % sort.size())
        return None

    # -- uninterpreted functions
    def func(self, name, *sorts):
        k = name
        if k not in self._funcs:
            self._funcs[k] = z3.Function(name + self.tag, *sorts)
        return self._funcs[k]

    # -- string literals
    def strlit(self, s):
        if self.strmode == "z3":
            return z3.StringVal(s)
        if s not in self._strlits:
            srt = self.sort(STR)
            if self.scope is not None:
                consts = self.enum_values(srt)
                idx = len(self._strlits)
                if idx >= len(consts) - 4:
                    raise OutsideSubset("too many string literals for finite scope")
                self._strlits[s] = consts[idx]
            else:
                c = z3.Const("str_" + _mangle(s)[:24] + "_%d" % len(self._strlits), srt)
                for o in self._strlits.values():
                    self.axioms.append(c != o)
                self._strlits[s] = c
                if s == "":
                    pass
        return self._strlits[s]

    # -- exceptions
    def exc_id(self, name):
        if name not in self.exc_classes:
            raise OutsideSubset("unknown exception class %s" % name)
        return self.exc_classes[name]

    def exc_descendants(self, name):
        out = [name]
        changed = True
        while changed:
            changed = False
            for c, p in self.exc_parent.items():
                if p in out and c not in out:
                    out.append(c)
                    changed = True
        return out


class OutsideSubset(Exception):
    pass


def _alias(sort, u, **names):
    """constructor / accessor / tester names are unique per datatype (cvc5 rejects overloading); short aliases for the encoder"""
    for short, prefix in names.items():
        setattr(sort, short, getattr(sort, prefix + u))
    return sort


def _mangle(s):
    return "".join(ch if ch.isalnum() else "_" for ch in s)


CTX = Ctx()

# ----------------------------------------------------------------------------------------------
# quantifiers
# ----------------------------------------------------------------------------------------------


def _int_domain():
    k = CTX.scope
    return [z3.IntVal(i) for i in range(0, k + 1)]


def forall_int(lo, hi, body, name="j", pats=None):
    """forall j. lo <= j < hi -> body(j)   (pats: j -> list of trigger terms)"""
    lo = _z(lo)
    hi = _z(hi)
    if CTX.scope is None:
        j = z3.Int(CTX.fresh(name))
        if pats is not None:
            try:
                return z3.ForAll([j], z3.Implies(z3.And(lo <= j, j < hi), body(j)), patterns=pats(j))
            except z3.Z3Exception:
                pass        # not a legal trigger (contains logical connectives): let the solver choose
        return z3.ForAll([j], z3.Implies(z3.And(lo <= j, j < hi), body(j)))
    CTX.scope_constraints.append(z3.Implies(lo < hi, z3.And(lo >= 0, hi <= CTX.scope + 1)))
    return z3.And([z3.Implies(z3.And(lo <= c, c < hi), body(c)) for c in _int_domain()])


def exists_int(lo, hi, body, name="j"):
    lo = _z(lo)
    hi = _z(hi)
    if CTX.scope is None:
        j = z3.Int(CTX.fresh(name))
        return z3.Exists([j], z3.And(lo <= j, j < hi, body(j)))
    CTX.scope_constraints.append(z3.Implies(lo < hi, z3.And(lo >= 0, hi <= CTX.scope + 1)))
    return z3.Or([z3.And(lo <= c, c < hi, body(c)) for c in _int_domain()])


def forall_ty(ty, body, name="x"):
    srt = CTX.sort(ty)
    if CTX.scope is None or CTX.enum_values(srt) is None:
        x = z3.Const(CTX.fresh(name), srt)
        return z3.ForAll([x], body(x))
    return z3.And([body(c) for c in CTX.enum_values(srt)])


def exists_ty(ty, body, name="x"):
    srt = CTX.sort(ty)
    if CTX.scope is None or CTX.enum_values(srt) is None:
        x = z3.Const(CTX.fresh(name), srt)
        return z3.Exists([x], body(x))
    return z3.Or([body(c) for c in CTX.enum_values(srt)])


def _z(x):
    if isinstance(x, int):
        return z3.IntVal(x)
    return x


# ----------------------------------------------------------------------------------------------
# typed values
# ----------------------------------------------------------------------------------------------


class V(object):
    """A typed symbolic value.  For Tup with statically known arity `items` holds the element values."""
    __slots__ = ("ty", "t", "items", "place", "tag")

    def __init__(self, ty, t, items=None):
        self.ty = ty
        self.t = t
        self.items = items
        self.place = None
        self.tag = None

    def __repr__(self):
        return "V(%r,%s)" % (self.ty, self.t if self.items is None else self.items)


NONEV = V(NONE, None)


def mk_int(n):
    return V(INT, z3.IntVal(n))


def mk_bool(b):
    return V(BOOL, z3.BoolVal(bool(b)))


def mk_str(s):
    return V(STR, CTX.strlit(s))


def mk_tuple(items):
    return V(Tup(*[i.ty for i in items]), None, list(items))


def fresh(ty, base="v"):
    if ty is NONE:
        return NONEV
    if isinstance(ty, Tup):
        return mk_tuple([fresh(e, base) for e in ty.elems])
    v = V(ty, z3.Const(CTX.fresh(base), CTX.sort(ty)))
    if isinstance(ty, List):
        # lengths are non negative: added by the caller through wf()
        pass
    return v


def wf(v):
    """Well-formedness facts of a freshly introduced value (list lengths >= 0, finite-scope bounds)."""
    out = []
    ty = v.ty
    if isinstance(ty, List):
        out.append(llen(v) >= 0)
        if CTX.scope is not None:
            CTX.scope_constraints.append(llen(v) <= CTX.scope)
        if isinstance(ty.elem, (List, Tup, Opt, Map)) and _has_list(ty.elem):
            out.append(forall_int(0, llen(v), lambda j: z3.And(wf(lget(v, j)) or [z3.BoolVal(True)])))
    elif isinstance(ty, Tup) and v.items is not None:
        for it in v.items:
            out.extend(wf(it))
    elif isinstance(ty, Tup):
        for i, e in enumerate(ty.elems):
            out.extend(wf(tget(v, i)))
    elif isinstance(ty, Opt) and _has_list(ty.elem):
        s = CTX.sort(ty)
        inner = V(ty.elem, s.v(v.t))
        w = wf(inner)
        if w:
            out.append(z3.Implies(s.is_some(v.t), z3.And(w)))
    elif isinstance(ty, Map) and _has_list(ty.v):
        out.append(forall_ty(ty.k, lambda k: z3.And(wf(V(ty.v, z3.Select(mval(v), k))) or [z3.BoolVal(True)])))
    return out


def _has_list(ty):
    if isinstance(ty, List):
        return True
    if isinstance(ty, Tup):
        return any(_has_list(e) for e in ty.elems)
    if isinstance(ty, Opt):
        return _has_list(ty.elem)
    if isinstance(ty, Map):
        return _has_list(ty.v)
    return False


# -- lists -------------------------------------------------------------------------------------

def llen(v):
    return CTX.sort(v.ty).len(v.t)


def larr(v):
    return CTX.sort(v.ty).arr(v.t)


def lget(v, i):
    return V(v.ty.elem, z3.Select(larr(v), _z(i)))


def lmk(ty, length, arr):
    return V(ty, CTX.sort(ty).mk(_z(length), arr))


def lempty(elem_ty):
    ty = List(elem_ty)
    # one canonical (arbitrary but fixed) backing array per element type: contents beyond the length are irrelevant
    arr = z3.Const("emptyarr_" + _mangle(elem_ty.key) + CTX.tag, z3.ArraySort(z3.IntSort(), CTX.sort(elem_ty)))
    return lmk(ty, 0, arr)


def lappend(v, x):
    x = coerce(x, v.ty.elem)
    return lmk(v.ty, llen(v) + 1, z3.Store(larr(v), llen(v), x.t))


def lcontains(v, x):
    x = coerce(x, v.ty.elem)
    return exists_int(0, llen(v), lambda j: eq_t(v.ty.elem, z3.Select(larr(v), j), x.t))


def seq_eq(a, b):
    assert a.ty == b.ty, (a.ty, b.ty)
    return z3.And(llen(a) == llen(b),
                  forall_int(0, llen(a), lambda j: eq_t(a.ty.elem, z3.Select(larr(a), j), z3.Select(larr(b), j))))


def eq_t(ty, x, y):
    """Equality of two terms of type ty (lists are compared extensionally on [0,len))."""
    if isinstance(ty, List):
        return seq_eq(V(ty, x), V(ty, y))
    if isinstance(ty, Tup) and _has_list(ty):
        s = CTX.sort(ty)
        return z3.And([eq_t(e, s.accessor(0, i)(x), s.accessor(0, i)(y)) for i, e in enumerate(ty.elems)])
    return x == y


# -- sets --------------------------------------------------------------------------------------
# A set is an Array T Bool, or a *virtual* set (t is None, items = ('virt', membership function)).

def svirt(elem_ty, memfn, gen=None):
    """gen = (list value, filter on element terms): the set is {l[j] | j < len(l), filter(l[j])} (used to state
    emptiness over positions instead of over the whole element sort)."""
    return V(Set(elem_ty), None, ("virt", memfn, gen))


def sgen(s):
    return s.items[2] if is_virt(s) and len(s.items) > 2 else None


def is_virt(s):
    return s.t is None and s.items is not None and s.items[0] == "virt"


def smem_t(s, xt):
    if is_virt(s):
        return s.items[1](xt)
    return z3.Select(s.t, xt)


def sempty(elem_ty):
    return V(Set(elem_ty), z3.K(CTX.sort(elem_ty), z3.BoolVal(False)))


def smem(s, x):
    if isinstance(x.ty, Opt) and x.ty.elem == s.ty.elem:
        return z3.And(z3.Not(ois_none(x)), smem_t(s, oval(x).t))       # None is not an element of a set of non-None things
    x = coerce(x, s.ty.elem)
    return smem_t(s, x.t)


def sadd(s, x):
    x = coerce(x, s.ty.elem)
    if is_virt(s):
        return svirt(s.ty.elem, lambda e, s=s, x=x: z3.Or(e == x.t, smem_t(s, e)))
    return V(s.ty, z3.Store(s.t, x.t, z3.BoolVal(True)))


def sremove(s, x):
    x = coerce(x, s.ty.elem)
    if is_virt(s):
        return svirt(s.ty.elem, lambda e, s=s, x=x: z3.And(e != x.t, smem_t(s, e)))
    return V(s.ty, z3.Store(s.t, x.t, z3.BoolVal(False)))


def _bool_decl(kind):
    x, y = z3.Bools("x y")
    return (z3.And(x, y) if kind == "and" else z3.Or(x, y)).decl()


def _setop(a, b, f, mapdecl):
    assert a.ty == b.ty, (a.ty, b.ty)
    if CTX.scope is not None and CTX.enum_values(CTX.sort(a.ty.elem)) is not None and not (is_virt(a) or is_virt(b)):
        r = z3.K(CTX.sort(a.ty.elem), z3.BoolVal(False))
        for c in CTX.enum_values(CTX.sort(a.ty.elem)):
            r = z3.Store(r, c, f(z3.Select(a.t, c), z3.Select(b.t, c)))
        return V(a.ty, r)
    # solver-neutral: a virtual set (membership formula); materialised with a pointwise axiom when stored
    gen = None
    if mapdecl in ("and", "diff"):
        ga, gb = sgen(a), sgen(b)
        if ga is not None:
            gen = (ga[0], lambda x, ga=ga, b=b: z3.And(ga[1](x), smem_t(b, x) if mapdecl == "and" else z3.Not(smem_t(b, x))))
        elif gb is not None and mapdecl == "and":
            gen = (gb[0], lambda x, gb=gb, a=a: z3.And(gb[1](x), smem_t(a, x)))
    return svirt(a.ty.elem, lambda e, a=a, b=b: f(smem_t(a, e), smem_t(b, e)), gen)


def sunion(a, b):
    return _setop(a, b, lambda x, y: z3.Or(x, y), "or")


def sinter(a, b):
    return _setop(a, b, lambda x, y: z3.And(x, y), "and")


def sdiff(a, b):
    return _setop(a, b, lambda x, y: z3.And(x, z3.Not(y)), "diff")


def ssubset(a, b):
    assert a.ty == b.ty, (a.ty, b.ty)
    return forall_ty(a.ty.elem, lambda x: z3.Implies(smem_t(a, x), smem_t(b, x)))


def sisempty(s):
    g = sgen(s)
    if g is not None:
        lst, flt = g
        return forall_int(0, llen(lst), lambda j: z3.Not(flt(z3.Select(larr(lst), j))))
    if is_virt(s):
        return forall_ty(s.ty.elem, lambda x: z3.Not(smem_t(s, x)))
    return s.t == sempty(s.ty.elem).t


def set_eq(a, b):
    assert a.ty == b.ty, (a.ty, b.ty)
    if is_virt(a) or is_virt(b):
        return forall_ty(a.ty.elem, lambda x: smem_t(a, x) == smem_t(b, x))
    return a.t == b.t


def elems(lst):
    """Virtual set of the elements of a list."""
    ety = lst.ty.elem
    return svirt(ety, lambda x, lst=lst: exists_int(0, llen(lst), lambda j: eq_t(ety, z3.Select(larr(lst), j), x)),
                 (lst, lambda x: z3.BoolVal(True)))


def materialize(s):
    """Concrete array for a (possibly virtual) set: returns (value, [definitional axioms])."""
    if not is_virt(s):
        return s, []
    c = fresh(s.ty, "set")
    return c, [forall_ty(s.ty.elem, lambda x: z3.Select(c.t, x) == smem_t(s, x))]


# -- maps --------------------------------------------------------------------------------------

def mdom(m):
    return V(Set(m.ty.k), CTX.sort(m.ty).dom(m.t))


def mkeys_virt(m):
    return mdom(m)


def mval(m):
    return CTX.sort(m.ty).val(m.t)


def mhas(m, k):
    if k.ty is PY and m.ty.k is STR:
        # a dynamically typed key is in a string-keyed map only if it is a string
        return z3.And(py_sort().is_PStr(k.t), z3.Select(CTX.sort(m.ty).dom(m.t), py_sort().s(k.t)))
    k = coerce(k, m.ty.k)
    return z3.Select(CTX.sort(m.ty).dom(m.t), k.t)


def mget(m, k):
    k = coerce(k, m.ty.k)
    return V(m.ty.v, z3.Select(mval(m), k.t))


def mmk(ty, dom, val):
    return V(ty, CTX.sort(ty).mk(dom, val))


def mstore(m, k, v):
    k = coerce(k, m.ty.k)
    v = coerce(v, m.ty.v)
    return mmk(m.ty, z3.Store(CTX.sort(m.ty).dom(m.t), k.t, z3.BoolVal(True)), z3.Store(mval(m), k.t, v.t))


def mremove(m, k):
    k = coerce(k, m.ty.k)
    return mmk(m.ty, z3.Store(CTX.sort(m.ty).dom(m.t), k.t, z3.BoolVal(False)), mval(m))


def mempty(kty, vty):
    ty = Map(kty, vty)
    val = z3.Const("emptyval_" + _mangle(ty.key) + CTX.tag, z3.ArraySort(CTX.sort(kty), CTX.sort(vty)))
    return mmk(ty, z3.K(CTX.sort(kty), z3.BoolVal(False)), val)


def map_eq(a, b):
    """Extensional map equality: same domain, same values on the domain."""
    assert a.ty == b.ty
    return z3.And(mdom(a).t == mdom(b).t,
                  forall_ty(a.ty.k, lambda k: z3.Implies(z3.Select(mdom(a).t, k),
                                                          eq_t(a.ty.v, z3.Select(mval(a), k), z3.Select(mval(b), k)))))


# -- options / tuples --------------------------------------------------------------------------

def osome(ty, v):
    return V(ty, CTX.sort(ty).some(coerce(v, ty.elem).t))


def onone(ty):
    return V(ty, CTX.sort(ty).none)


def ois_none(v):
    return CTX.sort(v.ty).is_none(v.t)


def oval(v):
    return V(v.ty.elem, CTX.sort(v.ty).v(v.t))


def tget(v, i):
    if v.items is not None:
        return v.items[i]
    s = CTX.sort(v.ty)
    return V(v.ty.elems[i], s.accessor(0, i)(v.t))


def tpack(v):
    """Tuple value as a single z3 term."""
    if v.items is None:
        return v
    s = CTX.sort(v.ty)
    return V(v.ty, s.mk(*[tpack(i).t if isinstance(i.ty, Tup) else i.t for i in v.items]))


# -- PyVal -------------------------------------------------------------------------------------

def py_sort():
    return CTX.sort(PY)


def py_truthy(t):
    P = py_sort()
    return z3.If(P.is_PNone(t), z3.BoolVal(False),
                 z3.If(P.is_PBool(t), P.b(t),
                       z3.If(P.is_PInt(t), P.i(t) != 0,
                             z3.If(P.is_PStr(t), P.s(t) != CTX.strlit(""),
                                   CTX.func("obj_truthy", z3.IntSort(), z3.BoolSort())(P.o(t))))))


def py_isnum(t):
    P = py_sort()
    return z3.Or(P.is_PBool(t), P.is_PInt(t))


def py_num(t):
    P = py_sort()
    return z3.If(P.is_PBool(t), z3.If(P.b(t), z3.IntVal(1), z3.IntVal(0)), P.i(t))


def py_eq(a, b):
    return z3.Or(a == b, z3.And(py_isnum(a), py_isnum(b), py_num(a) == py_num(b)))


def to_py(v):
    P = py_sort()
    if v.ty is PY:
        return v
    if v.ty is NONE:
        return V(PY, P.PNone)
    if v.ty is BOOL:
        return V(PY, P.PBool(v.t))
    if v.ty is INT:
        return V(PY, P.PInt(v.t))
    if v.ty is STR:
        return V(PY, P.PStr(v.t))
    if isinstance(v.ty, Opt):
        return V(PY, z3.If(ois_none(v), P.PNone, to_py(oval(v)).t))
    if v.ty is REAL:
        return V(PY, P.PObj(CTX.func("float_obj", z3.RealSort(), z3.IntSort())(v.t)))
    if isinstance(v.ty, (Ref, U, List, Map, Tup)) and (v.t is not None or v.items is not None):
        # boxing: an object reference inside a dynamically typed slot (an uninterpreted injection)
        w = tpack(v) if isinstance(v.ty, Tup) else v
        return V(PY, P.PObj(CTX.func("box_" + _mangle(v.ty.key), CTX.sort(v.ty), z3.IntSort())(w.t)))
    raise OutsideSubset("cannot turn %r into a dynamic value" % (v.ty,))


# -- generic operations ------------------------------------------------------------------------

def coerce(v, ty):
    """Convert value v to type ty where Python would consider it the same value."""
    if v.ty == ty:
        if isinstance(ty, Tup):
            return tpack(v)
        return v
    if isinstance(ty, Opt):
        if v.ty is NONE:
            return onone(ty)
        return osome(ty, coerce(v, ty.elem))
    if ty is PY:
        return to_py(v)
    if isinstance(ty, Tup) and isinstance(v.ty, Tup) and len(ty.elems) == len(v.ty.elems):
        return tpack(mk_tuple([coerce(tget(v, i), e) for i, e in enumerate(ty.elems)]))
    if ty is INT and v.ty is BOOL:
        return V(INT, z3.If(v.t, z3.IntVal(1), z3.IntVal(0)))
    if ty is BOOL:
        return V(BOOL, truthy(v))
    if isinstance(v.ty, Opt) and v.ty.elem == ty:
        # used only where the option is known to be present (checked by the caller)
        return oval(v)
    if v.ty is PY and ty is STR:
        return V(STR, py_sort().s(v.t))
    if v.ty is PY and ty is INT:
        return V(INT, py_num(v.t))
    raise OutsideSubset("cannot coerce %r to %r" % (v.ty, ty))


def truthy(v):
    ty = v.ty
    if ty is BOOL:
        return v.t
    if ty is NONE:
        return z3.BoolVal(False)
    if ty is INT:
        return v.t != 0
    if ty is STR:
        return v.t != CTX.strlit("")
    if ty is PY:
        return py_truthy(v.t)
    if isinstance(ty, List):
        return llen(v) > 0
    if isinstance(ty, Set):
        return z3.Not(sisempty(v))
    if isinstance(ty, Map):
        return z3.Not(sisempty(mdom(v)))
    if isinstance(ty, Opt):
        return z3.And(z3.Not(ois_none(v)), truthy(oval(v)))
    if isinstance(ty, Tup):
        return z3.BoolVal(len(ty.elems) > 0)
    if ty.key in ("EmptyList", "EmptyDict", "EmptySet"):
        return z3.BoolVal(False)
    if isinstance(ty, U) and ty.name not in CTX.always_truthy:
        # an opaque value may be falsy (0, '', [], False ...): truthiness is an uninterpreted predicate of the value
        return CTX.func("truthy_" + ty.name, CTX.sort(ty), z3.BoolSort())(v.t)
    if isinstance(ty, (Ref, U, Fn)) or ty is EXC:
        return z3.BoolVal(True)
    raise OutsideSubset("truthiness of %r" % (ty,))


STR_LIKE_SORTS = set()          # names of opaque sorts that stand for strings (set by sidecars)


def equals(a, b):
    """Python ==  (for the types modelled; objects compare by identity)."""
    if a.ty == b.ty:
        if a.ty is NONE:
            return z3.BoolVal(True)
        if a.ty is PY:
            return py_eq(a.t, b.t)
        if isinstance(a.ty, Tup):
            return z3.And([equals(tget(a, i), tget(b, i)) for i in range(len(a.ty.elems))] or [z3.BoolVal(True)])
        if isinstance(a.ty, Map):
            return map_eq(a, b)
        if isinstance(a.ty, Set):
            return set_eq(a, b)
        if isinstance(a.ty, Opt):
            return z3.Or(z3.And(ois_none(a), ois_none(b)),
                         z3.And(z3.Not(ois_none(a)), z3.Not(ois_none(b)), equals(oval(a), oval(b))))
        return eq_t(a.ty, a.t, b.t)
    if isinstance(a.ty, Opt):
        if b.ty is NONE:
            return ois_none(a)
        return z3.And(z3.Not(ois_none(a)), equals(oval(a), b))
    if isinstance(b.ty, Opt):
        return equals(b, a)
    if a.ty is PY or b.ty is PY:
        try:
            return py_eq(to_py(a).t, to_py(b).t)
        except OutsideSubset:
            return z3.BoolVal(False)
    # an opaque sort a sidecar declares to stand for (one-character) strings: comparing it with a string is a real comparison - the string
    # is read as the element of the sort it denotes (an uninterpreted injection), NOT as a value of another type that is never equal
    if isinstance(a.ty, U) and b.ty is STR and a.ty.name in STR_LIKE_SORTS:
        return a.t == ufun("lit_" + a.ty.name, [b], a.ty).t
    if isinstance(b.ty, U) and a.ty is STR and b.ty.name in STR_LIKE_SORTS:
        return b.t == ufun("lit_" + b.ty.name, [a], b.ty).t
    if {a.ty, b.ty} == {INT, BOOL}:
        return coerce(a, INT).t == coerce(b, INT).t
    if isinstance(a.ty, Tup) and isinstance(b.ty, Tup) and len(a.ty.elems) == len(b.ty.elems):
        return z3.And([equals(tget(a, i), tget(b, i)) for i in range(len(a.ty.elems))] or [z3.BoolVal(True)])
    return z3.BoolVal(False)


def identical(a, b):
    """Python `is` for None / bools / objects; for other values falls back to ==."""
    if a.ty is PY and b.ty in (NONE, BOOL):
        return a.t == to_py(b).t
    if b.ty is PY and a.ty in (NONE, BOOL):
        return b.t == to_py(a).t
    if a.ty is PY and b.ty is PY:
        return a.t == b.t
    return equals(a, b)


def contains(c, x):
    ty = c.ty
    if isinstance(ty, List):
        return lcontains(c, x)
    if isinstance(ty, Set):
        return smem(c, x)
    if isinstance(ty, Map):
        return mhas(c, x)
    if isinstance(ty, Tup):
        return z3.Or([equals(tget(c, i), x) for i in range(len(ty.elems))] or [z3.BoolVal(False)])
    if ty is STR and x.ty is STR:
        return str_contains(c, x)
    if isinstance(ty, Opt):
        return z3.And(z3.Not(ois_none(c)), contains(oval(c), x))
    raise OutsideSubset("`in` on %r" % (ty,))


def length(v):
    ty = v.ty
    if isinstance(ty, List):
        return llen(v)
    if isinstance(ty, Tup):
        return z3.IntVal(len(ty.elems))
    if ty is STR:
        if CTX.strmode == "z3":
            return z3.Length(v.t)
        f = CTX.func("str_len", CTX.sort(STR), z3.IntSort())
        return f(v.t)
    if isinstance(ty, Map):
        return card(mdom(v))
    if isinstance(ty, Set):
        return card(v)
    raise OutsideSubset("len of %r" % (ty,))


def card(s):
    """Cardinality as an uninterpreted function with the facts card>=0 and card==0 <-> empty."""
    f = CTX.func("card_" + _mangle(s.ty.key), CTX.sort(s.ty), z3.IntSort())
    c = f(s.t)
    return z3.If(sisempty(s), z3.IntVal(0), z3.If(c > 0, c, z3.IntVal(1)))


# -- strings -----------------------------------------------------------------------------------

def str_contains(hay, needle):
    if CTX.strmode == "z3":
        return z3.Contains(hay.t, needle.t)
    f = CTX.func("str_contains", CTX.sort(STR), CTX.sort(STR), z3.BoolSort())
    return f(hay.t, needle.t)


def str_startswith(s, p):
    if CTX.strmode == "z3":
        return z3.PrefixOf(p.t, s.t)
    f = CTX.func("str_startswith", CTX.sort(STR), CTX.sort(STR), z3.BoolSort())
    return f(s.t, p.t)


def str_endswith(s, p):
    if CTX.strmode == "z3":
        return z3.SuffixOf(p.t, s.t)
    f = CTX.func("str_endswith", CTX.sort(STR), CTX.sort(STR), z3.BoolSort())
    return f(s.t, p.t)


def str_concat(a, b):
    if CTX.strmode == "z3":
        return V(STR, z3.Concat(a.t, b.t))
    first = "str_concat" not in CTX._funcs
    f = CTX.func("str_concat", CTX.sort(STR), CTX.sort(STR), CTX.sort(STR))
    if first and CTX.scope is None:
        x = z3.Const("cc!a", CTX.sort(STR))
        y = z3.Const("cc!b", CTX.sort(STR))
        e = CTX.strlit("")
        CTX.axioms.append(z3.ForAll([x, y], (f(x, y) == e) == z3.And(x == e, y == e)))
    return V(STR, f(a.t, b.t))


def ufun(name, args, ret_ty):
    """Application of a named uninterpreted function to typed values."""
    args = [tpack(a) if isinstance(a.ty, Tup) else a for a in args]
    sorts = [CTX.sort(a.ty) for a in args] + [CTX.sort(ret_ty)]
    key = name + "/" + ",".join(a.ty.key for a in args)
    f = CTX.func(_mangle(key), *sorts)
    if not args:
        r = V(ret_ty, z3.Const(_mangle(key) + CTX.tag, CTX.sort(ret_ty)))
    else:
        r = V(ret_ty, f(*[a.t for a in args]))
    if isinstance(ret_ty, List):
        # a list denoted by an uninterpreted function is still a list: its length is not negative (stated per application)
        fact = llen(r) >= 0
        if not any(fact.eq(x) for x in CTX.axioms[-40:]):
            CTX.axioms.append(fact)
    return r


def concat_all(L):
    """itertools.chain.from_iterable over a list of lists: an uninterpreted function of the list of lists (the concatenation in order);
    stated per application: the length is non-negative, no parts -> empty, every part empty -> empty."""
    assert isinstance(L.ty, List) and isinstance(L.ty.elem, List), L.ty
    r = ufun("concat_all", [L], L.ty.elem)
    n = llen(r)
    CTX.axioms.append(n >= 0)
    CTX.axioms.append(z3.Implies(llen(L) == 0, n == 0))
    CTX.axioms.append(z3.Implies(forall_int(0, llen(L), lambda k: llen(lget(L, k)) == 0), n == 0))
    return r
