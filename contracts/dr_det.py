"""Sidecar for C04 only (loaded after contracts/dr.py): run_components against a process() interface that is a FUNCTION of the component and the
broker's instances (determinism of component bodies, already an assumption of the lemma C04-L1-step), with the extra invariant that every
processed component's entry is what that function prescribes for the instances it saw (ghost snapshot), and that the snapshot is preserved.
No repository code here."""
import collections
from pyvc.dsl import *
from contracts.dr import M, Comp, Val, MISSING

INST = Map(Comp, Opt(Val))
OR = "uf('out_raises', BOOL, {c}, {i})"
OV = "uf('out_value', Opt(Val), {c}, {i})"
OE = "uf('out_exc', EXC, {c}, {i})"
# what the processed component c (at attempt index j) ended with, relative to the instances it saw
LOCS = ("(snap[j] == lold_inst_of(j) or True) and "
        "implies(not %s, att[j] in broker.instances and broker.instances[att[j]] == %s) and "
        "implies(%s, att[j] not in broker.instances) and "
        "implies(%s and isinstance_exc(%s, MissingRequirements), att[j] in broker.missing_requirements and "
        "        broker.missing_requirements[att[j]] == %s.requirements)") % (
    OR.format(c="att[j]", i="snap[j]"), OV.format(c="att[j]", i="snap[j]"), OR.format(c="att[j]", i="snap[j]"),
    OR.format(c="att[j]", i="snap[j]"), OE.format(c="att[j]", i="snap[j]"), OE.format(c="att[j]", i="snap[j]"))
LOCS = LOCS.replace("(snap[j] == lold_inst_of(j) or True) and ", "")
# ... and unless it reported missing requirements, the report under its name is the initial one
LOCS += (" and implies(not (%s and isinstance_exc(%s, MissingRequirements)), (att[j] in broker.missing_requirements) == (att[j] in old(broker.missing_requirements)) and "
         "implies(att[j] in broker.missing_requirements, broker.missing_requirements[att[j]] == old(broker.missing_requirements)[att[j]]))"
         % (OR.format(c="att[j]", i="snap[j]"), OE.format(c="att[j]", i="snap[j]")))
DET_INV = [
    "len(snap) == len(att)",
    # the local rule, for every component attempted so far
    "forall(j, range(0, len(att)), %s)" % LOCS,
    # what a component saw is still there, unchanged (the broker only grows; nothing is overwritten) ...
    "forall(j, range(0, len(att)), forall(d, snap[j], d in broker.instances and broker.instances[d] == snap[j][d]))",
    # ... and whatever is there now and was not seen by it was produced by a LATER attempt (or by itself)
    "forall(j, range(0, len(att)), forall(d, broker.instances, d in snap[j] or (d in attidx and attidx[d] >= j)))",
    # missing-requirement reports of components other than the attempted ones are the initial ones
    "forall(c, Comp, implies(c not in attidx, (c in broker.missing_requirements) == (c in old(broker.missing_requirements)) and "
    "       implies(c in broker.missing_requirements, broker.missing_requirements[c] == old(broker.missing_requirements)[c])))",
]


def declare(reg):
    iface = reg.ifaces[("Delegate", "process")]
    iface.raises = {"Exception": OR.format(c="self.component", i="broker.instances")}
    iface.ensures = list(iface.ensures) + ["result == %s" % OV.format(c="self.component", i="old(broker.instances)")]
    iface.ensures_raise = dict(iface.ensures_raise)
    iface.ensures_raise["Exception"] = list(iface.ensures_raise.get("Exception", [])) + ["exc == %s" % OE.format(c="self.component", i="old(broker.instances)")]
    iface.note = (iface.note + " " if iface.note else "") + \
        "C04: process() is a function (out_raises / out_value / out_exc) of the component and the broker's instances - determinism of component bodies, assumed"
    reg.assume("C04: Delegate.process is a deterministic function of (component, broker.instances): raises iff out_raises, returns out_value, raises out_exc "
               "(the overrides are functional in body_value / body_raises of the argument list built from the instances; that they refine this "
               "interface clause is not an obligation)")
    c = reg.contracts[(M, "run_components")]
    c.ghosts = collections.OrderedDict(list(c.ghosts.items()) + [("snap", (List(INST), "[]"))])
    c.locals = dict(c.locals, snap=List(INST))
    c.ghost_on = [(pat, (stmt + "; snap.append(broker.instances)") if pat == "result = DELEGATES[component].process(broker)" else stmt, when)
                  for pat, stmt, when in c.ghost_on]
    c.loops = dict(c.loops)
    c.loops[0] = list(c.loops[0]) + DET_INV
    # the generic-exception arm's inner loop (over the registry points) records exceptions only: the reports of missing requirements stay
    c.loops[2] = list(c.loops[2]) + ["broker.missing_requirements == lold(broker.missing_requirements)"]
    c.ensures = list(c.ensures) + [t for t in DET_INV] + ["forall(c, attidx, 0 <= attidx[c] and attidx[c] < len(att) and att[attidx[c]] == c)"]
