"""Executable transliteration of rpm's lib/rpmvercmp.c (the file insights/parsers/rpm_vercmp.py cites): the spec function S."""


def _isdigit(c):
    return "0" <= c <= "9"


def _isalpha(c):
    return ("a" <= c <= "z") or ("A" <= c <= "Z")


def _isalnum(c):
    return _isdigit(c) or _isalpha(c)


def S(a, b):
    if a == b:
        return 0
    one, two = 0, 0
    la, lb = len(a), len(b)
    while one < la or two < lb:
        while one < la and not _isalnum(a[one]) and a[one] not in "~^":
            one += 1
        while two < lb and not _isalnum(b[two]) and b[two] not in "~^":
            two += 1
        c1 = a[one] if one < la else ""
        c2 = b[two] if two < lb else ""
        if c1 == "~" or c2 == "~":
            if c1 != "~":
                return 1
            if c2 != "~":
                return -1
            one += 1
            two += 1
            continue
        if c1 == "^" or c2 == "^":
            if not c1:
                return -1
            if not c2:
                return 1
            if c1 != "^":
                return 1
            if c2 != "^":
                return -1
            one += 1
            two += 1
            continue
        if not (c1 and c2):
            break
        s1, s2 = one, two
        if _isdigit(a[s1]):
            while s1 < la and _isdigit(a[s1]):
                s1 += 1
            while s2 < lb and _isdigit(b[s2]):
                s2 += 1
            isnum = True
        else:
            while s1 < la and _isalpha(a[s1]):
                s1 += 1
            while s2 < lb and _isalpha(b[s2]):
                s2 += 1
            isnum = False
        seg1, seg2 = a[one:s1], b[two:s2]
        if not seg1:
            return -1
        if not seg2:
            return 1 if isnum else -1
        if isnum:
            seg1 = seg1.lstrip("0")
            seg2 = seg2.lstrip("0")
            if len(seg1) > len(seg2):
                return 1
            if len(seg2) > len(seg1):
                return -1
        if seg1 != seg2:
            return -1 if seg1 < seg2 else 1
        one, two = s1, s2
    if one >= la and two >= lb:
        return 0
    return 1 if one < la else -1
