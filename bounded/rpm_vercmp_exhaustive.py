"""BOUNDED stand-in (never counted as proved): the real _rpm_vercmp against the spec S for all pairs of strings over a small
alphabet up to a length bound, plus reflexivity / antisymmetry / (sampled) transitivity of the real function on the same set.
usage: /venv/bin/python rpm_vercmp_exhaustive.py <repo root> <max len> ; exit 1 + JSON line with a witness on a mismatch."""
import itertools, json, sys, os
root, maxlen = sys.argv[1], int(sys.argv[2])
sys.path.insert(0, root)
sys.path.insert(0, os.path.join(os.path.dirname(os.path.abspath(__file__)), "..", "specs"))
from rpmvercmp_spec import S
from insights.parsers.rpm_vercmp import _rpm_vercmp
ALPHA = "01ab.~^é"
strings = [""]
for n in range(1, maxlen + 1):
    strings += ["".join(t) for t in itertools.product(ALPHA, repeat=n)]
pairs = 0
val = {}
for a in strings:
    for b in strings:
        r = _rpm_vercmp(a, b)
        pairs += 1
        if r != S(a, b):
            print(json.dumps({"violation": "real != S", "a": a, "b": b, "real": r, "spec": S(a, b), "pairs": pairs}))
            sys.exit(1)
        val[(a, b)] = r
for a in strings:
    if val[(a, a)] != 0:
        print(json.dumps({"violation": "not reflexive", "a": a})); sys.exit(1)
    for b in strings:
        if val[(a, b)] != -val[(b, a)]:
            print(json.dumps({"violation": "not antisymmetric", "a": a, "b": b})); sys.exit(1)
# transitivity of <= on all triples of the (smaller) set of strings up to maxlen-1
small = [s for s in strings if len(s) <= max(1, maxlen - 1)]
triples = 0
for a in small:
    for b in small:
        if val[(a, b)] > 0:
            continue
        for c in small:
            triples += 1
            if val[(b, c)] <= 0 and val[(a, c)] > 0:
                print(json.dumps({"violation": "not transitive", "a": a, "b": b, "c": c})); sys.exit(1)
print(json.dumps({"ok": True, "strings": len(strings), "pairs": pairs, "triples": triples, "alphabet": ALPHA, "maxlen": maxlen}))
