"""BOUNDED stand-in / native witness search for the injectivity clause of C18 (never counted as proved): every two DIFFERENT playbook values
from a small universe (strings with quotes, backslashes, commas, brackets, control characters; integers; lists and mappings of them, nested
two levels; a value against the text that looks like its own rendering) must serialize to different texts - otherwise two different plays
share a digest.  usage: /venv/bin/python serializer_injective.py <repo root> <level 1|2> ; exit 1 + JSON line with a witness."""
import itertools, json, sys
root, level = sys.argv[1], int(sys.argv[2])
sys.path.insert(0, root)
from insights.client.apps.ansible.playbook_verifier.serializer import PlaybookSerializer as P


def fail(**kw):
    print(json.dumps(kw, default=repr))
    sys.exit(1)


STR = ["", "a", "b", "a'", 'a"', "a'\"", "a\\", "a\\'", "\\", "a\nb", "a\\nb", "a\rb", "a\tb", "a\\tb", "1", "[]", "['a']", "a, b", "'a', 'b'", "('a', 1)",
       "ordereddict()", "ordereddict([('a', 1)])", "a​b", "a\\u200bb", "a‌b", "a‍b", "True"]
if level < 2:
    STR = STR[:22]
ATOMS = STR + [1, 0, 12]


def key(v):
    """structural identity (type-sensitive: 1 and '1' and True differ)"""
    if isinstance(v, dict):
        return ("d",) + tuple((key(k), key(x)) for k, x in v.items())
    if isinstance(v, list):
        return ("l",) + tuple(key(x) for x in v)
    return (type(v).__name__, v)        # None, True, 1 and their spellings as text are all different values


values = list(ATOMS)
values += [[a] for a in ATOMS] + [[a, b] for a, b in itertools.product(ATOMS[:14], repeat=2)] + [[]]
KEYS = ATOMS[:16] + [1, 0, 12, None, True, "None", "True", "12"]          # mapping keys of every scalar type, next to the text that looks like them
values += [{k: v} for k, v in itertools.product(KEYS, ATOMS[:12])] + [{}]
values += [{"a": 1, "b": 2}, {"b": 2, "a": 1}, {"a": [1], "b": {"c": "d"}}, {"a": {"b": 1}}, {"a": [{"b": 1}]}, [["a"]], [[], []], [[[]]], {"a": []}, {"a": {}}]
if level >= 2:
    values += [{k1: v1, k2: v2} for (k1, v1), (k2, v2) in itertools.combinations(list(itertools.product(ATOMS[:8], ATOMS[:5])), 2) if key(k1) != key(k2)]
seen = {}
n = 0
for v in values:
    try:
        text = P.serialize(v)
    except Exception as ex:
        fail(violation="serialize raised", value=v, exc=repr(ex))
    n += 1
    if text in seen and seen[text] != key(v):
        fail(violation="two different values serialize to the same text (they would share a digest)", text=text, value_a=repr(seen_val[text]), value_b=repr(v))
    seen[text] = key(v)
    seen_val = globals().setdefault("seen_val", {})
    seen_val[text] = v
print(json.dumps({"ok": True, "level": level, "values": n, "distinct_texts": len(seen)}))
