# look-up on an implementation, register on the registry point it implements, look-up again: before the fix the second
# look-up returned the stale (empty) cached set.
import sys, os
sys.path.insert(0, os.getcwd())
from insights.core import filters
from insights.core.spec_factory import RegistryPoint, SpecSet, simple_file
class Specs(SpecSet):
    f = RegistryPoint(filterable=True)
class Impl(Specs):
    f = simple_file("/etc/hosts")
first = filters.get_filters(Impl.f)
filters.add_filter(Specs.f, "abc")
second = filters.get_filters(Impl.f)
print(first, second, filters.get_filters(Specs.f))
sys.exit(0 if second == {"abc"} else 1)
