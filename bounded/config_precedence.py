"""BOUNDED stand-in / native witness search for C16 (never counted as proved): the real InsightsConfig.load_all with a real configuration file,
real INSIGHTS_* environment variables and a real command line.
 (1) precedence: for a sample of options (boolean, numeric, string) every subset of {file, environment, command line} supplies a distinct
     value; the loaded value must be the command line's, else the environment's, else the file's, else the built-in default; boolean
     spellings in file / environment; an unknown option name in file or environment never becomes a setting;
 (2) consistency: every combination of the switches named in the property (offline with status / test-connection / checkin / unregister /
     check-results / diagnosis / to-json; output dir/file; obfuscate_hostname without obfuscate) either is rejected with ValueError or
     loads into a consistent result (offline -> no upload, no registration, no auto-update; output -> no upload, no kept archive;
     obfuscate_hostname -> obfuscate).
usage: /venv/bin/python config_precedence.py <repo root> <level> ; exit 1 + JSON line with a witness."""
import itertools, json, os, shutil, sys, tempfile
root, level = sys.argv[1], int(sys.argv[2])
sys.path.insert(0, root)
import logging
logging.disable(logging.CRITICAL)
from insights.client.config import InsightsConfig, DEFAULT_OPTS


def fail(**kw):
    print(json.dumps(kw, default=repr))
    sys.exit(1)


tmp = tempfile.mkdtemp(prefix="c16b_")
CONF = os.path.join(tmp, "insights-client.conf")
SAVED_ENV = dict(os.environ)
SAVED_ARGV = list(sys.argv)


def load(file_opts, env_opts, cli_args):
    with open(CONF, "w") as f:
        f.write("[insights-client]\n" + "".join("%s=%s\n" % kv for kv in file_opts.items()))
    for k in [k for k in os.environ if k.startswith("INSIGHTS_")]:
        del os.environ[k]
    for k, v in env_opts.items():
        os.environ["INSIGHTS_" + k.upper()] = v
    sys.argv = ["insights-client", "--conf", CONF] + list(cli_args)
    try:
        return InsightsConfig(_print_errors=False).load_all()
    finally:
        sys.argv = list(SAVED_ARGV)


n = 0
try:
    # ---- (1) precedence.  (option, cli switch or None, values for file / env / cli as text, how to read them back)
    SAMPLE = [("retries", "--retry", ("3", "5", "7"), int), ("cmd_timeout", None, ("30", "50", None), int),
              ("obfuscate", None, ("True", "true", None), lambda v: True), ("auto_update", None, ("False", "false", None), lambda v: False),
              ("base_url", None, ("file.example.org/r", "env.example.org/r", None), str), ("proxy", None, ("http://f:1", "http://e:2", None), str),
              ("verbose", "--verbose", ("False", "false", True), None), ("net_debug", "--net-debug", ("False", "false", True), None)]
    for name, switch, (fv, ev, cv), conv in SAMPLE:
        default = DEFAULT_OPTS[name]["default"]
        for use_f, use_e, use_c in itertools.product((False, True), repeat=3):
            if use_c and switch is None:
                continue
            cli = []
            if use_c:
                cli = [switch] if cv is True else [switch, cv]
            try:
                conf = load({name: fv} if use_f else {}, {name: ev} if use_e else {}, cli)
            except ValueError as ex:
                fail(violation="a plain option assignment was rejected", option=name, file=use_f, env=use_e, cli=use_c, exc=repr(ex))
            n += 1
            got = getattr(conf, name)
            if use_c:
                want = True if cv is True else conv(cv)
            elif use_e:
                want = conv(ev) if conv else False
            elif use_f:
                want = conv(fv) if conv else False
            else:
                want = default
            if got != want:
                fail(violation="option does not take the value of the highest-precedence source", option=name, file=fv if use_f else None,
                     env=ev if use_e else None, cli=cli, got=got, want=want)
    # the configuration file's own location: command line over environment over the file's content
    other = os.path.join(tmp, "other.conf")
    open(other, "w").write("[insights-client]\n")
    for fileo, envo in (({}, {"conf": other}), ({"conf": other}, {}), ({"conf": other}, {"conf": other})):
      for more in ([], ["--verbose"]):
        conf = load(fileo, envo, more)
        n += 1
        if conf.conf != CONF:
            fail(violation="option does not take the value of the highest-precedence source", option="conf", cli=CONF, file=fileo, env=envo, got=conf.conf)
    for src in ("file", "env"):
        conf = load({"no_such_option": "1"} if src == "file" else {}, {"no_such_option": "1"} if src == "env" else {}, [])
        n += 1
        if hasattr(conf, "no_such_option"):
            fail(violation="an unknown option name became a setting", source=src)

    # every spelling of a boolean the configuration-file format accepts (ConfigParser: 1/yes/true/on, 0/no/false/off, any case), for options
    # whose default is the other value; an unparsable file must not be dropped silently either: the other options of the same file still load
    for name in ("obfuscate", "offline", "auto_update", "gpg"):
        default = DEFAULT_OPTS[name]["default"]
        spell = ("0", "no", "false", "off", "No", "FALSE", "Off") if default else ("1", "yes", "true", "on", "Yes", "TRUE", "On")
        for sp in spell:
            try:
                conf = load({name: sp, "retries": "4"}, {}, [])
            except ValueError as ex:
                fail(violation="a plain option assignment was rejected", option=name, file=sp, exc=repr(ex))
            n += 1
            if getattr(conf, name) is not (not default) or conf.retries != 4:
                fail(violation="option does not take the value given in the configuration file", option=name, file={name: sp, "retries": "4"},
                     got={name: getattr(conf, name), "retries": conf.retries}, want={name: not default, "retries": 4})
            if name == "offline" and (not conf.no_upload or conf.auto_update):
                fail(violation="offline (from the file) without its implied settings", spelling=sp, no_upload=conf.no_upload, auto_update=conf.auto_update)
    # a configuration file that uses the legacy section name (still read by the loader): its options, typed ones included, take effect
    with open(CONF, "w") as f:
        f.write("[redhat-access-insights]\nretries=4\nobfuscate=True\nhttp_timeout=7.5\nbase_url=legacy.example.org/r\n")
    for k in [k for k in os.environ if k.startswith("INSIGHTS_")]:
        del os.environ[k]
    sys.argv = ["insights-client", "--conf", CONF]
    try:
        try:
            conf = InsightsConfig(_print_errors=False).load_all()
        except Exception as ex:
            fail(violation="loading a configuration file with the legacy section name fails with an exception other than the documented rejection",
                 file="[redhat-access-insights] retries=4 obfuscate=True http_timeout=7.5 base_url=legacy.example.org/r", exc=repr(ex))
    finally:
        sys.argv = list(SAVED_ARGV)
    n += 1
    if (conf.retries, conf.obfuscate, conf.http_timeout, conf.base_url) != (4, True, 7.5, "legacy.example.org/r"):
        fail(violation="options do not take the values of a configuration file that uses the legacy section name",
             got=[conf.retries, conf.obfuscate, conf.http_timeout, conf.base_url])
    # ---- (2) consistency
    REQUESTS = ["--status", "--test-connection", "--checkin", "--unregister", "--diagnosis"]
    combos = [[]] + [[r] for r in REQUESTS] + [["--output-dir", os.path.join(tmp, "out")], ["--output-file", os.path.join(tmp, "out.tar.gz")]]
    for offline in (False, True):
        for extra in combos:
            for obf_host, obf in ((False, False), (True, False), (True, True)):
                cli = (["--offline"] if offline else []) + extra
                fileo = {}
                if obf_host:
                    fileo["obfuscate_hostname"] = "True"
                if obf:
                    fileo["obfuscate"] = "True"
                n += 1
                ctx = dict(cli=cli, file=fileo)
                try:
                    conf = load(fileo, {}, cli)
                except ValueError:
                    continue          # rejected with an error: allowed for conflicting combinations
                except SystemExit:
                    continue
                if offline and any(r in extra for r in REQUESTS):
                    fail(violation="offline mode combined with a request that needs the network was accepted", **ctx)
                if obf_host and not obf:
                    fail(violation="host-name obfuscation without obfuscation was accepted silently", **ctx)
                if conf.offline and (not conf.no_upload or conf.auto_update or conf.register):
                    fail(violation="offline result is not consistent", no_upload=conf.no_upload, auto_update=conf.auto_update, register=conf.register, **ctx)
                if (conf.output_dir or conf.output_file) and (not conf.no_upload or conf.keep_archive):
                    fail(violation="explicit output with upload or a kept archive", no_upload=conf.no_upload, keep_archive=conf.keep_archive, **ctx)
                if conf.obfuscate_hostname and not conf.obfuscate:
                    fail(violation="obfuscate_hostname without obfuscate in a loaded result", **ctx)
finally:
    os.environ.clear()
    os.environ.update(SAVED_ENV)
    shutil.rmtree(tmp, ignore_errors=True)
print(json.dumps({"ok": True, "loads": n}))
