"""C16 - client options resolve by precedence; offline means no network."""
import collections
from contracts.client_config import M
from pyvc.dsl import Map, Set, STR, PY

SIDECARS = ["client_config"]
UNITS = [
    (M, "InsightsConfig._update_dict"),
    (M, "InsightsConfig._load_env.<locals>._boolify"),
    (M, "InsightsConfig._load_env"),
    (M, "InsightsConfig._load_command_line"),
    (M, "InsightsConfig._load_config_file"),
    (M, "InsightsConfig._set_app_config"),
    (M, "InsightsConfig._determine_filename_and_extension"),
    (M, "InsightsConfig._imply_options"),
    (M, "InsightsConfig._validate_options"),
    (M, "InsightsConfig.load_all"),
]


def _U(prev, d, nxt):
    """the postcondition of one _update_dict(d) call taking option map `prev` to `nxt` (text of the contract, renamed)"""
    acc = "(k in %s and k not in init and k in DEFAULT_OPTS)" % d
    gpg = "('no_gpg' in %s and 'no_gpg' not in init and truthy(%s['no_gpg']))" % (d, d)
    return [
        "forall(k, Str, implies(%s and not (k == 'gpg' and %s), k in %s and %s[k] is %s[k]))" % (acc, gpg, nxt, nxt, d),
        "forall(k, Str, implies(not %s and not (k == 'gpg' and %s), (k in %s) == (k in %s) and %s[k] is %s[k]))" % (acc, gpg, nxt, prev, nxt, prev),
        "forall(k, Str, implies(k in %s and k not in %s, k in DEFAULT_OPTS))" % (nxt, prev),
    ]


_T = Map(STR, PY)
LEMMAS = [dict(
    name="C16-L1-precedence",
    module=M,
    decls=collections.OrderedDict(a0=_T, a1=_T, a2=_T, a3=_T, fil=_T, env=_T, cli=_T, init=Set(STR)),
    # load_all: file, then environment, then command line (each through _update_dict)
    hyps=_U("a0", "fil", "a1") + _U("a1", "env", "a2") + _U("a2", "cli", "a3"),
    goals=[
        "forall(k, Str, implies(k in DEFAULT_OPTS and k not in init and k != 'gpg', "
        "  a3[k] is (cli[k] if k in cli else (env[k] if k in env else (fil[k] if k in fil else a0[k])))))",
        # unknown option names never become settings
        "forall(k, Str, implies(k in a3 and k not in a0, k in DEFAULT_OPTS))",
    ])]
NOT_CARRIED = ["_load_config_file is under contract (one _update_dict(file map) or nothing; nothing escapes; the typed getters are asked for the section that was found - fix 7b8b9e2); the ConfigParser object itself is an assumed library (a section it does not have is a ConfigParser.Error; typed getters deliver a value or ValueError)",
               "argparse / ConfigParser / os.environ deliver arbitrary maps (assumed)",
               "InsightsConfig.__init__ (defaults, kwargs) is not under contract: load_all is verified from an arbitrary option map",
               "a non-string value reaching a path-valued option makes loading fail with TypeError/AttributeError instead of ValueError "
               "(e.g. INSIGHTS_OUTPUT_DIR=true): counted as 'loading does not succeed', not as a violation"]


def _bounded0(check):
    """bounded stand-in / native witness search: the real load_all with a real file, environment and command line"""
    import json, os, subprocess
    here = os.path.dirname(os.path.dirname(os.path.abspath(__file__)))
    p = subprocess.run(["/venv/bin/python", os.path.join(here, "bounded", "config_precedence.py"), check.repo.root, "1"],
                       stdout=subprocess.PIPE, stderr=subprocess.PIPE, universal_newlines=True, timeout=3000)
    line = (p.stdout.strip().splitlines() or ["{}"])[-1]
    try:
        info = json.loads(line)
    except ValueError:
        info = {"error": (p.stderr or p.stdout)[-400:]}
    out = dict(name="command line > environment > file > default on the real loader; conflicting switch combinations rejected or resolved consistently",
               level="bounded",
               bound="8 sample options (numeric, boolean, string, conf) x every subset of the three sources; 7 spellings of a boolean in the file x 4 options; offline x 8 requests / output locations x 3 "
                     "obfuscation settings",
               result=info, violation=(p.returncode == 1), error=(p.returncode not in (0, 1)))
    if p.returncode == 1:
        os.makedirs(os.path.join(here, "replays"), exist_ok=True)
        path = os.path.join(here, "replays", "C16-bounded.json")
        json.dump(dict(obligation="bounded:config-precedence", witness=info,
                       replay_cmd="/venv/bin/python %s %s 1" % (os.path.join(here, "bounded", "config_precedence.py"), check.repo.root)),
                  open(path, "w"), indent=1)
        out["replay"] = path
    return [out]


def bounded(check):
    from props._xcheck import xcheck
    return list(_bounded0(check)) + [xcheck(check, ['client_config'], 'config')]
