"""BOUNDED stand-in / native witness search for the persistence clause of C06 and the save-as / multi-output clauses of C11 (never counted as
proved): the declarative datasource factories (simple_file, glob_file, first_file, foreach_collect, simple_command, command_with_args,
foreach_execute) x every form of save_as they accept (none, a name, a directory 'd/', with a leading '/', an absolute path inside and outside
the work area), evaluated under a real HostContext, persisted with the real Hydration.dehydrate and loaded again:
  - every file collection creates is beneath the output directory it was given;
  - every element of a multi-output spec is loaded back with its own lines, in order (no two elements share a destination).
usage: /venv/bin/python factories_destinations.py <repo root> ; exit 1 + JSON line with a witness."""
import json, os, shutil, sys, tempfile
root = sys.argv[1]
sys.path.insert(0, root)
import logging
logging.disable(logging.CRITICAL)
from insights.core import blacklist, dr
from insights.core.context import HostContext
from insights.core.plugins import datasource
from insights.core.serde import Hydration
from insights.core import spec_factory as sf


def fail(**kw):
    print(json.dumps(kw, default=repr))
    sys.exit(1)


def snapshot(top):
    return set(os.path.join(d, f) for d, _ds, fs in os.walk(top) for f in fs)


@datasource(HostContext)
def word(broker):
    return "w1"


@datasource(HostContext)
def words(broker):
    return ["w1", "w2", "w3"]


blacklist._COMMAND_FILTERS.clear()
blacklist._FILE_FILTERS.clear()
area = os.path.realpath(tempfile.mkdtemp(prefix="c06f_"))
n = 0
try:
    src = os.path.join(area, "src")
    os.makedirs(src)
    for name in ("a.txt", "b.txt", "c.txt"):
        open(os.path.join(src, name), "w").write("line of %s\nsecond of %s\n" % (name, name))
    SAVE_AS = [None, "renamed.txt", "renamed_dir/", "/lead/renamed.txt", "/lead_dir/", os.path.join(area, "elsewhere", "abs.txt"), "/tmp_outside_" + os.path.basename(area) + "/x"]
    FACTORIES = [("simple_file", lambda sa: sf.simple_file(os.path.join(src, "a.txt"), save_as=sa), 1),
                 ("first_file", lambda sa: sf.first_file([os.path.join(src, "zz"), os.path.join(src, "b.txt")], save_as=sa), 1),
                 ("glob_file", lambda sa: sf.glob_file(os.path.join(src, "*.txt"), save_as=sa), 3),
                 ("foreach_collect", lambda sa: sf.foreach_collect(words_files, "%s", save_as=sa), 3),
                 ("simple_command", lambda sa: sf.simple_command("/bin/echo simple", save_as=sa), 1),
                 ("command_with_args", lambda sa: sf.command_with_args("/bin/echo %s", word, save_as=sa), 1),
                 ("foreach_execute", lambda sa: sf.foreach_execute(words, "/bin/echo %s"), 3)]

    @datasource(HostContext)
    def words_files(broker):
        return [os.path.join(src, x) for x in ("a.txt", "b.txt", "c.txt")]
    for fname, make, count in FACTORIES:
        for sa in SAVE_AS:
            if fname == "foreach_execute" and sa is not None:
                continue
            if sa is not None and fname in ("glob_file", "foreach_collect") and not sa.endswith("/"):
                # a multi-output spec saved under ONE file name: the factories turn the name into a directory (documented); still explored
                pass
            try:
                ds = make(sa)
            except Exception as ex:
                continue          # the factory refuses this save_as form at declaration time: nothing is collected
            # a spec set gives every datasource its own name; bare factory instances all share their class name
            ds.__name__ = ds.__qualname__ = "ds_%s_%d" % (fname, n)
            ds.__module__ = "verif_factories"
            dr.COMPONENTS_BY_NAME[dr.get_name(ds)] = ds
            out_dir = os.path.join(area, "archive_%d" % n)
            os.makedirs(out_dir)
            ctx = HostContext()
            broker = dr.Broker()
            broker[HostContext] = ctx
            broker[word], broker[words], broker[words_files] = "w1", ["w1", "w2", "w3"], [os.path.join(src, x) for x in ("a.txt", "b.txt", "c.txt")]
            try:
                broker[ds] = ds(broker)
            except Exception as ex:
                continue
            value = broker[ds]
            before_lines = [list(p.content) for p in (value if isinstance(value, list) else [value])]
            before = snapshot(area) | snapshot("/tmp_outside_" + os.path.basename(area)) if os.path.isdir("/tmp_outside_" + os.path.basename(area)) else snapshot(area)
            Hydration(out_dir, ctx).dehydrate(ds, broker)
            n += 1
            created = sorted((snapshot(area) | (snapshot("/tmp_outside_" + os.path.basename(area)) if os.path.isdir("/tmp_outside_" + os.path.basename(area)) else set())) - before)
            outside = [p for p in created if not p.startswith(out_dir + os.sep)]
            if outside:
                fail(violation="collection created a file outside the output directory it was given", factory=fname, save_as=sa, output_dir=out_dir, outside=outside)
            loaded = Hydration(out_dir).hydrate(dr.Broker()).get(ds)
            got = loaded if isinstance(loaded, list) else ([loaded] if loaded is not None else [])
            after_lines = [list(p.content) for p in got]
            if after_lines != before_lines:
                fail(violation="what was persisted is not what is loaded (elements lost, merged or reordered)", factory=fname, save_as=sa,
                     persisted=before_lines, loaded=after_lines, relative_paths=[p.relative_path for p in got])
finally:
    shutil.rmtree(area, ignore_errors=True)
    shutil.rmtree("/tmp_outside_" + os.path.basename(area), ignore_errors=True)
print(json.dumps({"ok": True, "collections": n}))
