"""Expression evaluation (code mode: forking on partial operations; spec mode: total, logical)."""
import ast
import z3
from . import core
from .core import (CTX, V, NONEV, INT, BOOL, STR, NONE, PY, EXC, REAL, U, List, Set, Map, Opt, Tup, Ref, Fn,
                   OutsideSubset, fresh, wf, truthy, coerce, mk_int, mk_bool, mk_str, mk_tuple)
from .state import State, Outcome, CLOSURE, EMPTY_LIST, EMPTY_DICT, EMPTY_SET, MODULE, STATIC


class ExprMixin(object):

    # -- entry points ---------------------------------------------------------------------------
    def ev(self, e, st):
        m = getattr(self, "ex_" + type(e).__name__, None)
        if m is None:
            raise OutsideSubset("expression %s" % type(e).__name__)
        return m(e, st)

    def ev1(self, e, st):
        """Evaluate an expression that must have exactly one outcome (spec mode)."""
        r = self.ev(e, st)
        if len(r) != 1:
            raise OutsideSubset("expression with %d outcomes in specification: %s" % (len(r), ast.unparse(e)))
        st1 = r[0][0]
        if st1 is not st and len(st1.pc) > len(st.pc):
            # definitional facts about fresh symbols introduced while evaluating (list concatenation, slices, ...)
            self.spec_defs.extend(st1.pc[len(st.pc):])
        return r[0][1]

    def ev_list(self, exprs, st):
        res = [(st, [])]
        for e in exprs:
            nxt = []
            for cur, vals in res:
                for st1, v in self.ev(e, cur):
                    nxt.append((st1, vals + [v]))
            res = nxt
        return res

    def ev_cond(self, e, st):
        """Evaluate as a condition: list of (state, z3 Bool)."""
        return [(st1, truthy(v)) for st1, v in self.ev(e, st)]

    def spec(self, text_or_node, st):
        """Evaluate a contract expression (string) in state st: a single typed value."""
        if isinstance(text_or_node, str):
            key = ("spec", text_or_node)
            if key not in self._spec_cache:
                try:
                    self._spec_cache[key] = ast.parse(text_or_node.strip(), mode="eval").body
                except SyntaxError as ex:
                    raise OutsideSubset("contract syntax: %s: %s" % (ex, text_or_node))
            node = self._spec_cache[key]
        else:
            node = text_or_node
        self.spec_depth += 1
        n0 = len(self.spec_defs)
        try:
            v = self.ev1(node, st)
            if self.spec_depth == 1:
                defs = self.spec_defs[n0:]
                del self.spec_defs[n0:]
                st.pc.extend(defs)
            return v
        except OutsideSubset as ex:
            if not getattr(ex, "located", False):
                ex.args = ("in contract clause `%s`: %s" % (text_or_node if isinstance(text_or_node, str) else ast.unparse(node), ex.args[0]),)
                ex.located = True
            raise
        finally:
            self.spec_depth -= 1

    def spec_bool(self, text, st):
        return truthy(self.spec(text, st))

    def no_defs_under_binder(self, n0):
        if len(self.spec_defs) > n0:
            del self.spec_defs[n0:]
            raise OutsideSubset("expression introducing fresh symbols (concatenation, slice, sorted, ...) under a binder")

    @property
    def in_spec(self):
        return self.spec_depth > 0

    # -- atoms ------------------------------------------------------------------------------------
    def ex_Constant(self, e, st):
        v = e.value
        if v is None:
            return [(st, NONEV)]
        if isinstance(v, bool):
            return [(st, mk_bool(v))]
        if isinstance(v, int):
            return [(st, mk_int(v))]
        if isinstance(v, str):
            return [(st, mk_str(v))]
        if isinstance(v, float):
            return [(st, V(REAL, z3.RealVal(repr(v))))]
        if v is Ellipsis:
            return [(st, NONEV)]
        raise OutsideSubset("constant %r" % (v,))

    def ex_JoinedStr(self, e, st):
        self.notes.append("f-string treated as an opaque string")
        return [(st, fresh(STR, "fstr"))]

    def lookup(self, name, st):
        if name in st.env:
            return st.env[name]
        if name in st.glob:
            return st.glob[name]
        return None

    def ex_Name(self, e, st):
        v = self.lookup(e.id, st)
        if v is not None:
            return [(st, v)]
        if e.id in ("True", "False"):
            return [(st, mk_bool(e.id == "True"))]
        if e.id == "None":
            return [(st, NONEV)]
        c = self.module_constant(e.id, st)
        if c is not None:
            return [(st, c)]
        return [(st, V(MODULE, None, (e.id,)))]

    def module_constant(self, dotted, st):
        """Literal constants read from source (declared in reg.consts) -> STATIC/str/int value."""
        spec = self.reg.consts.get(dotted)
        if spec is None and self.module is not None:
            spec = self.reg.consts.get(self.module.rel + ":" + dotted)
        if spec is None:
            return None
        rel, name = spec
        node = self.repo.module(rel).constant(name)
        r = self.ev(node, State())
        return r[0][1]

    def dotted(self, node, st):
        parts = []
        while isinstance(node, ast.Attribute):
            parts.append(node.attr)
            node = node.value
        if isinstance(node, ast.Name) and self.lookup(node.id, st) is None:
            parts.append(node.id)
            return ".".join(reversed(parts))
        return None

    def ex_Attribute(self, e, st):
        d = self.dotted(e, st)
        if d is not None:
            alias = getattr(self.reg, "dotted_globals", {}).get(d)
            if alias is not None and alias in st.glob:
                return [(st, st.glob[alias])]
            c = self.module_constant(d, st)
            if c is not None:
                return [(st, c)]
            sc = getattr(self.reg, "static_consts", {}).get(d)
            if sc is not None:
                # a module constant that is a fixed-length list of (symbolic) values: loops over it are unrolled
                return [(st, V(STATIC, None, [core.ufun("const_" + n, [], t) for n, t in sc]))]
            ext = self.reg.externals.get(d)
            if ext is not None and ext != "drop" and not ext.params and ext.returns is not NONE:
                if ext.pure:
                    return [(st, core.ufun("const_" + d, [], ext.returns))]      # a fixed (unknown) constant
                return self.call_contract(ext, [], {}, st, e)      # attribute-like external (e.g. os.environ)
            return [(st, V(MODULE, None, (d,)))]
        res = []
        for st1, obj in self.ev(e.value, st):
            res.extend(self.get_attr(obj, e.attr, st1, e))
        return res

    def get_attr(self, obj, attr, st, node):
        if isinstance(obj.ty, Ref):
            fty = self.field_ty(obj.ty.cls, attr)
            if fty is None and not self.reg.classes[obj.ty.cls].get("__dynamic__"):
                # zero-argument pure method / property declared as contract?
                c = self.reg.methods.get((obj.ty.cls, attr))
                if c is not None and list(c.params) == ["self"]:
                    return self.call_contract(c, [obj], {}, st, node)
                raise OutsideSubset("attribute %s.%s not declared" % (obj.ty.cls, attr))
            return [(st, self.heap_get(st, obj, attr))]
        if obj.ty is EXC:
            for (cls, a), ty in [((c, a), t) for c, d in self.reg.exc_attrs.items() for a, t in d.items()]:
                if a == attr:
                    return [(st, self.exc_attr(obj, attr, ty))]
            raise OutsideSubset("exception attribute %s" % attr)
        if isinstance(obj.ty, Opt):
            if self.in_spec:
                return self.get_attr(core.oval(obj), attr, st, node)
            a, b = self.fork(st, core.ois_none(obj), getattr(node, "lineno", None), "none-attr")
            if a is not None:
                self.do_raise(a, "AttributeError")
            if b is None:
                return []
            return self.get_attr(core.oval(obj), attr, b, node)
        if isinstance(obj.ty, Tup) and attr.startswith("f") and attr[1:].isdigit() and self.in_spec:
            return [(st, core.tget(obj, int(attr[1:])))]
        if isinstance(obj.ty, Map) and attr == "dom" and self.in_spec:
            return [(st, core.mdom(obj))]
        if obj.ty is PY:
            self.notes.append("attribute .%s of a dynamic value: uninterpreted (AttributeError not modelled)" % attr)
            return [(st, core.ufun("py_attr_" + attr, [obj], PY))]
        if isinstance(obj.ty, U):
            # attribute of an opaque object: uninterpreted function declared by sidecar
            key = (obj.ty.name, attr)
            ty = self.reg.classes.get(obj.ty.name, {}).get(attr)
            if ty is not None:
                return [(st, core.ufun("attr_%s_%s" % key, [obj], ty))]
            c = self.reg.methods.get(key)
            if c is not None and list(c.params) == ["self"]:
                return self.call_contract(c, [obj], {}, st, node)      # a property under contract
        raise OutsideSubset("attribute %s on %r" % (attr, obj.ty))

    # -- displays -----------------------------------------------------------------------------------
    def ex_Tuple(self, e, st):
        if any(isinstance(x, ast.Starred) for x in e.elts):
            raise OutsideSubset("starred in display")
        return [(st1, mk_tuple([self._pack_static(v) for v in vals])) for st1, vals in self.ev_list(e.elts, st)]

    def _pack_static(self, v):
        if v.ty is STATIC:
            return mk_tuple([self._pack_static(i) for i in v.items])
        return v

    def ex_List(self, e, st):
        if not e.elts:
            return [(st, self._empty("list"))]
        return [(st1, V(STATIC, None, vals)) for st1, vals in self.ev_list(e.elts, st)]

    def ex_Set(self, e, st):
        res = []
        for st1, vals in self.ev_list(e.elts, st):
            s = core.sempty(vals[0].ty)
            for v in vals:
                s = core.sadd(s, v)
            res.append((st1, s))
        return res

    def ex_Dict(self, e, st):
        if not e.keys:
            return [(st, self._empty("dict"))]
        res = []
        for st1, ks in self.ev_list(e.keys, st):
            for st2, vs in self.ev_list(e.values, st1):
                vty = vs[0].ty
                if any(v.ty != vty for v in vs):
                    vty = PY
                hints = getattr(self.contract, "empties", None) if self.contract else None
                if hints and "dictval" in hints:
                    vty = hints["dictval"]          # dict displays of this function hold values of that type
                m = core.mempty(ks[0].ty, vty)
                for k, v in zip(ks, vs):
                    m = core.mstore(m, k, self.store_form(st2, self.adapt(v, vty), vty))
                res.append((st2, m))
        return res

    # -- operators ----------------------------------------------------------------------------------
    def ex_UnaryOp(self, e, st):
        res = []
        for st1, v in self.ev(e.operand, st):
            if isinstance(e.op, ast.Not):
                res.append((st1, V(BOOL, z3.Not(truthy(v)))))
            elif isinstance(e.op, ast.USub):
                res.append((st1, V(v.ty, -coerce(v, INT).t if v.ty is not REAL else -v.t)))
            else:
                raise OutsideSubset("unary op")
        return res

    def ex_BoolOp(self, e, st):
        is_and = isinstance(e.op, ast.And)
        if self.in_spec:
            vals = [self.ev1(x, st) for x in e.values]
            if all(v.ty is BOOL for v in vals):
                return [(st, V(BOOL, (z3.And if is_and else z3.Or)([v.t for v in vals])))]
            r = vals[-1]
            for v in reversed(vals[:-1]):
                r = self._select(truthy(v), r, v) if is_and else self._select(truthy(v), v, r)
            return [(st, r)]
        res = []
        for st1, v in self.ev(e.values[0], st):
            res.extend(self._boolop_rest(is_and, v, e.values[1:], st1, e))
        return res

    def _boolop_rest(self, is_and, left, rest, st, node):
        if not rest:
            return [(st, left)]
        tl = truthy(left)
        go = tl if is_and else z3.Not(tl)            # condition under which the next operand is evaluated
        # try a fork-free evaluation of the remaining operands
        trial = st.copy().assume(go)
        mark = len(self.raised)
        n_obl = len(self.obls)
        r = self._boolop_rest(is_and, None, [], trial, node) if False else None
        outs = self.ev(rest[0], trial)
        pure = (len(outs) == 1 and len(self.raised) == mark and len(self.obls) == n_obl
                and _same_store(outs[0][0], trial))
        if pure:
            v2 = outs[0][1]
            sub = self._boolop_rest(is_and, v2, rest[1:], trial, node)
            if len(sub) == 1 and len(self.raised) == mark and len(self.obls) == n_obl and _same_store(sub[0][0], trial):
                rv = sub[0][1]
                try:
                    if left.ty is BOOL and rv.ty is BOOL:
                        val = V(BOOL, z3.And(tl, rv.t) if is_and else z3.Or(tl, rv.t))
                    else:
                        val = self._select(go, rv, left)
                    return [(st, val)]
                except OutsideSubset:
                    pass
        del self.raised[mark:]
        del self.obls[n_obl:]
        res = []
        a, b = self.fork(st, go, getattr(node, "lineno", None), "and" if is_and else "or")
        if b is not None:
            res.append((b, left))
        if a is not None:
            for st1, v2 in self.ev(rest[0], a):
                res.extend(self._boolop_rest(is_and, v2, rest[1:], st1, node))
        return res

    def _select(self, c, a, b):
        """If(c, a, b) for typed values, joining the types where needed."""
        if z3.is_true(c):
            return a
        if z3.is_false(c):
            return b
        if a.ty == b.ty:
            if a.ty is NONE:
                return a
            if isinstance(a.ty, Tup):
                a, b = core.tpack(a), core.tpack(b)
            if isinstance(a.ty, Set) and (core.is_virt(a) or core.is_virt(b)):
                return core.svirt(a.ty.elem, lambda x: z3.If(c, core.smem_t(a, x), core.smem_t(b, x)))
            if a.ty in (CLOSURE, MODULE, STATIC, EMPTY_LIST, EMPTY_DICT, EMPTY_SET):
                if a is b or a.ty in (EMPTY_LIST, EMPTY_DICT, EMPTY_SET):
                    return a
                raise OutsideSubset("select between static values")
            return V(a.ty, z3.If(c, a.t, b.t))
        ty = join_ty(a.ty, b.ty)
        if ty is None:
            co = getattr(self.reg, "coercions", {})
            if (b.ty.key, a.ty.key) in co:
                ty = a.ty
            elif (a.ty.key, b.ty.key) in co:
                ty = b.ty
        if ty is None:
            raise OutsideSubset("no common type for %r / %r" % (a.ty, b.ty))
        return self._select(c, self.adapt(a, ty), self.adapt(b, ty))

    def ex_IfExp(self, e, st):
        res = []
        for st1, c in self.ev_cond(e.test, st):
            if self.in_spec:
                res.append((st1, self._select(c, self.ev1(e.body, st1), self.ev1(e.orelse, st1))))
                continue
            a, b = self.fork(st1, c, e.lineno, "ifexp")
            if a is not None:
                res.extend(self.ev(e.body, a))
            if b is not None:
                res.extend(self.ev(e.orelse, b))
        return res

    def ex_Compare(self, e, st):
        # == / != between objects whose class defines __eq__ under contract: dispatched (may raise, e.g. ValueError)
        if len(e.ops) == 1 and isinstance(e.ops[0], (ast.Eq, ast.NotEq)):
            res = []
            handled = True
            for st1, (a, b) in self.ev_list([e.left, e.comparators[0]], st):
                if isinstance(a.ty, Ref) and (a.ty.cls, "__eq__") in self.reg.methods and not self.in_spec:
                    for st2, r in self.call_method(a, "__eq__", [b], {}, st1, e):
                        res.append((st2, V(BOOL, truthy(r) if isinstance(e.ops[0], ast.Eq) else z3.Not(truthy(r)))))
                else:
                    handled = False
                    break
            if handled:
                return res
        res = []
        operands = [e.left] + list(e.comparators)
        for st1, vals in self.ev_list(operands, st):
            cs = []
            for op, a, b in zip(e.ops, vals, vals[1:]):
                cs.append(self.compare(op, a, b, st1))
            res.append((st1, V(BOOL, z3.And(cs) if len(cs) > 1 else cs[0])))
        return res

    def compare(self, op, a, b, st):
        if isinstance(op, ast.Eq):
            return self.py_equals(a, b)
        if isinstance(op, ast.NotEq):
            return z3.Not(self.py_equals(a, b))
        if isinstance(op, ast.Is):
            return self.py_is(a, b)
        if isinstance(op, ast.IsNot):
            return z3.Not(self.py_is(a, b))
        if isinstance(op, ast.In):
            return self.py_in(a, b, st)
        if isinstance(op, ast.NotIn):
            return z3.Not(self.py_in(a, b, st))
        hook = self._op_hook(type(op).__name__, a, b)
        if hook is not None:
            return hook.t
        if isinstance(a.ty, Set) and isinstance(b.ty, Set) and a.ty == b.ty and isinstance(op, (ast.Lt, ast.LtE, ast.Gt, ast.GtE)):
            # set comparisons are the inclusion order
            lo, hi = (a, b) if isinstance(op, (ast.Lt, ast.LtE)) else (b, a)
            sub = core.forall_ty(a.ty.elem, lambda x: z3.Implies(core.smem_t(lo, x), core.smem_t(hi, x)))
            if isinstance(op, (ast.LtE, ast.GtE)):
                return sub
            return z3.And(sub, z3.Not(core.forall_ty(a.ty.elem, lambda x: z3.Implies(core.smem_t(hi, x), core.smem_t(lo, x)))))
        x, y = self.num(a), self.num(b)
        if isinstance(op, ast.Lt):
            return x < y
        if isinstance(op, ast.LtE):
            return x <= y
        if isinstance(op, ast.Gt):
            return x > y
        if isinstance(op, ast.GtE):
            return x >= y
        raise OutsideSubset("comparison operator")

    def _op_hook(self, opname, a, b):
        """operators on opaque sorts declared by the sidecar: reg.operators[(sort, 'Sub'|'Gt'|..., sort)] = (result type, function name):
        an uninterpreted total function of the operands (the sidecar states in its note what is assumed of it)"""
        if isinstance(a.ty, U) and isinstance(b.ty, U):
            h = getattr(self.reg, "operators", {}).get((a.ty.name, opname, b.ty.name))
            if h is not None:
                mode = h[2] if len(h) > 2 else ""
                x, y = (b, a) if "swap" in mode else (a, b)
                r = core.ufun("op_" + h[1], [x, y], h[0])
                return V(BOOL, z3.Not(r.t)) if "not" in mode else r      # derived comparisons of a total order: a < b is not (a >= b), ...
        return None

    def num(self, v):
        if v.ty in (INT, REAL):
            return v.t
        if v.ty is BOOL:
            return coerce(v, INT).t
        if v.ty is PY:
            self.notes.append("ordering comparison on a dynamic value: treated as integer comparison")
            return core.py_num(v.t)
        if isinstance(v.ty, Opt):
            return self.num(core.oval(v))
        raise OutsideSubset("ordering on %r" % (v.ty,))

    def py_equals(self, a, b):
        a, b = self._static_to_val(a, b), self._static_to_val(b, a)
        if a.ty in (EMPTY_LIST, EMPTY_DICT, EMPTY_SET):
            a, b = b, a
        if b.ty in (EMPTY_LIST, EMPTY_DICT, EMPTY_SET):
            if a.ty == b.ty:
                return z3.BoolVal(True)
            if isinstance(a.ty, (List, Map, Set)):
                return z3.Not(truthy(a))
            if isinstance(a.ty, Opt):
                return z3.And(z3.Not(core.ois_none(a)), z3.Not(truthy(core.oval(a))))
            return z3.BoolVal(False)
        # vacuity guard: == between an opaque sort and a string is False by typing unless the sidecar declared the sort string-like; say so,
        # so that a dead comparison shows up in the evidence notes instead of silently killing a branch
        ua, ub = (a.ty.elem if isinstance(a.ty, Opt) else a.ty), (b.ty.elem if isinstance(b.ty, Opt) else b.ty)
        for x, y in ((ua, ub), (ub, ua)):
            if isinstance(x, U) and y is STR and x.name not in core.STR_LIKE_SORTS and not self.in_spec:
                self.notes.append("VACUITY-RISK: `==` between the opaque sort %s and a string is False by typing (declare the sort string-like if it stands for strings)" % x.name)
        return core.equals(a, b)

    def _static_to_val(self, a, other):
        if a.ty is STATIC:
            if isinstance(other.ty, List):
                return self.adapt(a, other.ty)
            if isinstance(other.ty, Opt) and isinstance(other.ty.elem, List):
                return self.adapt(a, other.ty.elem)
            if a.items:
                return self.adapt(a, List(a.items[0].ty))
        return a

    def py_is(self, a, b):
        if a.ty is MODULE or b.ty is MODULE:
            if a.ty is MODULE and b.ty is MODULE:
                return z3.BoolVal(a.items == b.items)
            raise OutsideSubset("identity test against undeclared name %s" % ((a.items or b.items),))
        return core.identical(a, b)

    def py_in(self, x, c, st):
        if c.ty is STATIC:
            return z3.Or([self.py_equals(x, it) for it in c.items] or [z3.BoolVal(False)])
        if c.ty in (EMPTY_LIST, EMPTY_DICT, EMPTY_SET):
            return z3.BoolVal(False)
        if isinstance(c.ty, Ref):
            outs = self.call_method(c, "__contains__", [x], {}, st, None)
            if len(outs) != 1:
                raise OutsideSubset("__contains__ must be total")
            return truthy(outs[0][1])
        dl = self.dictlike(c.ty)
        if dl is not None and x.ty is STR:
            return z3.And(self.dl_ismap(c, dl), core.smem(core.mdom(self.dl_sub(c, dl)), x))
        if c.ty is PY:
            P = core.py_sort()
            eo = CTX.func("empty_obj", z3.IntSort(), z3.IntSort())
            not_empty = z3.And([c.t != P.PObj(eo(z3.IntVal(i))) for i in range(3)] + [c.t != P.PNone])
            return z3.And(not_empty, core.ufun("py_contains", [c, core.to_py(x)], BOOL).t)
        return core.contains(c, x)

    # -- dict-like opaque values (documents: nested mappings whose leaves are opaque) ----------------------------------
    def dictlike(self, ty):
        if isinstance(ty, Opt):
            ty = ty.elem
        return getattr(self.reg, "dictlike", {}).get(ty.name) if isinstance(ty, U) else None

    def dl_ismap(self, v, dl):
        if isinstance(v.ty, Opt):
            return z3.And(z3.Not(core.ois_none(v)), self.dl_ismap(core.oval(v), dl))
        return core.ufun("sf_" + dl["is_map"], [v], BOOL).t

    def dl_sub(self, v, dl):
        if isinstance(v.ty, Opt):
            v = core.oval(v)
        return core.ufun("sf_" + dl["sub"], [v], Map(STR, v.ty))

    def dl_mk(self, m, dl, st):
        """node made from a mapping: sub(mk(m)) == m and is_map(mk(m)) (ground instances of the constructor axioms)"""
        nty = m.ty.v
        n = core.ufun("sf_" + dl["mk"], [m], nty)
        st.assume(core.ufun("sf_" + dl["is_map"], [n], BOOL).t, core.map_eq(core.ufun("sf_" + dl["sub"], [n], m.ty), m))
        return n

    def ex_BinOp(self, e, st):
        res = []
        for st1, (a, b) in self.ev_list([e.left, e.right], st):
            res.extend(self.binop(e.op, a, b, st1, e))
        return res

    def binop(self, op, a, b, st, node):
        if a.ty is STATIC and isinstance(op, ast.Add) and b.ty is STATIC:
            return [(st, V(STATIC, None, a.items + b.items))]
        if a.ty is STATIC and isinstance(b.ty, List):
            a = self.adapt(a, b.ty)
        if b.ty is STATIC and isinstance(a.ty, List):
            b = self.adapt(b, a.ty)
        if isinstance(a.ty, List) and isinstance(b.ty, Opt) and b.ty.elem == a.ty:
            self.notes.append("list + optional list: the optional operand is taken as present (None would be a TypeError)")
            b = core.oval(b)
        if a.ty is EMPTY_LIST and isinstance(b.ty, List):
            a = self.adapt(a, b.ty)
        if b.ty is EMPTY_LIST and isinstance(a.ty, List):
            b = self.adapt(b, a.ty)
        if isinstance(op, ast.Mod) and a.ty is STR:
            self.notes.append("% string formatting is an uninterpreted function of its arguments")
            if isinstance(getattr(node, "left", None), ast.Constant) and isinstance(node.left.value, str):
                # constant format string: a deterministic (uninterpreted) function of the arguments
                items = b.items if (b.items is not None and b.ty is not STATIC) else ([b] if b.ty is not STATIC else b.items)
                try:
                    args2 = [i if i.ty in (INT, STR, BOOL, PY) else core.to_py(i) for i in items]
                    return [(st, core.ufun("fmt_" + core._mangle(node.left.value)[:24], args2, STR))]
                except OutsideSubset:
                    pass
            return [(st, fresh(STR, "fmt"))]
        if a.ty in (INT, BOOL) and b.ty in (INT, BOOL):
            x, y = coerce(a, INT).t, coerce(b, INT).t
            if isinstance(op, ast.Add):
                return [(st, V(INT, x + y))]
            if isinstance(op, ast.Sub):
                return [(st, V(INT, x - y))]
            if isinstance(op, ast.Mult):
                return [(st, V(INT, x * y))]
            if isinstance(op, (ast.FloorDiv, ast.Mod)):
                ok, bad = self.fork(st, y != 0, getattr(node, "lineno", None), "div") if not self.in_spec else (st, None)
                if bad is not None:
                    self.do_raise(bad, "ZeroDivisionError")
                if ok is None:
                    return []
                # python floor semantics
                q = z3.If(y > 0, x / y, -((-x) / (-y))) if False else None
                fl = z3.If(z3.And(x % y != 0, y < 0), x / y, x / y)
                if isinstance(op, ast.FloorDiv):
                    return [(ok, V(INT, _floordiv(x, y)))]
                return [(ok, V(INT, x - y * _floordiv(x, y)))]
        if a.ty is REAL or b.ty is REAL:
            x = z3.ToReal(a.t) if a.ty is INT else a.t
            y = z3.ToReal(b.t) if b.ty is INT else b.t
            if isinstance(op, ast.Add):
                return [(st, V(REAL, x + y))]
            if isinstance(op, ast.Sub):
                return [(st, V(REAL, x - y))]
            if isinstance(op, ast.Mult):
                return [(st, V(REAL, x * y))]
        if a.ty is STR and b.ty is STR and isinstance(op, ast.Add):
            return [(st, core.str_concat(a, b))]
        if isinstance(a.ty, List) and a.ty == b.ty and isinstance(op, ast.Add):
            return [self.list_concat(a, b, st)]
        if isinstance(a.ty, Set) and a.ty == b.ty:
            if isinstance(op, ast.Sub):
                return [(st, core.sdiff(a, b))]
            if isinstance(op, ast.BitOr):
                return [(st, core.sunion(a, b))]
            if isinstance(op, ast.BitAnd):
                return [(st, core.sinter(a, b))]
        if isinstance(a.ty, Set) and b.ty in (EMPTY_SET, EMPTY_LIST, EMPTY_DICT):
            return [(st, a)] if isinstance(op, (ast.Sub, ast.BitOr)) else [(st, core.sempty(a.ty.elem))]
        if (a.ty is PY or b.ty is PY) and isinstance(op, ast.Add) and a.ty in (PY, STR, INT, BOOL) and b.ty in (PY, STR, INT, BOOL):
            P = core.py_sort()
            pa, pb = core.to_py(a), core.to_py(b)
            both_str = z3.And(P.is_PStr(pa.t), P.is_PStr(pb.t))
            both_num = z3.And(core.py_isnum(pa.t), core.py_isnum(pb.t))
            res = []
            if self.in_spec:
                cat = core.str_concat(V(STR, P.s(pa.t)), V(STR, P.s(pb.t)))
                return [(st, V(PY, z3.If(both_str, P.PStr(cat.t), P.PInt(core.py_num(pa.t) + core.py_num(pb.t)))))]
            s1, rest = self.fork(st, both_str, getattr(node, "lineno", None), "str+str")
            if s1 is not None:
                cat = core.str_concat(V(STR, P.s(pa.t)), V(STR, P.s(pb.t)))
                res.append((s1, V(PY, P.PStr(cat.t))))
            if rest is not None:
                s2, bad = self.fork(rest, both_num, getattr(node, "lineno", None), "num+num")
                if s2 is not None:
                    res.append((s2, V(PY, P.PInt(core.py_num(pa.t) + core.py_num(pb.t)))))
                if bad is not None:
                    self.do_raise(bad, "TypeError")
            return res
        hook = self._op_hook(type(op).__name__, a, b)
        if hook is not None:
            return [(st, hook)]
        raise OutsideSubset("binary %s on %r, %r" % (type(op).__name__, a.ty, b.ty))

    def list_concat(self, a, b, st):
        r = fresh(a.ty, "cat")
        st = st.copy()
        st.assume(core.llen(r) == core.llen(a) + core.llen(b),
                  core.forall_int(0, core.llen(a), lambda j: z3.Select(core.larr(r), j) == z3.Select(core.larr(a), j)),
                  core.forall_int(core.llen(a), core.llen(a) + core.llen(b),
                                  lambda k: z3.Select(core.larr(r), k) == z3.Select(core.larr(b), k - core.llen(a))),
                  # the same fact, triggered from the second operand's side
                  core.forall_int(0, core.llen(b), lambda j: z3.Select(core.larr(b), j) == z3.Select(core.larr(r), core.llen(a) + j),
                                  pats=lambda j: [z3.Select(core.larr(b), j)]))
        return (st, r)

    # -- subscripts -----------------------------------------------------------------------------------
    def norm_index(self, c, k):
        i = coerce(k, INT).t
        s = z3.simplify(i)
        if z3.is_int_value(s) and s.as_long() < 0:
            return core.llen(c) + i
        if z3.is_int_value(s) or self.in_spec:
            return i        # in specifications symbolic indices are taken as non-negative positions
        return z3.If(i < 0, core.llen(c) + i, i)

    def ex_Subscript(self, e, st):
        res = []
        for st1, c in self.ev(e.value, st):
            if isinstance(e.slice, ast.Slice):
                res.extend(self.do_slice(c, e.slice, st1, e))
                continue
            dd = self.defaultdict_default(e.value, st1)
            if dd is None and isinstance(c.ty, Map):
                dd = getattr(self.reg, "defaultdict_types", {}).get(c.ty.key)
            for st2, k in self.ev(e.slice, st1):
                if dd is not None and isinstance(c.ty, Map):
                    # defaultdict read: the default value where the key is absent (key insertion by reads not modelled)
                    dv = self.adapt(self.spec(dd, State()), c.ty.v)
                    res.append((st2, self._select(core.mhas(c, k), core.mget(c, k), dv)))
                    continue
                res.extend(self.subscript(c, k, st2, e))
        return res

    def defaultdict_default(self, node, st):
        dds = getattr(self.reg, "defaultdicts", {})
        if isinstance(node, ast.Name) and node.id in dds and node.id not in st.env:
            return dds[node.id]
        if isinstance(node, ast.Attribute) and self.dotted(node, st) is None:
            try:
                objs = self.ev(node.value, st.copy())
            except OutsideSubset:
                return None
            if len(objs) == 1 and isinstance(objs[0][1].ty, Ref):
                return dds.get("%s.%s" % (objs[0][1].ty.cls, node.attr))
        return None

    def subscript(self, c, k, st, node):
        line = getattr(node, "lineno", None)
        if c.ty is STATIC or isinstance(c.ty, Tup):
            s = z3.simplify(coerce(k, INT).t)
            if not z3.is_int_value(s):
                if c.ty is STATIC and c.items:
                    return self.subscript(self.adapt(c, List(c.items[0].ty)), k, st, node)
                raise OutsideSubset("symbolic index into tuple")
            items = c.items if c.items is not None else [core.tget(c, i) for i in range(len(c.ty.elems))]
            return [(st, items[s.as_long()])]
        if isinstance(c.ty, List):
            idx = self.norm_index(c, k)
            if self.in_spec:
                return [(st, core.lget(c, idx))]
            ok, bad = self.fork(st, z3.And(idx >= 0, idx < core.llen(c)), line, "idx")
            if bad is not None:
                self.do_raise(bad, "IndexError")
            return [(ok, core.lget(c, idx))] if ok is not None else []
        if isinstance(c.ty, Map):
            if self.in_spec:
                return [(st, core.mget(c, k))]
            ok, bad = self.fork(st, core.mhas(c, k), line, "key")
            if bad is not None:
                self.do_raise(bad, "KeyError")
            return [(ok, core.mget(c, k))] if ok is not None else []
        if isinstance(c.ty, Ref):
            return self.call_method(c, "__getitem__", [k], {}, st, node)
        dl = self.dictlike(c.ty)
        if dl is not None and not isinstance(c.ty, Opt) and k.ty is STR:
            sub = self.dl_sub(c, dl)
            if self.in_spec:
                return [(st, core.mget(sub, k))]
            ok, bad = self.fork(st, z3.And(self.dl_ismap(c, dl), core.mhas(sub, k)), line, "dockey")
            if bad is not None:
                self.do_raise(bad, "Exception")       # KeyError (missing) or TypeError (not a mapping)
            return [(ok, core.mget(sub, k))] if ok is not None else []
        if isinstance(c.ty, Opt):
            if self.in_spec:
                return self.subscript(core.oval(c), k, st, node)
            a, b = self.fork(st, core.ois_none(c), line, "none-sub")
            if a is not None:
                self.do_raise(a, "TypeError")
            return self.subscript(core.oval(c), k, b, node) if b is not None else []
        if c.ty is STR:
            if CTX.strmode == "z3":
                i = coerce(k, INT).t
                if not self.in_spec:
                    ok, bad = self.fork(st, z3.And(i >= 0, i < z3.Length(c.t)), line, "stridx")
                    if bad is not None:
                        self.do_raise(bad, "IndexError")
                    if ok is None:
                        return []
                    st = ok
                return [(st, V(STR, z3.SubString(c.t, i, 1)))]
            self.notes.append("string indexing is uninterpreted")
            return [(st, core.ufun("str_at", [c, coerce(k, INT)], STR))]
        if c.ty is PY:
            self.notes.append("subscript on a dynamic value is uninterpreted (may raise)")
            if not self.in_spec:
                self.do_raise(st, "Exception")
            return [(st, core.ufun("py_getitem", [c, core.to_py(k)], PY))]
        raise OutsideSubset("subscript on %r" % (c.ty,))

    def do_slice(self, c, sl, st, node):
        if sl.step is not None:
            # only the full reversal l[::-1] of a list: same length, element k is element len-1-k (a function of the list)
            stp = sl.step
            is_m1 = isinstance(stp, ast.UnaryOp) and isinstance(stp.op, ast.USub) and isinstance(stp.operand, ast.Constant) and stp.operand.value == 1
            if not (is_m1 and sl.lower is None and sl.upper is None and isinstance(c.ty, List)):
                raise OutsideSubset("slice step")
            r = core.ufun("reversed_list", [c], c.ty)
            n = core.llen(c)
            CTX.axioms.append(core.llen(r) == n)
            CTX.axioms.append(core.forall_int(0, n, lambda j: z3.Select(core.larr(r), j) == z3.Select(core.larr(c), n - 1 - j)))
            return [(st, r)]
        if isinstance(c.ty, Opt):
            if self.in_spec:
                return self.do_slice(core.oval(c), sl, st, node)
            a, b = self.fork(st, core.ois_none(c), getattr(node, "lineno", None), "none-slice")
            if a is not None:
                self.do_raise(a, "TypeError")
            return self.do_slice(core.oval(c), sl, b, node) if b is not None else []
        if c.ty is STATIC:
            c = self.adapt(c, List(c.items[0].ty))
        res = []
        los = self.ev(sl.lower, st) if sl.lower is not None else [(st, None)]
        for st1, lo in los:
            his = self.ev(sl.upper, st1) if sl.upper is not None else [(st1, None)]
            for st2, hi in his:
                if isinstance(c.ty, List):
                    n = core.llen(c)
                    def nrm_l(v, n=n):
                        i = coerce(v, INT).t
                        return _clamp(z3.If(i < 0, n + i, i), n)        # the same normal form in code and in specifications
                    lo_t = z3.IntVal(0) if lo is None else nrm_l(lo)
                    hi_t = n if hi is None else nrm_l(hi)
                    ln = z3.If(hi_t > lo_t, hi_t - lo_t, z3.IntVal(0))
                    # a slice is a function of (list, bounds): identical terms give the identical result symbol
                    memo = self.__dict__.setdefault("_slice_memo", [])
                    lo_s, hi_s = z3.simplify(lo_t), z3.simplify(hi_t)
                    r = None
                    for (c2, lo2, hi2, r2) in memo:
                        if c2.eq(c.t) and lo2.eq(lo_s) and hi2.eq(hi_s):
                            r = r2
                    if r is None:
                        r = fresh(c.ty, "slice")
                        memo.append((c.t, lo_s, hi_s, r))
                    st3 = st2.copy()
                    st3.assume(core.llen(r) == ln,
                               core.forall_int(0, core.llen(r), lambda j: z3.Select(core.larr(r), j) == z3.Select(core.larr(c), lo_t + j)))
                    res.append((st3, r))
                elif c.ty is STR and CTX.strmode == "z3":
                    n = z3.Length(c.t)
                    def nrm(v):
                        i = coerce(v, INT).t
                        i = z3.If(i < 0, n + i, i)
                        return _clamp(i, n)
                    lo_t = z3.IntVal(0) if lo is None else nrm(lo)
                    hi_t = n if hi is None else nrm(hi)
                    res.append((st2, V(STR, z3.SubString(c.t, lo_t, z3.If(hi_t > lo_t, hi_t - lo_t, z3.IntVal(0))))))
                elif c.ty is STR:
                    self.notes.append("string slicing is uninterpreted")
                    args = [c, lo if lo is not None else mk_int(0), hi if hi is not None else mk_int(-999999)]
                    res.append((st2, core.ufun("str_slice", [coerce(a, a.ty) for a in args], STR)))
                else:
                    raise OutsideSubset("slice of %r" % (c.ty,))
        return res

    # -- comprehensions ---------------------------------------------------------------------------
    def ex_ListComp(self, e, st):
        return self.comprehension(e, st, "list")

    def ex_GeneratorExp(self, e, st):
        return self.comprehension(e, st, "list")

    def ex_SetComp(self, e, st):
        return self.comprehension(e, st, "set")

    def ex_DictComp(self, e, st):
        return self.comprehension(e, st, "dict")

    def comprehension(self, e, st, kind):
        """First-order meaning of a single-generator comprehension (DESIGN 2.4).  The element and
        filter expressions must be total (evaluated in specification mode)."""
        if len(e.generators) != 1:
            raise OutsideSubset("nested comprehension generators")
        g = e.generators[0]
        keyed = self._keyed_comprehension(e, g, st, kind)
        if keyed is not None:
            return keyed
        res = []
        for st1, seq in self.ev_iter(g.iter, st):
            if seq.ty is STATIC:
                if not seq.items:
                    res.append((st1, V({"list": EMPTY_LIST, "set": EMPTY_SET, "dict": EMPTY_DICT}[kind], None)))
                    continue
                seq = self.adapt(seq, List(seq.items[0].ty))
            out = self._comp(e, g, seq, st1, kind)
            if out is not None:
                res.append(out)
        return res

    def _keyed_comprehension(self, e, g, st, kind):
        """Comprehension over `m.items()` / a dict / a set whose result is keyed by the iterated key itself:
        characterised per key (no positions, no order)."""
        it = g.iter
        src_node, mode = None, None
        if isinstance(it, ast.Call) and isinstance(it.func, ast.Attribute) and it.func.attr == "items" and not it.args \
                and isinstance(g.target, ast.Tuple) and len(g.target.elts) == 2 and all(isinstance(t, ast.Name) for t in g.target.elts):
            src_node, mode, keyname = it.func.value, "items", g.target.elts[0].id
        elif isinstance(g.target, ast.Name):
            src_node, mode, keyname = it, "keys", g.target.id
        else:
            return None
        if kind == "dict":
            if not (isinstance(e.key, ast.Name) and e.key.id == keyname):
                return None
        elif kind == "set":
            if not (isinstance(e.elt, ast.Name) and e.elt.id == keyname):
                return None
        else:
            return None
        res = []
        for st1, src in self.ev(src_node, st):
            if mode == "items" and not isinstance(src.ty, Map):
                return None
            if mode == "keys" and isinstance(src.ty, List):
                src = core.elems(src)       # keyed by the element itself: duplicates do not matter
            if mode == "keys" and not isinstance(src.ty, (Map, Set)):
                return None
            dom = core.mdom(src) if isinstance(src.ty, Map) else src
            kty = dom.ty.elem

            def at(k, st1=st1, src=src):
                s2 = st1.copy()
                s2.written = None
                s2.env[keyname] = V(kty, k)
                if mode == "items":
                    s2.env[g.target.elts[1].id] = core.mget(src, V(kty, k))
                self.spec_depth += 1
                n0 = len(self.spec_defs)
                try:
                    cond = z3.And([truthy(self.ev1(c, s2)) for c in g.ifs] or [z3.BoolVal(True)])
                    val = self.ev1(e.value, s2) if kind == "dict" else None
                    self.no_defs_under_binder(n0)
                finally:
                    self.spec_depth -= 1
                return cond, val
            if kind == "set":
                res.append((st1, core.svirt(kty, lambda k, dom=dom, at=at: z3.And(core.smem_t(dom, k), at(k)[0]))))
                continue
            _, proto = at(z3.Const("comp!kprobe_" + core._mangle(kty.key), CTX.sort(kty)))
            vty = proto.ty
            if vty in (EMPTY_SET, EMPTY_LIST, EMPTY_DICT):
                proto = self._empty({EMPTY_SET: "set", EMPTY_LIST: "list", EMPTY_DICT: "dict"}[vty])
                vty = proto.ty
                if vty in (EMPTY_SET, EMPTY_LIST, EMPTY_DICT):
                    raise OutsideSubset("dict comprehension with untyped empty values (declare `empties` in the sidecar)")
            r = fresh(Map(kty, vty), "dcomp")
            st2 = st1.copy()

            def val_eq(k, at=at, vty=vty, r=r):
                v = at(k)[1]
                if v.ty in (EMPTY_SET, EMPTY_LIST, EMPTY_DICT):
                    v = self._empty({EMPTY_SET: "set", EMPTY_LIST: "list", EMPTY_DICT: "dict"}[v.ty])
                cell = z3.Select(core.mval(r), k)
                if isinstance(v.ty, Set) and core.is_virt(v):
                    return core.forall_ty(v.ty.elem, lambda x: z3.Select(cell, x) == core.smem_t(v, x))
                return core.eq_t(vty, cell, self._tpk(v, vty).t)
            st2.assume(core.forall_ty(kty, lambda k: core.smem_t(core.mdom(r), k) == z3.And(core.smem_t(dom, k), at(k)[0])),
                       core.forall_ty(kty, lambda k: z3.Implies(z3.And(core.smem_t(dom, k), at(k)[0]), val_eq(k))))
            res.append((st2, r))
        return res

    def _bind_elem(self, target, elem, st):
        sts = self.assign(target, self._elem_form(elem), st, None)
        assert len(sts) == 1
        return sts[0]

    def _comp(self, e, g, seq, st, kind):
        st = st.copy()
        n = core.llen(seq)
        saved_written = st.written
        st.written = None

        as_code = not self.in_spec
        last_raises = []

        def at(j):
            s2 = self._bind_elem(g.target, core.lget(seq, j), st.copy())
            self.spec_depth += 1
            n0 = len(self.spec_defs)
            saved_collect = getattr(self, "comp_collect", None)
            self.comp_collect = [] if as_code else None
            try:
                cond = z3.And([truthy(self.ev1(c, s2)) for c in g.ifs] or [z3.BoolVal(True)])
                if kind == "dict":
                    val = (self.ev1(e.key, s2), self.ev1(e.value, s2))
                else:
                    val = self.ev1(e.elt, s2)
                self.no_defs_under_binder(n0)
                last_raises[:] = self.comp_collect or []
            finally:
                self.spec_depth -= 1
                self.comp_collect = saved_collect
            return cond, val

        def raises_at(j):
            c, _ = at(j)
            return z3.And(c, z3.Or([t for _, t in last_raises]))

        J0 = z3.Int("comp!probe")
        pc0, proto = at(J0)
        st.written = saved_written
        if as_code and last_raises:
            # an element evaluation that raises ends the comprehension: split on "some position that passes the filter raises"
            ename = last_raises[0][0]
            bad, ok = self.fork(st, core.exists_int(0, n, raises_at), getattr(e, "lineno", None), "comp-raise")
            if bad is not None:
                bad = bad.copy()
                self.do_raise(bad, self.new_exc(ename, bad, exact=False))
            if ok is None:
                return None
            st = ok.copy()
            st.assume(core.forall_int(0, n, lambda j: z3.Not(raises_at(j))))
        # a comprehension is a function of its source and of its filter / element expressions: identical
        # (hash-consed) terms give the identical result symbol
        pv = proto if isinstance(proto, tuple) else (proto,)
        try:
            terms = [seq.t, z3.simplify(pc0)] + [self._tpk(x, x.ty).t for x in pv]
            key = (kind,) + tuple(t.hash() for t in terms)
        except (OutsideSubset, AttributeError):
            key = None
        memo = self.__dict__.setdefault("_comp_memo", {})
        if key is not None:
            for terms2, r, facts in memo.get(key, []):
                if len(terms2) == len(terms) and all(a.eq(b) for a, b in zip(terms, terms2)):
                    st.assume(*facts)
                    return (st, r)
            # same source and element, filter conditions equivalent for every position (decided by the solver)
            for k2, entries in memo.items():
                for terms2, r, facts in entries:
                    if k2[0] == kind and len(terms2) == len(terms) and terms[0].eq(terms2[0]) and \
                            all(a.eq(b) for a, b in zip(terms[2:], terms2[2:])) and not st.dry:
                        sv = z3.Solver()
                        sv.set("timeout", 2000)
                        sv.add(*CTX.axioms)
                        sv.add(*st.pc)
                        sv.add(terms[1] != terms2[1])
                        if sv.check() == z3.unsat:
                            st.assume(*facts)
                            return (st, r)
        n_pc = len(st.pc)
        if kind == "list" and getattr(seq, "tag", None) == "arbitrary-order" and self.contract is not None \
                and getattr(self.contract, "order_insensitive", False) and not st.dry and not self.in_spec:
            # an ordered result built from an unordered source depends on the iteration order (hence on the hash seed)
            # unless at most one element passes the filter
            goal = core.forall_int(0, n, lambda a: core.forall_int(0, n, lambda b: z3.Implies(a < b, z3.Not(z3.And(at(a)[0], at(b)[0])))))
            self.oblige(st, "deterministic", "L%s" % getattr(e, "lineno", "?"),
                        "the list built at line %s from a set/dict iteration does not depend on the iteration order "
                        "(at most one element passes, or the source is ordered)" % getattr(e, "lineno", "?"), goal, getattr(e, "lineno", None))
        out = self._comp_build(e, g, seq, st, kind, at, proto, n)
        if key is not None:
            memo.setdefault(key, []).append((terms, out[1], list(out[0].pc[n_pc:])))
        return out

    def _comp_build(self, e, g, seq, st, kind, at, proto, n):
        if kind == "list":
            proto = self._pack_static(proto)
            ety = proto.ty
            r = fresh(List(ety), "comp")
            st.assume(*wf(r))
            if not g.ifs:
                st.assume(core.llen(r) == n,
                          core.forall_int(0, n, lambda j: core.eq_t(ety, z3.Select(core.larr(r), j), self._tpk(at(j)[1], ety).t)))
                return (st, r)
            idx = CTX.func(CTX.fresh("cidx"), z3.IntSort(), z3.IntSort())
            inv = CTX.func(CTX.fresh("cinv"), z3.IntSort(), z3.IntSort())
            m = core.llen(r)
            st.assume(m <= n,
                      core.forall_int(0, m, lambda j: z3.And(idx(j) >= 0, idx(j) < n, at(idx(j))[0], inv(idx(j)) == j,
                                                             core.eq_t(ety, z3.Select(core.larr(r), j), self._tpk(at(idx(j))[1], ety).t))),
                      core.forall_int(0, m, lambda j: z3.Implies(j + 1 < m, idx(j) < idx(j + 1))),
                      core.forall_int(0, n, lambda i: z3.Implies(at(i)[0], z3.And(inv(i) >= 0, inv(i) < m, idx(inv(i)) == i))))
            return (st, r)
        if kind == "set":
            ety = proto.ty
            return (st, core.svirt(ety, lambda x: core.exists_int(0, n, lambda j: z3.And(at(j)[0], self._tpk(at(j)[1], ety).t == x))))
        # dict: keys must be distinct across the source (true for comprehensions over dict items keyed by the key)
        kty, vty = proto[0].ty, proto[1].ty
        r = fresh(Map(kty, vty), "dcomp")
        st.assume(core.forall_ty(kty, lambda k: core.smem_t(core.mdom(r), k) ==
                                 core.exists_int(0, n, lambda j: z3.And(at(j)[0], at(j)[1][0].t == k))),
                  core.forall_int(0, n, lambda j: z3.Implies(
                      z3.And(at(j)[0], core.forall_int(j + 1, n, lambda j2: z3.Not(z3.And(at(j2)[0], at(j2)[1][0].t == at(j)[1][0].t)))),
                      core.eq_t(vty, z3.Select(core.mval(r), at(j)[1][0].t), self._tpk(at(j)[1][1], vty).t))))
        return (st, r)

    def _tpk(self, v, ty):
        v = self.adapt(v, ty) if v.ty != ty else v
        if isinstance(v.ty, Tup):
            v = core.tpack(v)
        if isinstance(v.ty, Set) and core.is_virt(v):
            raise OutsideSubset("virtual set as comprehension element")
        return v

    def ex_Lambda(self, e, st):
        return [(st, V(CLOSURE, None, (e, dict(st.env), "<lambda>")))]


def _floordiv(x, y):
    # z3 integer division is Euclidean for positive divisors; python floors
    return z3.If(y > 0, x / y, z3.If(x % y == 0, x / y, x / y - 1))


def _clamp(i, n):
    return z3.If(i < 0, z3.IntVal(0), z3.If(i > n, n, i))


def _same_store(a, b):
    if len(a.env) != len(b.env) or len(a.heap) != len(b.heap) or len(a.glob) != len(b.glob):
        return False
    for k, v in a.env.items():
        if b.env.get(k) is not v:
            return False
    for k, v in a.heap.items():
        if b.heap.get(k) is not v:
            return False
    for k, v in a.glob.items():
        if b.glob.get(k) is not v:
            return False
    return len(a.pc) == len(b.pc)


def join_ty(a, b):
    if a == b:
        return a
    if isinstance(a, U) and b is EMPTY_DICT:
        return a
    if isinstance(b, U) and a is EMPTY_DICT:
        return b
    if isinstance(a, Opt) and isinstance(a.elem, U) and b is EMPTY_DICT:
        return a
    if a is NONE and b is PY:
        return PY
    if a is NONE:
        return b if isinstance(b, Opt) else (Opt(b) if b not in (EMPTY_LIST, EMPTY_DICT, EMPTY_SET, STATIC) else None)
    if b is NONE:
        return join_ty(b, a)
    if isinstance(a, Opt) and (a.elem == b or b in (EMPTY_LIST, EMPTY_DICT, EMPTY_SET, STATIC)):
        return a
    if isinstance(b, Opt) and (b.elem == a or a in (EMPTY_LIST, EMPTY_DICT, EMPTY_SET, STATIC)):
        return b
    if a is PY and (b in (INT, BOOL, STR, NONE, EMPTY_LIST, EMPTY_DICT, EMPTY_SET) or isinstance(b, (Ref, U))):
        return PY
    if b is PY and (a in (INT, BOOL, STR, NONE, EMPTY_LIST, EMPTY_DICT, EMPTY_SET) or isinstance(a, (Ref, U))):
        return PY
    if isinstance(a, (List, Set, Map)) and b in (EMPTY_LIST, EMPTY_DICT, EMPTY_SET, STATIC):
        return a
    if isinstance(b, (List, Set, Map)) and a in (EMPTY_LIST, EMPTY_DICT, EMPTY_SET, STATIC):
        return b
    if {a, b} == {INT, BOOL}:
        return INT
    if a in (INT, BOOL, STR, NONE) and b in (INT, BOOL, STR, NONE):
        return PY
    return None
