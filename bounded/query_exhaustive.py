"""BOUNDED stand-in (never counted as proved) for C20:
 (1) interpreted vs compiled boolean algebra: every term of depth <= D over non-raising leaf predicates (plain and case-insensitive),
     TRUE/FALSE, Any/All (1-2 operands), Not - `bool(b.test(v)) == bool(b.to_pyfunc()(v))` on a fixed value set;
 (2) select/find on every forest with <= N nodes (names a/b, attrs (), (1,), (1, 2)) under one document root, against a reference written
     from the property statement: one- and two-level queries from literals, tuples, None, predicates and boolean combinations; all four
     deep/roots combinations; node identity lists compared.
usage: /venv/bin/python query_exhaustive.py <repo root> <N> <D> ; exit 1 + JSON line with a witness on a mismatch."""
import itertools, json, sys
root, N, D = sys.argv[1], int(sys.argv[2]), int(sys.argv[3])
sys.path.insert(0, root)
from insights.parsr.query import Entry, compile_queries, select, startswith, eq, lt, ieq, istartswith
from insights.parsr.query.boolean import TRUE, FALSE, Any, All, Not, pred, pred2


def fail(**kw):
    print(json.dumps(kw, default=repr))
    sys.exit(1)


# ---------------------------------------------------------------- (1) interpreted vs compiled
is_a = pred(lambda v: v == "a")
has_b = pred(lambda v: "b" in str(v))
ci_ab = pred(lambda v: v == "ab", ignore_case=True)
none_ = pred(lambda v: None)                 # falsy non-bool result
# library predicates in their case-sensitive and case-insensitive forms over the same (lowered) argument: one expression may hold both
LEAVES = [("is_a", is_a), ("has_b", has_b), ("ci_ab", ci_ab), ("none", none_), ("TRUE", TRUE), ("FALSE", FALSE),
          ("eq('ab')", eq("ab")), ("ieq('AB')", ieq("AB")), ("startswith('a')", startswith("a")), ("istartswith('A')", istartswith("A"))]
VALUES = ["a", "b", "ab", "AB", "Ab", "", 1]


def terms(d):
    if d == 0:
        return list(LEAVES)
    sub = terms(d - 1)
    out = list(sub)
    small = sub if d == 1 else sub[:40]
    for n, t in small:
        out.append(("Not(%s)" % n, Not(t)))
    for (n1, t1), (n2, t2) in itertools.product(small, repeat=2):
        out.append(("All(%s,%s)" % (n1, n2), All(t1, t2)))
        out.append(("Any(%s,%s)" % (n1, n2), Any(t1, t2)))
    for n, t in small[:6]:
        out.append(("Any(%s)" % n, Any(t)))
        out.append(("All(%s)" % n, All(t)))
    return out


# building a combination must not change the meaning of its operands (a combination object may be reused in a second, narrower query)
for (n1, a), (n2, b), (n3, c) in itertools.product(LEAVES[:4], repeat=3):
    for op1, op2 in itertools.product("&|", repeat=2):
        base = (a & b) if op1 == "&" else (a | b)
        compiled = base.to_pyfunc()
        before = [bool(base.test(v)) for v in VALUES]
        narrow = (base & c) if op2 == "&" else (base | c)
        negated = ~base
        after = [bool(base.test(v)) for v in VALUES]
        if before != after or [bool(compiled(v)) for v in VALUES] != before or [bool(base.to_pyfunc()(v)) for v in VALUES] != before:
            fail(violation="combining a boolean expression changed the meaning of its operand", base="%s %s %s" % (n1, op1, n2), combined_with="%s %s" % (op2, n3),
                 before=before, after=after)
        want = [(x and bool(c.test(v))) if op2 == "&" else (x or bool(c.test(v))) for x, v in zip(before, VALUES)]
        if [bool(narrow.test(v)) for v in VALUES] != want or [bool(negated.test(v)) for v in VALUES] != [not x for x in before]:
            fail(violation="a combination built on a combination has the wrong meaning", base="%s %s %s" % (n1, op1, n2), combined_with="%s %s" % (op2, n3))
nterms = 0
for name, t in terms(D):
    f = t.to_pyfunc()
    nterms += 1
    for v in VALUES:
        if "startswith" in name and not isinstance(v, str):
            continue          # str.startswith raises on a non-string: the property speaks of non-raising predicates
        a, b = bool(t.test(v)), bool(f(v))
        if a != b:
            fail(violation="interpreted != compiled", term=name, value=v, interpreted=a, compiled=b)

# ---------------------------------------------------------------- (2) select against the reference
NAMES = ["a", "b"]
# "x": numeric comparisons raise on it - a predicate that raises counts as not matching THAT attribute; mixed tuples put a raising attribute
# before / after one that matches
ATTRS = [(), (1,), (1, 2), ("x",), ("x", 1)]


def forests(n):
    """parent vectors: node i has parent in {-1 (top level), 0..i-1}; children keep index order (document order)"""
    return itertools.product(*[range(-1, i) for i in range(n)])


def build(parents, names, attrs):
    nodes = [None] * len(parents)
    kids = {i: [] for i in range(-1, len(parents))}
    for i, p in enumerate(parents):
        kids[p].append(i)

    def mk(i):
        nodes[i] = Entry(name=names[i], attrs=attrs[i], children=[mk(c) for c in kids[i]])
        return nodes[i]
    doc = Entry(name="doc", children=[mk(c) for c in kids[-1]])
    return doc, nodes


def raising(v):
    raise ValueError(v)


# (query object, reference predicate on a node)
def name_is(x):
    return lambda n: n._name == x


QUERIES = [
    ("'a'", "a", name_is("a")),
    ("None", None, lambda n: True),
    ("('a', 1)", ("a", 1), lambda n: n._name == "a" and 1 in n.attrs),
    ("(None, 2)", (None, 2), lambda n: 2 in n.attrs),
    ("('b', 1, 2)", ("b", 1, 2), lambda n: n._name == "b" and (1 in n.attrs or 2 in n.attrs)),
    ("startswith('a')", startswith("a"), name_is("a")),
    ("~startswith('a')", ~startswith("a"), lambda n: n._name != "a"),
    ("eq('a') | eq('b')", eq("a") | eq("b"), lambda n: True),
    ("(None, lt(2))", (None, lt(2)), lambda n: any(isinstance(a, int) and a < 2 for a in n.attrs)),
    ("ieq('A')", ieq("A"), name_is("a")),
    ("(None, ~lt(2))", (None, ~lt(2)), lambda n: any(isinstance(a, int) and not a < 2 for a in n.attrs)),
    ("(None, ~lt(2) & ~lt(0))", (None, ~lt(2) & ~lt(0)), lambda n: any(isinstance(a, int) and not a < 2 and not a < 0 for a in n.attrs)),
    ("(None, ~(lt(2) | lt(0)))", (None, ~(lt(2) | lt(0))), lambda n: any(isinstance(a, int) and not (a < 2 or a < 0) for a in n.attrs)),
    ("callable", lambda name: name == "b", name_is("b")),
    ("raising callable", raising, lambda n: False),
    ("(None, raising)", (None, raising), lambda n: False),
    # a plain callable in an attribute position that raises on some attributes (int has no startswith / str cannot be compared with an int)
    ("(None, callable lt 2)", (None, lambda v: v < 2), lambda n: any(isinstance(a, int) and a < 2 for a in n.attrs)),
    ("(None, callable startswith x)", (None, lambda v: v.startswith("x")), lambda n: any(isinstance(a, str) and a.startswith("x") for a in n.attrs)),
    ("('a', callable lt 2, 2)", ("a", lambda v: v < 2, 2), lambda n: n._name == "a" and any((isinstance(a, int) and a < 2) or a == 2 for a in n.attrs)),
]


def preorder(ns):
    out = []
    for n in ns:
        out.append(n)
        out.extend(preorder(n.children))
    return out


def ultimate(n):
    p = n.parent
    while p is not None and p.parent is not None:
        p = p.parent
    return p


def reference(top, qs, deep, roots):
    level = [n for n in (preorder(top) if deep else top) if qs[0][2](n)]
    for q in qs[1:]:
        level = [c for n in level for c in n.children if q[2](c)]
    if not roots:
        return level
    out = []
    for r in level:
        u = ultimate(r)
        if not any(u is x for x in out):
            out.append(u)
    return out


ncalls = 0
for n in range(0, N + 1):
    for parents in forests(n):
        for names in itertools.product(NAMES, repeat=n):
            for attrs in itertools.product(ATTRS, repeat=n):
                doc, nodes = build(parents, names, attrs)
                top = doc.children
                for qs in [[q] for q in QUERIES] + [[a, b] for a in QUERIES[:5] for b in QUERIES[:4]]:
                    cq = compile_queries(*[q[1] for q in qs])
                    for deep in (False, True):
                        for roots in (False, True):
                            got = list(select(cq, top, deep=deep, roots=roots).children)
                            want = reference(top, qs, deep, roots)
                            ncalls += 1
                            if len(got) != len(want) or any(g is not w for g, w in zip(got, want)):
                                idx = lambda l: [("doc" if x is doc else None if x is None else nodes.index(x)) for x in l]
                                fail(violation="select != reference", parents=list(parents), names=list(names), attrs=[list(a) for a in attrs],
                                     queries=[q[0] for q in qs], deep=deep, roots=roots, got=idx(got), want=idx(want))
                # the entry points agree with select on the document's children
                got = list(doc.find("a").children)
                want = reference(top, [QUERIES[0]], True, False)
                if len(got) != len(want) or any(g is not w for g, w in zip(got, want)):
                    fail(violation="Entry.find != reference", parents=list(parents), names=list(names))
print(json.dumps({"ok": True, "terms": nterms, "values": len(VALUES), "select_calls": ncalls, "max_nodes": N, "depth": D}))
