"""C14 - base parsers accept well-formed content and reject bad content as documented."""
import ast
from contracts.core_parsers import M

SIDECARS = ["core_parsers"]
UNITS = [(M, "CommandParser.validate_lines"), (M, "CommandParser.__init__"), (M, "JSONParser.parse_content"), (M, "YAMLParser.parse_content"),
         (M, "TextFileOutput.get"), (M, "TextFileOutput.__contains__"),
         (M, "TextFileOutput._valid_search.<locals>.<lambda>#0"), (M, "TextFileOutput._valid_search.<locals>.<lambda>#1"),
         (M, "LogFileOutput.get_after")]


def static_checks(repo):
    """the bad-line phrases are compared against lower-cased output: every literal must be lower case itself ('any letter case')"""
    mod = repo.module(M)
    out = []
    for name in ("CommandParser.__bad_single_lines", "CommandParser.__bad_lines"):
        vals = ast.literal_eval(mod.constant(name))
        bad = [v for v in vals if v != v.lower()]
        out.append(dict(name="%s::%s/static:lowercase" % (M, name), ok=not bad, clause="every phrase equals its lower-case form",
                        detail="literals re-read from source: %r; not lower case: %r" % (vals, bad)))
    return out


NOT_CARRIED = ["json.loads / yaml.load are uninterpreted functions of the text (or raise)",
               "TextFileOutput._valid_search: the dispatch on the kind of `s` (string / list / None / TypeError) is an assumed interface; its two "
               "closures are verified as units; `check` is an uninterpreted reducer (all / any)",
               "LogFileOutput.get_after: only the inclusion state machine (from `eleven_months = ...` to the end) is executed; the construction of the "
               "regular expression from the time format and of the strptime parser (lines before it) is not under contract: time_re, parse_fn and "
               "logs_have_year are arbitrary values there; re.search / strptime / datetime arithmetic are uninterpreted total functions",
               "the 330-day year inference is specified as written (the property only says 'with or without year, across a year boundary')",
               "'valid JSON preceded by noise lines beginning with [' (the start-line heuristic is verified as written)"]


def bounded(check):
    """bounded stand-in / native witness search on the real base parsers (also covers what the contracts leave out: json / yaml themselves, the
    regular expression built from the time format, strptime)"""
    import json, os, subprocess
    lvl = 1 if check.tier == "quick" else 2
    here = os.path.dirname(os.path.dirname(os.path.abspath(__file__)))
    p = subprocess.run(["/venv/bin/python", os.path.join(here, "bounded", "base_parsers_small_scope.py"), check.repo.root, str(lvl)],
                       stdout=subprocess.PIPE, stderr=subprocess.PIPE, universal_newlines=True, timeout=3000)
    line = (p.stdout.strip().splitlines() or ["{}"])[-1]
    try:
        info = json.loads(line)
    except ValueError:
        info = {"error": (p.stderr or p.stdout)[-400:]}
    out = dict(name="CommandParser rejects error messages / passes other output unchanged; JSON / YAML base parsers; line search; time-based search",
               level="bounded",
               bound="2 phrases x 4 case variants x 4 positions x 3 layouts; 7 JSON documents x 3 noise prefixes + 7 non-documents; 3 + 5 YAML; contents of "
                     "<= %d lines over 5 shapes x 4 searches x 6 (num, reverse); 3 time formats x 24 orders x 8 continuation patterns x 3 reference times "
                     "across a year boundary" % (3 if lvl < 2 else 4),
               result=info, violation=(p.returncode == 1), error=(p.returncode not in (0, 1)))
    if p.returncode == 1:
        os.makedirs(os.path.join(here, "replays"), exist_ok=True)
        path = os.path.join(here, "replays", "C14-bounded.json")
        json.dump(dict(obligation="bounded:base-parsers", witness=info,
                       replay_cmd="/venv/bin/python %s %s %d" % (os.path.join(here, "bounded", "base_parsers_small_scope.py"), check.repo.root, lvl)),
                  open(path, "w"), indent=1)
        out["replay"] = path
    return [out]
