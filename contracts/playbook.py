"""Sidecar contracts for the playbook verifier (C18): exclusion of dynamic elements, signature checks, revocation."""
import collections
from pyvc.dsl import *

M = "insights/client/apps/ansible/playbook_verifier/__init__.py"
Node = U("Node")
PLAY = Map(STR, Node)
LBL = "(k == 'hosts' or k == 'vars')"


def declare(reg):
    reg.sort(Str=STR, NodeT=Node)
    reg.exc_files.append(M)
    # a play is a mapping from strings to nodes; a node is a mapping (is_map / sub), a string (is_str / as_str) or something else
    reg.cls("Node", __isinstance__={"dict": "is_map(self)"})
    reg.specfun("is_map", dict(n=Node), BOOL, None)
    reg.specfun("sub", dict(n=Node), PLAY, None)
    reg.specfun("mk_node", dict(m=PLAY), Node, None)
    reg.specfun("is_str", dict(n=Node), BOOL, None)
    reg.specfun("as_str", dict(n=Node), STR, None)
    reg.specfun("empty_node", dict(), Node, None)
    reg.axiom("is_map(empty_node()) and isempty(keys(sub(empty_node())))")
    reg.axiom("forall(n, NodeT, not (is_map(n) and is_str(n)))")
    reg.dictlike = {"Node": dict(is_map="is_map", sub="sub", mk="mk_node", empty="empty_node", is_str="is_str", as_str="as_str")}
    reg.specfun("str_node", dict(s=STR), Node, None)
    reg.coercions = {(STR.key, Node.key): "str_node"}
    reg.consts["PLAYBOOK_DYNAMIC_LABELS"] = (M, "PLAYBOOK_DYNAMIC_LABELS")
    reg.consts["PLAYBOOK_SIGNATURE_LABEL"] = (M, "PLAYBOOK_SIGNATURE_LABEL")
    for n in ("logger.debug", "logger.info", "logger.warning"):
        reg.external(n, drop=True)
    reg.external("copy.deepcopy", params=dict(x=PLAY), returns=PLAY, ensures=["result == x"],
                 note="copy.deepcopy: an equal, independent copy (the argument is not modified through the copy)")
    VARS = "(play['vars'] if ('vars' in play and is_map(play['vars'])) else empty_node())"
    HAS_LIST = "('vars' in play and is_map(play['vars']) and 'insights_signature_exclude' in sub(play['vars']))"
    # an element of the exclusion list names key k / child c of key k
    ONE = "(len(segs(excl[{j}])) == 1 and segs(excl[{j}])[0] == k and " + LBL + ")"
    TWO = "(len(segs(excl[{j}])) == 2 and segs(excl[{j}])[0] == k and segs(excl[{j}])[1] == c and " + LBL + ")"
    # segs(s): the non-empty '/'-separated segments of an exclusion entry (linked to the code's comprehension by a ghost assume)
    reg.specfun("segs", dict(s=STR), List(STR), None)
    INV = [
        "exclusions == excl",
        "forall(j, range(0, i_0), (len(segs(excl[j])) == 1 or len(segs(excl[j])) == 2) and (segs(excl[j])[0] == 'hosts' or segs(excl[j])[0] == 'vars'))",
        # keys only disappear, and only 'hosts' / 'vars' named by a one-segment entry processed so far
        "forall(k, Str, implies(k in result, k in play))",
        "forall(k, Str, implies(k in play and k not in result, exists(j, range(0, i_0), %s)))" % ONE.format(j="j"),
        # a key that is still there is untouched, or it is hosts / vars, still a mapping, minus children named by two-segment entries
        "forall(k, Str, implies(k in result, result[k] == play[k] or (%s and is_map(play[k]) and is_map(result[k]) and "
        "   forall(c, Str, implies(c in sub(result[k]), c in sub(play[k]) and sub(result[k])[c] == sub(play[k])[c])) and "
        "   forall(c, Str, implies(c in sub(play[k]) and c not in sub(result[k]), exists(j, range(0, i_0), %s))))))" % (LBL, TWO.format(j="j")),
    ]
    reg.contract(M, "exclude_dynamic_elements", params=dict(play=PLAY), returns=PLAY,
                 ghosts=dict(excl=(List(STR), "[]")), locals=dict(excl=List(STR), result=PLAY, exclusions=List(STR)),
                 ghost_on=[("result = copy.deepcopy(play)", "excl = exclusions", "before"),
                           ("elements = [string for string in element.split('/') if string != '']", "assume(seq_eq(elements, segs(element)))", "after")],
                 loops={0: INV},
                 # AttributeError: the exclusion list is present but not a string
                 raises={"PlaybookVerificationError": None, "Exception": "?not %s" % HAS_LIST, "AttributeError": None},
                 ensures=[HAS_LIST] + [t.replace("i_0", "len(excl)") for t in INV[1:]],
                 ensures_raise={"PlaybookVerificationError": []})

    # ------------------------------------------------------------------ verify_play / verify
    DG = U("Digest")
    reg.cls("GpgResult", __truthy__="uf('gpg_valid', BOOL, self)")
    GR = U("GpgResult")
    reg.contracts[(M, "exclude_dynamic_elements")].ghost_final["out"] = (PLAY, "result")
    reg.external("execute_verification", params=dict(play=PLAY, encoded_signature=Node), returns=Tup(GR, DG),
                 raises={"Exception": None}, ensures=["result[1] == uf('digest', U('Digest'), play)"],
                 note="GPG verification of the SHA-256 digest of the serialised play (external): the digest is a function of the play handed in")
    SIG = "('vars' in play and is_map(play['vars']) and 'insights_signature' in sub(play['vars']))"
    reg.contract(M, "verify_play", params=dict(play=PLAY), returns=Tup(GR, DG),
                 ghost_final=dict(cleaned=(PLAY, "exclude_dynamic_elements_out")),
                 raises={"PlaybookVerificationError": None, "Exception": None},
                 ensures=[SIG,     # a play without a 'vars' mapping or without a signature never verifies
                          # the digest that is checked is the digest of the play minus exactly the declared dynamic elements
                          "result[1] == uf('digest', U('Digest'), cleaned)",
                          "forall(k, Str, implies(k in cleaned, k in play))",
                          "forall(k, Str, implies(k in play and k not in cleaned, k == 'hosts' or k == 'vars'))",
                          "forall(k, Str, implies(k in cleaned and not %s, cleaned[k] == play[k]))" % LBL,
                          ])
    REV = Map(STR, STR)
    reg.external("get_play_revocation_list", params=dict(content=PY), returns=List(REV), raises={"PlaybookVerificationError": None},
                 note="loads and verifies the shipped revocation list (its own signature is checked through verify_play)")
    reg.external("pkgutil.get_data", params=dict(a=STR, b=STR), returns=PY)
    reg.external("bytearray.fromhex", params=dict(h=STR), returns=DG, pure=True, ensures=["result == uf('fromhex', U('Digest'), h)"])
    reg.contract(M, "verify", params=dict(play=PLAY), returns=PLAY,
                 loops={0: ["forall(j, range(0, i_0), play_hash != uf('fromhex', U('Digest'), it_0[j]['hash']))",
                            "revocation_list == it_0"]},
                 locals=dict(revocation_list=List(REV)),
                 ghosts=dict(revs=(List(REV), "[]"), dg=(DG, "uf('no_digest', U('Digest'))"), ok=(BOOL, "False")),
                 ghost_on=[("logger.debug('List of revoked playbooks was loaded.')", "revs = revocation_list", "before"),
                           ("logger.info(\"Play '{name}' passed verification.\".format(name=play_name))", "dg = play_hash; ok = truthy(verified)", "before")],
                 raises={"PlaybookVerificationError": None, "Exception": None},
                 ensures=["result == play", "truthy(play)", "ok",
                          # a play whose digest is on the revocation list is rejected
                          "forall(j, range(0, len(revs)), dg != uf('fromhex', U('Digest'), revs[j]['hash']))"])
