#!/bin/bash
# run every seeded change against the check of its property (scratch copies), N at a time; one file per change under $1
OUT=${1:-/tmp/sm}; N=${2:-3}; mkdir -p $OUT
cd /verif
ls -d seeded/C*-* | xargs -P $N -I{} bash -c 'id=$(basename {}); pid=${id%-*}; if [ -f props/$pid.py ]; then tools/try_seeded.sh /verif/{}/patch.diff $pid > '$OUT'/$id.txt 2>&1; else echo no-check > '$OUT'/$id.txt; fi'
echo DONE > $OUT/DONE
