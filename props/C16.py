"""C16 - client options resolve by precedence; offline means no network."""
import collections
from contracts.client_config import M
from pyvc.dsl import Map, Set, STR, PY

SIDECARS = ["client_config"]
UNITS = [
    (M, "InsightsConfig._update_dict"),
    (M, "InsightsConfig._load_env.<locals>._boolify"),
    (M, "InsightsConfig._load_env"),
    (M, "InsightsConfig._load_command_line"),
    (M, "InsightsConfig._set_app_config"),
    (M, "InsightsConfig._determine_filename_and_extension"),
    (M, "InsightsConfig._imply_options"),
    (M, "InsightsConfig._validate_options"),
    (M, "InsightsConfig.load_all"),
]


def _U(prev, d, nxt):
    """the postcondition of one _update_dict(d) call taking option map `prev` to `nxt` (text of the contract, renamed)"""
    acc = "(k in %s and k not in init and k in DEFAULT_OPTS)" % d
    gpg = "('no_gpg' in %s and 'no_gpg' not in init and truthy(%s['no_gpg']))" % (d, d)
    return [
        "forall(k, Str, implies(%s and not (k == 'gpg' and %s), k in %s and %s[k] is %s[k]))" % (acc, gpg, nxt, nxt, d),
        "forall(k, Str, implies(not %s and not (k == 'gpg' and %s), (k in %s) == (k in %s) and %s[k] is %s[k]))" % (acc, gpg, nxt, prev, nxt, prev),
        "forall(k, Str, implies(k in %s and k not in %s, k in DEFAULT_OPTS))" % (nxt, prev),
    ]


_T = Map(STR, PY)
LEMMAS = [dict(
    name="C16-L1-precedence",
    module=M,
    decls=collections.OrderedDict(a0=_T, a1=_T, a2=_T, a3=_T, fil=_T, env=_T, cli=_T, init=Set(STR)),
    # load_all: file, then environment, then command line (each through _update_dict)
    hyps=_U("a0", "fil", "a1") + _U("a1", "env", "a2") + _U("a2", "cli", "a3"),
    goals=[
        "forall(k, Str, implies(k in DEFAULT_OPTS and k not in init and k != 'gpg', "
        "  a3[k] is (cli[k] if k in cli else (env[k] if k in env else (fil[k] if k in fil else a0[k])))))",
        # unknown option names never become settings
        "forall(k, Str, implies(k in a3 and k not in a0, k in DEFAULT_OPTS))",
    ])]
NOT_CARRIED = ["_load_config_file (ConfigParser): an assumed contract - one _update_dict(file map) or nothing",
               "argparse / ConfigParser / os.environ deliver arbitrary maps (assumed)",
               "InsightsConfig.__init__ (defaults, kwargs) is not under contract: load_all is verified from an arbitrary option map",
               "a non-string value reaching a path-valued option makes loading fail with TypeError/AttributeError instead of ValueError "
               "(e.g. INSIGHTS_OUTPUT_DIR=true): counted as 'loading does not succeed', not as a violation"]
