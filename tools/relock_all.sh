#!/bin/bash
# regenerate obligations.lock from the current (reference) tree: only after every check passes on it
cd /verif
for p in $(python3 -c "import json; print(' '.join(c['property_id'] for c in json.load(open('MANIFEST.json'))['checks']))"); do
  timeout 3000 ./check $p --relock 2>&1 | tail -1 | cut -c1-160
done
