"""pyvc engine: symbolic execution of real function bodies against sidecar contracts, producing
named proof obligations.  Statements live here; expressions in expr.py; calls in calls.py."""
import ast
import z3
from . import core
from .core import (CTX, V, NONEV, INT, BOOL, STR, NONE, PY, EXC, REAL, U, List, Set, Map, Opt, Tup, Ref, Fn,
                   OutsideSubset, fresh, wf, truthy, coerce, mk_int, mk_bool, mk_str, mk_tuple)
from .state import State, Outcome, Obl, CLOSURE, EMPTY_LIST, EMPTY_DICT, EMPTY_SET, MODULE, STATIC
from .source import Repo, loop_ordinals
from .expr import ExprMixin
from .calls import CallMixin
from .builtins import BuiltinMixin
from .verify import VerifyMixin

BUILTIN_EXC = {
    "BaseException": None, "Exception": "BaseException",
    "ArithmeticError": "Exception", "ZeroDivisionError": "ArithmeticError", "OverflowError": "ArithmeticError",
    "AssertionError": "Exception", "AttributeError": "Exception", "EOFError": "Exception",
    "ImportError": "Exception", "LookupError": "Exception", "IndexError": "LookupError",
    "KeyError": "LookupError", "NameError": "Exception", "OSError": "Exception",
    "FileNotFoundError": "OSError", "PermissionError": "OSError", "RuntimeError": "Exception",
    "NotImplementedError": "RuntimeError", "StopIteration": "Exception", "TypeError": "Exception",
    "ValueError": "Exception", "UnicodeError": "ValueError", "UnicodeDecodeError": "UnicodeError",
    "OtherException": "Exception",
}
EXC_ALIAS = {"IOError": "OSError", "EnvironmentError": "OSError"}


class Engine(ExprMixin, CallMixin, BuiltinMixin, VerifyMixin):
    def __init__(self, reg, repo=None, scope=None, strmode="opaque"):
        self.reg = reg
        self.repo = repo or Repo()
        CTX.reset(scope=scope, strmode=strmode)
        CTX.always_truthy = set(n for n, d in reg.classes.items() if d.get("__truthy__") is True)
        self.obls = []
        self.raised = []
        self.spec_depth = 0
        self.unit = None
        self.contract = None
        self.module = None
        self.fn = None
        self.ordinals = {}
        self.loop_stack = []
        self.covers = []           # (name, hyps) reachability covers
        self.notes = []            # things dropped / assumed while executing (for evidence)
        self.prune = True
        self.spec_defs = []
        self._inst_seen = []
        self._spec_cache = {}
        self._setup_exceptions()
        self._solver = None
        self.call_depth = 0
        self.ghost_depth = 0
        for text in reg.axioms:
            st0 = State()
            g = self.spec_bool(text, st0)
            CTX.axioms.extend(st0.pc)
            CTX.axioms.append(g)

    # ------------------------------------------------------------------------------------------
    # exceptions
    # ------------------------------------------------------------------------------------------
    def _setup_exceptions(self):
        parent = dict(BUILTIN_EXC)
        parent.update(self.reg.exc_extra)
        pending = []
        for rel in self.reg.exc_files:
            for c in self.repo.module(rel).classes():
                bases = []
                for b in c.bases:
                    if isinstance(b, ast.Name):
                        bases.append(b.id)
                    elif isinstance(b, ast.Attribute):
                        bases.append(b.attr)
                pending.append((c.name, bases))
        changed = True
        while changed:
            changed = False
            for name, bases in pending:
                if name in parent:
                    continue
                for b in bases:
                    b = EXC_ALIAS.get(b, b)
                    if b in parent:
                        parent[name] = b
                        changed = True
                        break
        CTX.exc_parent = parent
        CTX.exc_classes = dict((n, i) for i, n in enumerate(sorted(parent)))
        self.exc_cls = CTX.func("exc_cls", CTX.sort(EXC), z3.IntSort())
        # only Exception subclasses are modelled as faults (DESIGN section 5.2)
        ids = [CTX.exc_classes[d] for d in CTX.exc_descendants("Exception")]
        CTX.axioms.append(core.forall_ty(EXC, lambda e: z3.Or([self.exc_cls(e) == i for i in ids])))

    def exc_name(self, n):
        return EXC_ALIAS.get(n, n)

    def is_exc_class(self, n):
        return self.exc_name(n) in CTX.exc_classes

    def exc_isinstance(self, e, clsname):
        ids = [CTX.exc_id(d) for d in CTX.exc_descendants(self.exc_name(clsname))]
        return z3.Or([self.exc_cls(e.t) == i for i in ids])

    def new_exc(self, clsname, st, exact=True):
        e = fresh(EXC, "exc_" + clsname)
        if exact:
            st.assume(self.exc_cls(e.t) == CTX.exc_id(self.exc_name(clsname)))
        else:
            st.assume(self.exc_isinstance(e, clsname))
        return e

    def exc_attr(self, e, attr, ty):
        f = CTX.func("exc_attr_" + attr, CTX.sort(EXC), CTX.sort(ty))
        return V(ty, f(e.t))

    def do_raise(self, st, clsname_or_exc):
        if isinstance(clsname_or_exc, str):
            st = st.copy()
            e = self.new_exc(clsname_or_exc, st)
        else:
            e = clsname_or_exc
        self.raised.append((st, e))

    # ------------------------------------------------------------------------------------------
    # heap
    # ------------------------------------------------------------------------------------------
    def field_ty(self, cls, f):
        fields = self.reg.classes.get(cls)
        if fields is None:
            raise OutsideSubset("class %s not declared in sidecar" % cls)
        if f in fields:
            return fields[f]
        return None

    def heap_arr(self, st, cls, f):
        key = "%s.%s" % (cls, f)
        if key not in st.heap:
            ty = self.field_ty(cls, f)
            st.heap[key] = z3.Const("H_%s%s" % (key, CTX.tag), z3.ArraySort(CTX.sort(Ref(cls)), CTX.sort(ty)))
            self.heap_wf(st.heap[key], cls, ty, CTX.axioms, key)
        return st.heap[key]

    def heap_wf(self, arr, cls, ty, sink, key=None):
        """Lists stored in heap fields have non-negative lengths (at any nesting the encoder knows)."""
        if not core._has_list(ty):
            return
        if key is not None:
            done = self.__dict__.setdefault("_heap_wf_done", set())
            if key in done:
                return
            done.add(key)
        sink.append(core.forall_ty(Ref(cls), lambda r: z3.And(wf(V(ty, z3.Select(arr, r))) or [z3.BoolVal(True)])))

    def heap_get(self, st, obj, f):
        cls = obj.ty.cls
        ty = self.field_ty(cls, f)
        if ty is None:
            dyn = self.reg.classes[cls].get("__dynamic__")
            if dyn:
                m = self.heap_get(st, obj, dyn)
                return core.mget(m, mk_str(f))
            raise OutsideSubset("field %s.%s not declared" % (cls, f))
        v = V(ty, z3.Select(self.heap_arr(st, cls, f), obj.t))
        return v

    def heap_set(self, st, obj, f, val):
        cls = obj.ty.cls
        ty = self.field_ty(cls, f)
        if ty is None:
            dyn = self.reg.classes[cls].get("__dynamic__")
            if dyn:
                m = self.heap_get(st, obj, dyn)
                return self.heap_set(st, obj, dyn, core.mstore(m, mk_str(f), val))
            raise OutsideSubset("field %s.%s not declared" % (cls, f))
        val = self.store_form(st, self.adapt(val, ty), ty)
        key = "%s.%s" % (cls, f)
        st.heap[key] = z3.Store(self.heap_arr(st, cls, f), obj.t, val.t)
        st.wrote("h", key)

    def store_form(self, st, v, ty):
        """Value in the form in which it can be stored in a z3 term (no virtual sets, packed tuples)."""
        if isinstance(v.ty, Set) and core.is_virt(v):
            v, ax = core.materialize(v)
            st.assume(*ax)
        if isinstance(v.ty, Tup):
            v = core.tpack(v)
        return v

    def adapt(self, v, ty):
        """coerce, including typed-empty placeholders."""
        if v.ty is EMPTY_LIST and isinstance(ty, List):
            return core.lempty(ty.elem)
        if v.ty is EMPTY_DICT and isinstance(ty, Map):
            return core.mempty(ty.k, ty.v)
        if v.ty is EMPTY_SET and isinstance(ty, Set):
            return core.sempty(ty.elem)
        if v.ty in (EMPTY_DICT, EMPTY_LIST) and isinstance(ty, Set):
            return core.sempty(ty.elem)
        if isinstance(ty, Opt) and v.ty in (EMPTY_LIST, EMPTY_DICT, EMPTY_SET):
            return core.osome(ty, self.adapt(v, ty.elem))
        if v.ty is STATIC and isinstance(ty, List):
            r = core.lempty(ty.elem)
            for it in v.items:
                r = core.lappend(r, self.adapt(it, ty.elem))
            return r
        if isinstance(v.ty, Map) and isinstance(ty, Set) and v.ty.k == ty.elem:
            return core.mdom(v)         # a mapping used as the set of its keys
        if v.ty is STATIC and isinstance(ty, Tup):
            return mk_tuple([self.adapt(it, e) for it, e in zip(v.items, ty.elems)])
        if v.ty is STATIC and isinstance(ty, Set):
            r = core.sempty(ty.elem)
            for it in v.items:
                r = core.sadd(r, self.adapt(it, ty.elem))
            return r
        if isinstance(v.ty, Tup) and isinstance(ty, Tup) and v.items is not None and len(v.items) == len(ty.elems) and v.ty != ty:
            return mk_tuple([self.adapt(it, e) for it, e in zip(v.items, ty.elems)])
        if isinstance(v.ty, Tup) and isinstance(ty, List):
            r = core.lempty(ty.elem)
            for i in range(len(v.ty.elems)):
                r = core.lappend(r, self.adapt(core.tget(v, i), ty.elem))
            return r
        if ty is PY and v.ty in (EMPTY_LIST, EMPTY_DICT, EMPTY_SET):
            return V(PY, core.py_sort().PObj(CTX.func("empty_obj", z3.IntSort(), z3.IntSort())(z3.IntVal({EMPTY_LIST: 0, EMPTY_DICT: 1, EMPTY_SET: 2}[v.ty]))))
        if ty is PY and v.ty is STATIC:
            return core.to_py(self.adapt(v, List(v.items[0].ty))) if v.items else self.adapt(V(EMPTY_LIST, None), PY)
        if v.ty is EMPTY_DICT and isinstance(ty, U) and self.dictlike(ty) is not None:
            dl = self.dictlike(ty)
            n = core.ufun("sf_" + dl["empty"], [], ty)
            return n
        hook = getattr(self.reg, "coercions", {}).get((v.ty.key, ty.key))
        if hook is not None:
            return core.ufun("sf_" + hook, [] if v.ty is NONE else [v], ty)
        if isinstance(v.ty, List) and isinstance(ty, List) and isinstance(ty.elem, Opt) and ty.elem.elem == v.ty.elem:
            # a list of T used where a list of Optional[T] is expected: the same elements, all present
            r = core.ufun("lift_opt", [v], ty)
            CTX.axioms.append(core.llen(r) == core.llen(v))
            CTX.axioms.append(core.forall_int(0, core.llen(v), lambda k: core.lget(r, k).t == core.osome(ty.elem, core.lget(v, k)).t))
            return r
        if isinstance(v.ty, Map) and isinstance(ty, Map) and v.ty.k == ty.k and ty.v is PY and v.ty.v is not PY:
            # a mapping with statically typed values used where dynamically typed values are expected: same keys, boxed values
            r = core.ufun("box_values", [v], ty)
            kty = ty.k
            CTX.axioms.append(core.forall_ty(kty, lambda k: core.smem_t(core.mdom(r), k) == core.smem_t(core.mdom(v), k)))
            CTX.axioms.append(core.forall_ty(kty, lambda k: z3.Implies(core.smem_t(core.mdom(v), k),
                                                                         z3.Select(core.mval(r), k) == core.to_py(V(v.ty.v, z3.Select(core.mval(v), k))).t)))
            return r
        if isinstance(v.ty, Opt) and not isinstance(ty, Opt):
            hook = getattr(self.reg, "coercions", {}).get((v.ty.elem.key, ty.key))
            if hook is not None:
                self.notes.append("optional value passed where %s is expected: taken as present" % ty.key)
                return core.ufun("sf_" + hook, [core.oval(v)], ty)
        if isinstance(ty, Opt) and v.ty != ty.elem and v.ty is not NONE:
            hook = getattr(self.reg, "coercions", {}).get((v.ty.key, ty.elem.key))
            if hook is not None:
                return core.osome(ty, core.ufun("sf_" + hook, [v], ty.elem))
        return coerce(v, ty)

    # ------------------------------------------------------------------------------------------
    # feasibility
    # ------------------------------------------------------------------------------------------
    def feasible(self, st, extra=None):
        if not self.prune or st.dry:
            return True
        s = z3.Solver()
        s.set("timeout", 150)
        s.add(*CTX.axioms)
        s.add(*st.pc)
        if extra is not None:
            s.add(extra)
        return s.check() != z3.unsat

    def fork(self, st, cond, line=None, tag="if"):
        """Split st on cond: returns (st_true or None, st_false or None)."""
        c = z3.simplify(cond)
        if z3.is_true(c) and not st.dry:
            return st, None
        if z3.is_false(c) and not st.dry:
            return None, st
        a = st.copy().assume(cond)
        b = st.copy().assume(z3.Not(cond))
        a.note(line, tag + "+")
        b.note(line, tag + "-")
        if not self.feasible(a):
            a = None
        if not self.feasible(b):
            b = None
        return a, b

    # ------------------------------------------------------------------------------------------
    # obligations
    # ------------------------------------------------------------------------------------------
    def oblige(self, st, kind, clause_id, clause, goal, line=None):
        o = Obl(self.unit, kind, clause_id, clause, list(CTX.axioms) + list(st.pc), goal, line, list(st.trace))
        if not st.dry:
            self.obls.append(o)
        return o

    # ------------------------------------------------------------------------------------------
    # statements
    # ------------------------------------------------------------------------------------------
    def exec_block(self, stmts, st):
        """Returns list of Outcome."""
        outs = []
        live = [st]
        for s in stmts:
            nxt = []
            for cur in live:
                for o in self.exec_stmt(s, cur):
                    if o.kind == "normal":
                        nxt.append(o.st)
                    else:
                        outs.append(o)
            live = nxt
            if not live:
                break
        outs.extend(Outcome("normal", s) for s in live)
        return outs

    def exec_stmt(self, s, st):
        mark = len(self.raised)
        try:
            starts = [st]
            if self.contract is not None and self.contract.ghost_on and isinstance(s, ast.For):
                # "@for <target>": ghost statements run just before the loop over that target starts
                for item in self.contract.ghost_on:
                    if item[0].startswith("@for ") and item[0][5:].strip() == ast.unparse(s.target):
                        nxt = []
                        for cur in starts:
                            nxt.extend(o.st for o in self.exec_ghost(item[1], cur) if o.kind == "normal")
                        starts = nxt
            if self.contract is not None and self.contract.ghost_on and not isinstance(s, (ast.For, ast.While, ast.If, ast.Try, ast.With)):
                for item in self.contract.ghost_on:
                    if len(item) > 2 and item[2] == "before" and self.match_pattern(item[0], s):
                        nxt = []
                        for cur in starts:
                            nxt.extend(o.st for o in self.exec_ghost(item[1], cur) if o.kind == "normal")
                        starts = nxt
            outs = []
            for cur in starts:
                outs.extend(self._exec_stmt(s, cur))
        except OutsideSubset as e:
            if not getattr(e, "located", False):
                e.args = ("%s:%s: %s" % (self.module.rel if self.module else "?", getattr(s, "lineno", "?"), e.args[0]),)
                e.located = True
            raise
        new = self.raised[mark:]
        del self.raised[mark:]
        outs = list(outs) + [Outcome("raise", rs, e) for rs, e in new]
        outs2 = []
        for o in outs:
            outs2.extend(self.after_stmt(s, o))
        return outs2

    def after_stmt(self, s, o):
        """Ghost statements attached to a pattern of this statement."""
        if o.kind != "normal" or not self.contract or not self.contract.ghost_on or isinstance(s, (ast.For, ast.While, ast.If, ast.Try, ast.With)):
            return [o]
        outs = [o]
        for item in self.contract.ghost_on:
            pat, ghost = item[0], item[1]
            if len(item) > 2 and item[2] == "before":
                continue
            if self.match_pattern(pat, s):
                nxt = []
                for oo in outs:
                    if oo.kind == "normal":
                        nxt.extend(self.exec_ghost(ghost, oo.st))
                    else:
                        nxt.append(oo)
                outs = nxt
        return outs

    def exec_ghost(self, text, st):
        """Ghost statements may use specification forms; definitional facts they introduce join the state."""
        self.ghost_depth += 1
        n0 = len(self.spec_defs)
        try:
            outs = self.exec_block(self.parse_stmts(text), st)
        finally:
            self.ghost_depth -= 1
        defs = self.spec_defs[n0:]
        del self.spec_defs[n0:]
        for o in outs:
            o.st.pc.extend(defs)
        return outs

    def parse_stmts(self, text):
        if text not in self._spec_cache:
            self._spec_cache[text] = ast.parse(text).body
        return self._spec_cache[text]

    def match_pattern(self, pat, node):
        if pat.startswith("@for "):
            return False
        key = ("pat", pat)
        if key not in self._spec_cache:
            p = ast.parse(pat).body[0]
            self._spec_cache[key] = p
        return _match(self._spec_cache[key], node)

    def _exec_stmt(self, s, st):
        m = getattr(self, "st_" + type(s).__name__, None)
        if m is None:
            raise OutsideSubset("statement %s" % type(s).__name__)
        return m(s, st)

    def st_Pass(self, s, st):
        return [Outcome("normal", st)]

    def st_Import(self, s, st):
        return [Outcome("normal", st)]

    st_ImportFrom = st_Import
    st_Global = st_Import
    st_Nonlocal = st_Import

    def st_Expr(self, s, st):
        if isinstance(s.value, ast.Constant):
            return [Outcome("normal", st)]       # docstring
        if isinstance(s.value, (ast.Yield,)):
            return self.do_yield(s.value, st)
        return [Outcome("normal", st1) for st1, _ in self.ev(s.value, st)]

    def do_yield(self, y, st):
        outs = []
        for st1, v in (self.ev(y.value, st) if y.value is not None else [(st, NONEV)]):
            ys = st1.env["yields_"]
            st1.env["yields_"] = core.lappend(ys, self.store_form(st1, self.adapt(v, ys.ty.elem), ys.ty.elem))
            st1.wrote("v", "yields_")
            outs.append(Outcome("normal", st1))
        return outs

    def st_Assign(self, s, st):
        outs = []
        for st1, v in self.ev(s.value, st):
            sts = [st1]
            for tgt in s.targets:
                nxt = []
                for cur in sts:
                    nxt.extend(self.assign(tgt, v, cur, s.value))
                sts = nxt
            outs.extend(Outcome("normal", x) for x in sts)
        return outs

    def st_AnnAssign(self, s, st):
        if s.value is None:
            return [Outcome("normal", st)]
        outs = []
        for st1, v in self.ev(s.value, st):
            outs.extend(Outcome("normal", x) for x in self.assign(s.target, v, st1, s.value))
        return outs

    def st_AugAssign(self, s, st):
        load = ast.copy_location(_to_load(s.target), s.target)
        binop = ast.copy_location(ast.BinOp(left=load, op=s.op, right=s.value), s)
        # list += list is in-place extend
        outs = []
        for st1, v in self.ev(binop, st):
            # list += ... / set |= ... mutate the object in place (aliases see it), numbers and strings rebind
            inplace = isinstance(v.ty, (List, Set, Map)) and isinstance(s.target, ast.Name)
            outs.extend(Outcome("normal", x) for x in self.assign(s.target, v, st1, None, inplace=inplace))
        return outs

    def st_Delete(self, s, st):
        sts = [st]
        for tgt in s.targets:
            nxt = []
            for cur in sts:
                if isinstance(tgt, ast.Subscript):
                    for st1, c in self.ev(tgt.value, cur):
                        for st2, k in self.ev(tgt.slice, st1):
                            if isinstance(c.ty, Map):
                                yes, no = self.fork(st2, core.mhas(c, k), tgt.lineno, "delkey")
                                if no is not None:
                                    self.do_raise(no, "KeyError")
                                if yes is not None:
                                    nxt.extend(self.assign(tgt.value, core.mremove(c, k), yes, None))
                            elif self.dictlike(c.ty) is not None and k.ty is STR:
                                dl = self.dictlike(c.ty)
                                sub = self.dl_sub(c, dl)
                                yes, no = self.fork(st2, z3.And(self.dl_ismap(c, dl), core.mhas(sub, k)), tgt.lineno, "deldoc")
                                if no is not None:
                                    self.do_raise(no, "Exception")
                                if yes is not None:
                                    yes = yes.copy()
                                    nxt.extend(self.assign(tgt.value, self.dl_mk(core.mremove(sub, k), dl, yes), yes, None, inplace=True))
                            else:
                                raise OutsideSubset("del on %r" % (c.ty,))
                elif isinstance(tgt, ast.Name):
                    cur = cur.copy()
                    cur.env.pop(tgt.id, None)
                    nxt.append(cur)
                else:
                    raise OutsideSubset("del target")
            sts = nxt
        return [Outcome("normal", x) for x in sts]

    def assign(self, tgt, v, st, value_node=None, inplace=False):
        """Assign value v to target; returns list of states (assignment through dunder methods may raise).
        inplace=True: the target object is mutated in place (aliases survive, caller-visible for parameters)."""
        if isinstance(tgt, ast.Name):
            st = st.copy()
            name = tgt.id
            if inplace and name in st.alias:
                al = st.alias[name]
                if al[0] == "param" and self.contract is not None and al[1] not in self.contract.modifies:
                    self.oblige(st, "frame", "param:" + al[1],
                                "container parameter %s is not mutated in place (it is not in modifies)" % al[1],
                                z3.BoolVal(False), getattr(tgt, "lineno", None))
                st2s = self._assign_name(name, v, st, None, True)
                for s2 in st2s:
                    s2.alias[name] = al
                    if al[0] != "param":
                        tnode = ast.parse(al[1], mode="eval").body
                        tnode.ctx = ast.Store()
                        for x in ast.walk(tnode):
                            x.lineno = getattr(tgt, "lineno", 0)
                        r = self.assign(tnode, v, s2, None, inplace=True)
                        s2.env, s2.heap, s2.glob, s2.pc = r[0].env, r[0].heap, r[0].glob, r[0].pc
                        s2.alias[name] = al
                return st2s
            return self._assign_name(name, v, st, value_node, inplace)
        return self._assign_other(tgt, v, st, value_node, inplace)

    def _assign_name(self, name, v, st, value_node, inplace=False):
        if True:
            tgt = None
            decl = self.contract.locals.get(name) if self.contract else None
            if decl is not None:
                v = self.adapt(v, decl)
            if name in st.glob and name not in st.env and (inplace or self.is_global_decl(name)):
                st.glob[name] = self.store_form(st, self.adapt(v, st.glob[name].ty), None)
                st.wrote("g", name)
                return [st]
            if isinstance(v.ty, Set) and core.is_virt(v):
                v, ax = core.materialize(v)
                st.assume(*ax)
            if isinstance(v.ty, (List, Map)) and v.t is not None and not z3.is_const(v.t) and not st.dry \
                    and (value_node is not None or inplace) and not self.in_spec:
                # name compound container terms: keeps terms small and quantifier triggers legal
                nv = fresh(v.ty, name)
                st.assume(nv.t == v.t)
                v = nv
            st.env[name] = v
            st.alias.pop(name, None)
            if value_node is not None and v.ty is not None and isinstance(v.ty, (List, Set, Map)):
                pl = self.place_of(value_node, st)
                if pl is not None:
                    st.alias[name] = pl
            st.wrote("v", name)
            if not inplace:
                st.wrote("r", name)
            return [st]

    def _assign_other(self, tgt, v, st, value_node, inplace):
        if isinstance(tgt, (ast.Tuple, ast.List)):
            n = len(tgt.elts)
            items = self.unpack(v, n, st)
            sts = [st]
            for t, it in zip(tgt.elts, items):
                nxt = []
                for cur in sts:
                    nxt.extend(self.assign(t, it, cur, None))
                sts = nxt
            return sts
        if isinstance(tgt, ast.Attribute):
            res = []
            for st1, obj in self.ev(tgt.value, st):
                st1 = st1.copy()
                if isinstance(obj.ty, Opt) and isinstance(obj.ty.elem, Ref):
                    bad, ok = self.fork(st1, core.ois_none(obj), getattr(tgt, "lineno", None), "none-setattr")
                    if bad is not None:
                        self.do_raise(bad, "AttributeError")
                    if ok is None:
                        continue
                    st1, obj = ok.copy(), core.oval(obj)
                if isinstance(obj.ty, Ref):
                    self.heap_set(st1, obj, tgt.attr, v)
                    res.append(st1)
                else:
                    raise OutsideSubset("attribute store on %r" % (obj.ty,))
            return res
        if isinstance(tgt, ast.Subscript):
            res = []
            for st1, c in self.ev(tgt.value, st):
                if isinstance(c.ty, Opt) and isinstance(c.ty.elem, Ref):
                    # item assignment through an optional reference: None is a TypeError
                    bad, ok = self.fork(st1, core.ois_none(c), tgt.lineno, "none-setitem")
                    if bad is not None:
                        self.do_raise(bad, "TypeError")
                    if ok is None:
                        continue
                    st1, c = ok, core.oval(c)
                if isinstance(c.ty, Ref):
                    for st2, k in self.ev(tgt.slice, st1):
                        for st3, _ in self.call_method(c, "__setitem__", [k, v], {}, st2, tgt):
                            res.append(st3)
                    continue
                for st2, k in self.ev(tgt.slice, st1):
                    if c.ty is EMPTY_DICT:
                        c = core.mempty(k.ty, v.ty if not isinstance(v.ty, Tup) else v.ty)
                    if isinstance(c.ty, Map):
                        nv = core.mstore(c, k, self.store_form(st2, self.adapt(v, c.ty.v), c.ty.v))
                    elif isinstance(c.ty, List):
                        idx = self.norm_index(c, k)
                        ok, bad = self.fork(st2, z3.And(idx >= 0, idx < core.llen(c)), tgt.lineno, "idx")
                        if bad is not None:
                            self.do_raise(bad, "IndexError")
                        if ok is None:
                            continue
                        st2 = ok
                        nv = core.lmk(c.ty, core.llen(c), z3.Store(core.larr(c), idx, self.adapt(v, c.ty.elem).t))
                    elif c.ty is PY:
                        self.notes.append("item assignment on an opaque object (%s): no modelled effect" % ast.unparse(tgt.value))
                        res.append(st2)
                        continue
                    else:
                        raise OutsideSubset("subscript store on %r" % (c.ty,))
                    res.extend(self.assign(tgt.value, nv, st2, None, inplace=True))
            return res
        if isinstance(tgt, ast.Starred):
            raise OutsideSubset("starred target")
        raise OutsideSubset("assignment target %s" % type(tgt).__name__)

    def is_global_decl(self, name):
        for n in ast.walk(self.fn):
            if isinstance(n, ast.Global) and name in n.names:
                return True
        return False

    def unpack(self, v, n, st):
        if v.ty is STATIC:
            if len(v.items) != n:
                raise OutsideSubset("unpack arity")
            return v.items
        if isinstance(v.ty, Tup):
            if len(v.ty.elems) != n:
                raise OutsideSubset("unpack arity %d vs %r" % (n, v.ty))
            return [core.tget(v, i) for i in range(n)]
        if isinstance(v.ty, List):
            st.assume(core.llen(v) == n)      # assumption recorded
            self.notes.append("unpack of list assumed to have %d elements" % n)
            return [core.lget(v, i) for i in range(n)]
        if isinstance(v.ty, Opt) and isinstance(v.ty.elem, Tup):
            s = z3.Solver()
            s.set("timeout", 2000)
            s.add(*CTX.axioms)
            s.add(*st.pc)
            s.add(core.ois_none(v))
            if s.check() == z3.unsat:         # None excluded on this path (an `is None` test came first)
                return self.unpack(core.oval(v), n, st)
            raise OutsideSubset("unpack of a possibly-None tuple")
        raise OutsideSubset("unpack of %r" % (v.ty,))

    def st_If(self, s, st):
        outs = []
        for st1, c in self.ev_cond(s.test, st):
            a, b = self.fork(st1, c, s.lineno, "if")
            oa = self.exec_block(s.body, a) if a is not None else []
            ob = self.exec_block(s.orelse, b) if b is not None else []
            # join: when each branch has exactly one normal outcome the two are merged into one state
            # (values become If(c, a, b); path facts of a branch are kept under its condition)
            na = [o for o in oa if o.kind == "normal"]
            nb = [o for o in ob if o.kind == "normal"]
            if len(na) == 1 and len(nb) == 1 and not st1.dry and self.merge_enabled(s):
                m = self.merge_states(st1, c, na[0].st, nb[0].st, s.lineno)
                if m is not None:
                    outs.extend(o for o in oa if o.kind != "normal")
                    outs.extend(o for o in ob if o.kind != "normal")
                    outs.append(Outcome("normal", m))
                    continue
            outs.extend(oa)
            outs.extend(ob)
        return outs

    def merge_enabled(self, s):
        import os
        if os.environ.get("PYVC_NOMERGE"):
            return False
        nm = getattr(self.contract, "no_merge", ()) if self.contract else ()
        return s.lineno not in nm and "*" not in nm

    def merge_states(self, st0, c, sa, sb, line):
        n0 = len(st0.pc)
        if sa.pc[:n0] != st0.pc and not all(x is y for x, y in zip(sa.pc[:n0], st0.pc)):
            return None
        if set(sa.env) != set(sb.env) or set(sa.glob) != set(sb.glob) or sa.alias != sb.alias or len(sa.lold) != len(sb.lold):
            return None
        m = st0.copy()
        m.alias = dict(sa.alias)

        def mv(va, vb):
            if va is vb:
                return va
            if va.ty != vb.ty:
                return None
            if va.items is not None or vb.items is not None:
                if isinstance(va.ty, Tup) and va.items is not None and vb.items is not None and va.ty is not STATIC:
                    parts = [mv(x, y) for x, y in zip(va.items, vb.items)]
                    return None if any(p is None for p in parts) else mk_tuple(parts)
                return None
            if va.t is None or vb.t is None:
                return va if (va.t is None and vb.t is None and va.ty is NONE) else None
            if va.t.eq(vb.t):
                return va
            nv = fresh(va.ty, "join")
            # named join: the merged value is a fresh constant defined by cases
            m.pc.append(z3.Implies(c, nv.t == va.t))
            m.pc.append(z3.Implies(z3.Not(c), nv.t == vb.t))
            return nv
        for k in sa.env:
            r = mv(sa.env[k], sb.env[k])
            if r is None:
                return None
            m.env[k] = r
        for k in sa.glob:
            r = mv(sa.glob[k], sb.glob[k])
            if r is None:
                return None
            m.glob[k] = r
        for k in set(sa.heap) | set(sb.heap):
            cls, f = k.split(".", 1)
            ta, tb = self.heap_arr(sa, cls, f), self.heap_arr(sb, cls, f)
            m.heap[k] = ta if ta.eq(tb) else z3.If(c, ta, tb)
        ea, eb = sa.pc[n0:], sb.pc[n0:]
        # the first extra fact of each branch is its branch condition
        if ea:
            m.pc.append(z3.Implies(c, z3.And(ea)) if len(ea) > 1 else z3.Implies(c, ea[0]))
        if eb:
            m.pc.append(z3.Implies(z3.Not(c), z3.And(eb)) if len(eb) > 1 else z3.Implies(z3.Not(c), eb[0]))
        m.trace = list(st0.trace) + ["%s:join" % line]
        if sa.written is not None:
            m.written = sa.written
        return m

    def st_Assert(self, s, st):
        if self.ghost_depth > 0:
            # ghost assertion: a proof obligation at this program point (specification expression)
            text = ast.unparse(s.test)
            label = s.msg.value if (s.msg is not None and isinstance(s.msg, ast.Constant)) else str(abs(hash(text)) % 100000)
            self.spec_depth += 1
            try:
                g = truthy(self.ev1(s.test, st))
            finally:
                self.spec_depth -= 1
            self.oblige(st, "ghost-assert", label, text, g, None)
            return [Outcome("normal", st.copy().assume(g))]
        outs = []
        for st1, c in self.ev_cond(s.test, st):
            a, b = self.fork(st1, c, s.lineno, "assert")
            if a is not None:
                outs.append(Outcome("normal", a))
            if b is not None:
                self.do_raise(b, "AssertionError")
        return outs

    def st_Return(self, s, st):
        if s.value is None:
            return [Outcome("return", st, NONEV)]
        return [Outcome("return", st1, v) for st1, v in self.ev(s.value, st)]

    def st_Break(self, s, st):
        return [Outcome("break", st)]

    def st_Continue(self, s, st):
        return [Outcome("continue", st)]

    def st_Raise(self, s, st):
        if s.exc is None:
            cur = st.env.get("exc_current_")
            if cur is None:
                raise OutsideSubset("bare raise outside handler")
            self.raised.append((st, cur))
            return []
        for st1, e in self.ev_exception(s.exc, st):
            self.raised.append((st1, e))
        return []

    def ev_exception(self, node, st):
        """Evaluate the operand of `raise`."""
        if isinstance(node, ast.Name) and self.is_exc_class(node.id) and node.id not in st.env:
            st = st.copy()
            return [(st, self.new_exc(node.id, st))]
        if isinstance(node, ast.Attribute) and self.is_exc_class(node.attr) and self.dotted(node, st) is not None:
            st = st.copy()          # raise module.ExcClass  (handlers match a dotted class by its last name as well)
            return [(st, self.new_exc(node.attr, st))]
        if isinstance(node, ast.Call):
            fname = node.func.id if isinstance(node.func, ast.Name) else (node.func.attr if isinstance(node.func, ast.Attribute) else None)
            if fname and self.is_exc_class(fname) and fname not in st.env:
                attrs = self.reg.exc_attrs.get(self.exc_name(fname))
                if not attrs:
                    st = st.copy()
                    self.notes.append("message arguments of raise %s(...) not evaluated" % fname)
                    return [(st, self.new_exc(fname, st))]
                res = []
                for st1, args in self.ev_list(node.args, st):
                    st1 = st1.copy()
                    e = self.new_exc(fname, st1)
                    for (a, ty), val in zip(attrs.items(), args):
                        val = self.store_form(st1, self.adapt(val, ty), ty)
                        st1.assume(core.equals(self.exc_attr(e, a, ty), val))
                    res.append((st1, e))
                return res
        res = []
        for st1, v in self.ev(node, st):
            if v.ty is EXC:
                res.append((st1, v))
            elif isinstance(v.ty, Opt) and v.ty.elem is EXC:
                res.append((st1, core.oval(v)))     # guarded by a truthiness test of the stored exception
            else:
                raise OutsideSubset("raise of non-exception %r" % (v.ty,))
        return res

    # -- try -------------------------------------------------------------------------------------
    def st_Try(self, s, st):
        body_outs = self.exec_block(s.body, st)
        mid = []
        for o in body_outs:
            if o.kind == "normal":
                mid.extend(self.exec_block(s.orelse, o.st) if s.orelse else [o])
            elif o.kind == "raise":
                mid.extend(self.dispatch_handlers(s, o))
            else:
                mid.append(o)
        if not s.finalbody:
            return mid
        outs = []
        for o in mid:
            for fo in self.exec_block(s.finalbody, o.st):
                if fo.kind == "normal":
                    outs.append(Outcome(o.kind, fo.st, o.val))
                else:
                    outs.append(fo)
        return outs

    def dispatch_handlers(self, s, o):
        outs = []
        st = o.st
        e = o.val
        for h in s.handlers:
            if st is None:
                break
            if h.type is None:
                guard = z3.BoolVal(True)
            else:
                names = []
                tnodes = h.type.elts if isinstance(h.type, ast.Tuple) else [h.type]
                for t in tnodes:
                    if isinstance(t, ast.Name):
                        names.append(t.id)
                    elif isinstance(t, ast.Attribute):
                        names.append(t.attr)
                    else:
                        raise OutsideSubset("handler type expression")
                for nme in names:
                    if not self.is_exc_class(nme):
                        raise OutsideSubset("unknown exception class in handler: %s" % nme)
                guard = z3.Or([self.exc_isinstance(e, nme) for nme in names])
            yes, no = self.fork(st, guard, h.lineno, "except")
            if yes is not None:
                yes = yes.copy()
                if h.name:
                    yes.env[h.name] = e
                    yes.wrote("v", h.name)
                prev = yes.env.get("exc_current_")
                yes.env["exc_current_"] = e
                for ho in self.exec_block(h.body, yes):
                    if prev is None:
                        ho.st.env.pop("exc_current_", None)
                    else:
                        ho.st.env["exc_current_"] = prev
                    outs.append(ho)
            st = no
        if st is not None:
            outs.append(Outcome("raise", st, e))
        return outs

    def st_With(self, s, st):
        # only declared-trusted context managers: the body runs, the manager itself is a no-op
        sts = [st]
        for item in s.items:
            nxt = []
            for cur in sts:
                name = self.dotted(item.context_expr.func, cur) if isinstance(item.context_expr, ast.Call) else None
                ext = self.reg.externals.get(name) if name else None
                if ext is None:
                    raise OutsideSubset("with on undeclared context manager %s" % (name,))
                for st1, v in self.ev(item.context_expr, cur):
                    if item.optional_vars is not None:
                        nxt.extend(self.assign(item.optional_vars, v, st1, None))
                    else:
                        nxt.append(st1)
            sts = nxt
        outs = []
        for cur in sts:
            outs.extend(self.exec_block(s.body, cur))
        return outs

    def st_FunctionDef(self, s, st):
        st = st.copy()
        st.env[s.name] = V(CLOSURE, None, (s, None, s.name))
        st.wrote("v", s.name)
        return [Outcome("normal", st)]

    # -- loops -----------------------------------------------------------------------------------
    from .loops import st_For, st_While, run_loop, dry_run, havoc_written, check_invariants, _unrolled, _elem_form, _items_alias, _append_loop_as_comprehension  # noqa: E402


def _same_bindings(a, b):
    if len(a.env) != len(b.env) or len(a.heap) != len(b.heap) or len(a.glob) != len(b.glob):
        return False
    for k, v in a.env.items():
        if b.env.get(k) is not v:
            return False
    for k, v in a.heap.items():
        w = b.heap.get(k)
        if w is None or not (w is v or w.eq(v)):
            return False
    for k, v in a.glob.items():
        if b.glob.get(k) is not v:
            return False
    return True


def _to_load(node):
    n = ast.parse(ast.unparse(node), mode="eval").body
    return n


def _match(p, n):
    if isinstance(p, ast.Expr) and not isinstance(n, ast.Expr):
        return False
    if isinstance(p, ast.Name) and p.id == "_":
        return True
    if type(p) is not type(n):
        return False
    for f in p._fields:
        if f in ("ctx", "lineno", "col_offset", "end_lineno", "end_col_offset", "type_comment", "kind"):
            continue
        a, b = getattr(p, f, None), getattr(n, f, None)
        if isinstance(a, list):
            if not isinstance(b, list) or len(a) != len(b):
                return False
            for x, y in zip(a, b):
                if not _match(x, y):
                    return False
        elif isinstance(a, ast.AST):
            if not isinstance(b, ast.AST) or not _match(a, b):
                return False
        else:
            if a != b:
                return False
    return True
