"""C11 - what collection persists is what analysis loads."""
from contracts.serde import M

SIDECARS = ["serde"]
SF = "insights/core/spec_factory.py"
UNITS = [(M, "Hydration.hydrate"), (M, "Hydration._hydrate_one"), (M, "unmarshal"), (M, "deserialize")] + \
        [(SF, n) for n in ("serialize_command_output", "serialize_text_file_provider", "serialize_raw_file_provider", "serialize_datasource_provider",
                           "serialize_container_file_output", "serialize_container_command", "deserialize_command_output",
                           "deserialize_text_provider", "deserialize_raw_file_provider", "deserialize_datasource_provider",
                           "deserialize_container_file", "deserialize_container_command")]
NOT_CARRIED = []
