"""C07 - filtered specs keep exactly the lines that match a registered filter."""
from contracts.filters import M as F
from contracts.cleaner_filters import M as CF

GROUPS = [
    dict(name="registry", sidecars=["filters"], units=[
        (F, "get_filters.<locals>.inner"), (F, "get_filters"),
        (F, "add_filter.<locals>.none_max"), (F, "add_filter.<locals>.get_dependency_datasources"),
        (F, "add_filter.<locals>.inner"), (F, "add_filter"),
    ]),
    dict(name="content", sidecars=["cleaner_filters"], units=[(CF, "AllowFilter.filter_content")]),
]
NOT_CARRIED = ["grep -F on the host (external program; dash-leading / newline-bearing patterns)",
               "add_filter with a single string or a set (verified for a list of strings)",
               "budgets on key collisions (max of the two; the later update wins for with_matches): only key sets and positivity are specified",
               "refusal to collect a filterable spec without filters is FileProvider/CommandOutputProvider.validate (C06)",
               "that any finite history of registrations and look-ups keeps the cache coherent is the invariant COH "
               "(pre/post of get_filters and add_filter); induction over the history is the meta-step",
               "`line in` containment is an uninterpreted predicate (any characters are covered; no string theory involved)"]


def bounded(check):
    """bounded stand-in / native witness search: real filter registry with interleaved registrations and look-ups; AllowFilter on small contents"""
    import json, os, subprocess
    k, l = (3, 3) if check.tier == "quick" else (4, 4)
    here = os.path.dirname(os.path.dirname(os.path.abspath(__file__)))
    p = subprocess.run(["/venv/bin/python", os.path.join(here, "bounded", "filters_small_scope.py"), check.repo.root, str(k), str(l)],
                       stdout=subprocess.PIPE, stderr=subprocess.PIPE, universal_newlines=True, timeout=3000)
    line = (p.stdout.strip().splitlines() or ["{}"])[-1]
    try:
        info = json.loads(line)
    except ValueError:
        info = {"error": (p.stderr or p.stdout)[-400:]}
    out = dict(name="filter set in force == union registered so far (any interleaving); filtered content is the sub-sequence the property describes",
               level="bounded", bound="every sequence of <= %d operations over 13 (add a/b on impl1, impl2, spec, parser, combiner; look up impl1, impl2, "
                                      "spec); every content of <= %d lines over 7 line shapes x 6 allow lists" % (k, l),
               result=info, violation=(p.returncode == 1), error=(p.returncode not in (0, 1)))
    if p.returncode == 1:
        os.makedirs(os.path.join(here, "replays"), exist_ok=True)
        path = os.path.join(here, "replays", "C07-bounded.json")
        json.dump(dict(obligation="bounded:filters-small-scope", witness=info,
                       replay_cmd="/venv/bin/python %s %s %d %d" % (os.path.join(here, "bounded", "filters_small_scope.py"), check.repo.root, k, l)),
                  open(path, "w"), indent=1)
        out["replay"] = path
    return [out]
