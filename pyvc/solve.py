"""Discharging obligations: z3 (python API) first, cvc5 (CLI, SMT-LIB export) for z3's unknowns.
Workers are forked after VC generation and address obligations by index (z3 terms are inherited
through fork, never pickled)."""
import multiprocessing
import os
import subprocess
import tempfile
import time
import z3

_OBLS = []
_CFG = {}


def smt2_of(hyps, goal, logic=None):
    s = z3.Solver()
    s.add(*hyps)
    s.add(z3.Not(goal))
    txt = s.to_smt2()
    return txt


def _run_cvc5(text, timeout_s):
    with tempfile.NamedTemporaryFile("w", suffix=".smt2", delete=False, dir=_CFG.get("tmp")) as f:
        f.write("(set-logic ALL)\n" + text)
        path = f.name
    try:
        p = subprocess.run(["/usr/bin/cvc5", "--strings-exp", "--tlimit=%d" % int(timeout_s * 1000), path],
                           stdout=subprocess.PIPE, stderr=subprocess.PIPE, universal_newlines=True, timeout=timeout_s + 5)
        out = p.stdout.strip().splitlines()
        return (out[0] if out else "unknown"), (p.stderr.strip()[:300])
    except subprocess.TimeoutExpired:
        return "timeout", ""
    finally:
        os.unlink(path)


def _z3_once(hyps, goal, timeout_s, seed=None, logic=None):
    s = z3.SolverFor(logic) if logic else z3.Solver()
    s.set("timeout", int(timeout_s * 1000))
    # note: plain "random_seed" on the default solver changes its strategy (observed: unsat -> unknown);
    # the module-qualified parameter does not.
    if seed:
        s.set("smt.random_seed", int(seed) % 1000)
    s.add(*hyps)
    s.add(z3.Not(goal))
    return s.check(), s


def _solve(idx):
    """Portfolio, in this order (a proof or a model from any step is final):
       z3 unseeded, short budget -> cvc5 -> z3 unseeded, full budget -> z3 with the run's seed, full budget.
    The first steps never depend on VERIF_SEED, so a verdict reached on the unchanged tree does not flip with the seed."""
    item = _OBLS[idx]
    hyps, goal, want_model, probes = item[:4]
    logic = item[4] if len(item) > 4 else None
    t0 = time.time()
    T = _CFG["z3_timeout"]
    short = min(10.0, T)
    steps = ["z3:%gs" % short]
    r, s = _z3_once(hyps, goal, short if not (want_model or logic) else T, None, logic)
    if r == z3.unknown and want_model and not logic:
        r2, s2 = _guided(hyps, goal)
        if r2 == z3.sat:
            r, s = r2, s2
    if r == z3.unknown and logic:
        # quantifiers left (integer-keyed maps): the general solver with model-based instantiation
        r, s = _z3_once(hyps, goal, T)
    res = {"idx": idx, "z3": str(r), "z3_s": round(time.time() - t0, 3), "reason": "", "backend": "z3"}
    if r == z3.unknown and _CFG.get("cvc5", True):
        t1 = time.time()
        try:
            txt = s.to_smt2()
            cr, err = _run_cvc5(txt, min(_CFG["cvc5_timeout"], 20) if not (want_model or logic) else _CFG["cvc5_timeout"])
        except Exception as e:          # pragma: no cover
            cr, err = "error", str(e)[:200]
        steps.append("cvc5")
        res["cvc5"] = cr
        res["cvc5_s"] = round(time.time() - t1, 3)
        if err:
            res["cvc5_err"] = err
        if cr in ("unsat", "sat"):
            res["backend"] = "cvc5"
    if r == z3.unknown and res.get("cvc5") not in ("unsat", "sat") and not (want_model or logic) and T > short:
        t2 = time.time()
        r, s = _z3_once(hyps, goal, T)
        steps.append("z3:%gs" % T)
        if r == z3.unknown and _CFG.get("seed"):
            r, s = _z3_once(hyps, goal, T, _CFG["seed"])
            steps.append("z3:seed")
        res["z3"] = str(r)
        res["z3_s"] = round(res["z3_s"] + time.time() - t2, 3)
    if r == z3.unknown:
        res["reason"] = s.reason_unknown()
    if r == z3.sat and want_model:
        m = s.model()
        vals = {}
        for name, t in probes.items():
            try:
                vals[name] = str(m.eval(t, model_completion=True))
            except Exception as e:      # pragma: no cover
                vals[name] = "?%s" % e
        res["model"] = vals
    if _CFG.get("recheck") and r == z3.unsat and "cvc5" not in res:
        t1 = time.time()
        # independent re-check of a z3 proof (thorough tier): cvc5's agreement is extra assurance, its silence is not a failure
        cr, err = _run_cvc5(s.to_smt2(), min(_CFG["cvc5_timeout"], 20))
        res["cvc5"] = cr
        res["cvc5_s"] = round(time.time() - t1, 3)
    res["steps"] = steps
    res["verdict"] = _verdict(res)
    return res


def _guided(hyps, goal):
    """Model-guided search for quantifier-free (finite scope) queries the datatype-aware solver cannot decide in time:
    a fast solver that abstracts datatypes (QF_AUFBV) proposes a candidate; its values for the integer / boolean /
    bit-vector constants are then fixed and the sound solver is asked again.  Only its `sat` is used."""
    try:
        f = z3.SolverFor("QF_AUFBV")
        f.set("timeout", int(_CFG["z3_timeout"] * 1000))
        f.add(*hyps)
        f.add(z3.Not(goal))
        if f.check() != z3.sat:
            return z3.unknown, None
        m = f.model()
        fixes = []
        for d in m.decls():
            if d.arity() == 0 and d.range().kind() in (z3.Z3_INT_SORT, z3.Z3_BOOL_SORT, z3.Z3_BV_SORT):
                fixes.append(d() == m[d])
        s = z3.Solver()
        s.set("timeout", int(_CFG["z3_timeout"] * 1000))
        s.add(*hyps)
        s.add(z3.Not(goal))
        s.add(*fixes)
        return s.check(), s
    except z3.Z3Exception:
        return z3.unknown, None


def _verdict(res):
    z, c = res["z3"], res.get("cvc5")
    if z == "unsat" or c == "unsat":
        if z == "sat" or c == "sat":
            return "disagree"
        return "proved"
    if z == "sat" or c == "sat":
        return "refuted"
    if "timeout" in res.get("reason", "") or "canceled" in res.get("reason", "") or c == "timeout":
        return "timeout"
    return "unknown"


def discharge(items, z3_timeout=20, cvc5_timeout=20, procs=None, cvc5=True, recheck=False, seed=None, tmp=None):
    """items: list of (hyps, goal, want_model, probes[, logic]).  Returns list of result dicts.
    Every item is solved in a forked child; a crashing solver (observed: segfault) costs that item only."""
    import concurrent.futures as cf
    global _OBLS, _CFG
    _OBLS = items
    _CFG = dict(z3_timeout=z3_timeout, cvc5_timeout=cvc5_timeout, cvc5=cvc5, recheck=recheck, seed=seed, tmp=tmp)
    if not items:
        return []
    procs = procs or min(16, os.cpu_count() or 4, len(items))
    ctx = multiprocessing.get_context("fork")
    results = [None] * len(items)

    def crash(i, why):
        return {"idx": i, "z3": "unknown", "z3_s": 0.0, "reason": "solver process crashed: %s" % why, "backend": "z3", "verdict": "unknown"}

    pending = list(range(len(items)))
    try:
        with cf.ProcessPoolExecutor(max_workers=max(1, procs), mp_context=ctx) as ex:
            futs = {ex.submit(_solve, i): i for i in pending}
            for f in cf.as_completed(futs):
                i = futs[f]
                try:
                    results[i] = f.result()
                except Exception:
                    pass
    except Exception:
        pass
    for i in [i for i in pending if results[i] is None]:
        try:
            with cf.ProcessPoolExecutor(max_workers=1, mp_context=ctx) as ex:
                results[i] = ex.submit(_solve, i).result()
        except Exception as e:
            results[i] = crash(i, type(e).__name__)
    return results
