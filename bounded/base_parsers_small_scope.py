"""BOUNDED stand-in / native witness search for C14 (never counted as proved), on the real base parsers:
 (1) CommandParser: an error phrase ('command not found', 'no such file or directory', ...) in any letter case at line start / middle / end,
     single- and multi-line -> ContentException and no object; any other output reaches parse_content unchanged;
 (2) JSONParser / YAMLParser: valid mapping / sequence documents -> exactly the value (JSON also after noise lines); empty / null -> skip;
     anything else -> ParseException; never another exception type;
 (3) TextFileOutput.get / __contains__: precisely the lines containing the strings, in order, honouring num / reverse / check;
 (4) LogFileOutput.get_after with the default format, a year-less format, a list of formats: precisely the time-stamped lines at or after the
     given time plus their continuation lines, across a year boundary.
usage: /venv/bin/python base_parsers_small_scope.py <repo root> <level> ; exit 1 + JSON line with a witness."""
import datetime, itertools, json, sys
root, level = sys.argv[1], int(sys.argv[2])
sys.path.insert(0, root)
import logging
logging.disable(logging.CRITICAL)
from insights.core import CommandParser, JSONParser, YAMLParser, LogFileOutput, TextFileOutput
from insights.core.exceptions import ContentException, ParseException, SkipComponent
from insights.tests import context_wrap as _cw


def context_wrap(text):
    return _cw(text.split("\n") if text else [], strip=False)      # a list of lines is passed through untouched


def fail(**kw):
    print(json.dumps(kw, default=repr))
    sys.exit(1)


count = dict(command=0, json=0, yaml=0, search=0, after=0)


# ---------------------------------------------------------------- (1)
class Cmd(CommandParser):
    def parse_content(self, content):
        self.seen = list(content)


def flips(p):
    return [p, p.upper(), p.title(), "".join(c.upper() if i % 2 else c for i, c in enumerate(p))]


for phrase in ("no such file or directory", "command not found"):
    for ph in flips(phrase):
        for line in (ph, "bash: ls: " + ph, ph + ": /etc/x", "x " + ph + " y"):
            for content in ([line], [line, "second line"], ["first", line]):
                count["command"] += 1
                try:
                    Cmd(context_wrap("\n".join(content)))
                    # a multi-line output is only rejected for the multi-line phrases; the single-line form must always be rejected
                    if len(content) == 1:
                        fail(violation="an error message was parsed as command output", content=content)
                except ContentException:
                    pass
                except Exception as ex:
                    fail(violation="an error message raised something else than the content error", content=content, exc=repr(ex))
for content in (["total 4", "drwx 2 root"], ["nothing found here"], ["file or directory"], ["  leading", "trailing  ", "", "x"]):
    count["command"] += 1
    try:
        p = Cmd(context_wrap("\n".join(content)))
    except Exception as ex:
        fail(violation="ordinary output was rejected", content=content, exc=repr(ex))
    if p.seen != content:
        fail(violation="output did not reach the parser unchanged", content=content, seen=p.seen)


# ---------------------------------------------------------------- (2)
class J(JSONParser):
    pass


class Y(YAMLParser):
    pass


DOCS = ['{"a": 1}', '[1, 2]', '{"a": {"b": [1, "x", null, true]}}', '[]', '{}', '[{"a": ""}]', '{"a":\n 1,\n"b": [\n2]}']
for d in DOCS:
    for noise in ([], ["WARNING: something happened"], ["line one", "line two"]):
        count["json"] += 1
        try:
            got = J(context_wrap("\n".join(noise + d.split("\n")))).data
        except (SkipComponent, ParseException) as ex:
            if json.loads(d) not in ([], {}):
                fail(violation="a valid JSON document was rejected", document=d, noise=noise, exc=repr(ex))
            continue
        except Exception as ex:
            fail(violation="JSONParser raised another exception type", document=d, noise=noise, exc=repr(ex))
        if got != json.loads(d):
            fail(violation="JSONParser does not return the document's value", document=d, noise=noise, got=got)
for bad, kinds in (("", (SkipComponent,)), ("null", (SkipComponent, ParseException)), ("{", (ParseException,)), ("not json", (ParseException,)), ("42", (ParseException,)),
                   ('"text"', (ParseException,)), ('{"a": 1} trailing', (ParseException,))):
    count["json"] += 1
    try:
        p = J(context_wrap(bad))
        fail(violation="JSONParser accepted a non-document", content=bad, data=p.data)
    except kinds:
        pass
    except SystemExit:
        raise
    except Exception as ex:
        fail(violation="JSONParser: wrong exception type for a non-document", content=bad, exc=repr(ex), allowed=[k.__name__ for k in kinds])
for d, want in (("a: 1", {"a": 1}), ("- 1\n- 2", [1, 2]), ("a:\n  b: [1, x]", {"a": {"b": [1, "x"]}})):
    count["yaml"] += 1
    try:
        got = Y(context_wrap(d)).data
    except Exception as ex:
        fail(violation="a valid YAML document was rejected", document=d, exc=repr(ex))
    if got != want:
        fail(violation="YAMLParser does not return the document's value", document=d, got=got)
for bad, kinds in (("", (SkipComponent,)), ("null", (SkipComponent, ParseException)), ("a: [1", (ParseException,)), ("just text", (ParseException,)), ("42", (ParseException,))):
    count["yaml"] += 1
    try:
        p = Y(context_wrap(bad))
        fail(violation="YAMLParser accepted a non-document", content=bad, data=p.data)
    except kinds:
        pass
    except SystemExit:
        raise
    except Exception as ex:
        fail(violation="YAMLParser: wrong exception type for a non-document", content=bad, exc=repr(ex))


# ---------------------------------------------------------------- (3)
class T(TextFileOutput):
    pass


LINES = ["a", "b", "ab", "x", "ba b"]
for n in range(0, 4 if level < 2 else 5):
    for content in itertools.product(LINES, repeat=n):
        content = list(content)
        if not content:
            continue
        t = T(context_wrap("\n".join(content)))
        for s, check in (("a", all), (["a", "b"], all), (["a", "x"], any), ("b", all)):
            words = [s] if isinstance(s, str) else s
            match = [l for l in content if check(w in l for w in words)]
            for num, reverse in ((None, False), (1, False), (2, False), (1, True), (2, True), (None, True)):
                count["search"] += 1
                want = match if num is None else (match[:num] if not reverse else match[len(match) - num:] if num <= len(match) else match)
                got = [d["raw_line"] for d in t.get(s, check=check, num=num, reverse=reverse)]
                if got != want:
                    fail(violation="get() does not return precisely the matching lines in original order", content=content, s=s, check=check.__name__,
                         num=num, reverse=reverse, got=got, want=want)
            if check is all and (s in t) != bool(match):
                fail(violation="__contains__ disagrees with the lines", content=content, s=s)


# ---------------------------------------------------------------- (4)
def run_after(cls, content, ts, s=None):
    return [d.get("raw_line", d.get("raw_message")) for d in cls(context_wrap("\n".join(content))).get_after(ts, s)]


class Dflt(LogFileOutput):
    pass


class NoYear(LogFileOutput):
    time_format = "%b %d %H:%M:%S"


class TwoDigitYear(LogFileOutput):
    time_format = "%y%m%d %H:%M:%S"


class Multi(LogFileOutput):
    time_format = ["%Y-%m-%d %H:%M:%S", "%d/%b/%Y:%H:%M:%S"]


STAMPS = [datetime.datetime(2023, 8, 15, 10, 0, 0), datetime.datetime(2023, 12, 30, 10, 0, 0), datetime.datetime(2023, 12, 31, 23, 59, 59), datetime.datetime(2024, 1, 1, 0, 0, 1),
          datetime.datetime(2024, 1, 2, 12, 0, 0)]
REF = [datetime.datetime(2023, 12, 31, 0, 0, 0), datetime.datetime(2024, 1, 1, 0, 0, 1), datetime.datetime(2024, 1, 1, 12, 0, 0),
       datetime.datetime(2024, 6, 1, 0, 0, 0)]
for fmt_cls, render in ((Dflt, lambda d: d.strftime("%Y-%m-%d %H:%M:%S")), (NoYear, lambda d: d.strftime("%b %d %H:%M:%S")),
                        (Multi, lambda d: d.strftime("%d/%b/%Y:%H:%M:%S")), (TwoDigitYear, lambda d: d.strftime("%y%m%d %H:%M:%S"))):
    # a format without year is only meaningful inside the documented inference window (330 days): stamps and reference times near the boundary
    idxs = range(1, len(STAMPS)) if fmt_cls is NoYear else range(len(STAMPS))
    refs = REF[:3] if fmt_cls is NoYear else REF
    for order in itertools.permutations(idxs, 3):
        for cont in itertools.product((0, 1), repeat=3):
            content, meta = [], []       # meta: (stamp or None for a continuation line)
            for k, i in enumerate(order):
                content.append("%s host app: event %d" % (render(STAMPS[i]), i))
                meta.append(STAMPS[i])
                if cont[k]:
                    content.append("    continuation of %d" % i)
                    meta.append(None)
            for ref in refs:
                count["after"] += 1
                want, inc = [], False
                for line, st in zip(content, meta):
                    if st is not None:
                        inc = st >= ref
                    if inc:
                        want.append(line)
                got = run_after(fmt_cls, content, ref)
                if got != want:
                    fail(violation="get_after does not return precisely the lines at or after the time plus their continuation lines",
                         parser=fmt_cls.__name__, content=content, timestamp=str(ref), got=got, want=want)
print(json.dumps(dict(ok=True, level=level, **count)))
