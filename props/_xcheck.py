"""Native cross-check of contracts against CPython (bounded/native_crosscheck.py), shared by the property modules."""
import json, os, subprocess

HERE = os.path.dirname(os.path.dirname(os.path.abspath(__file__)))


def xcheck(check, sidecars, area):
    os.makedirs(os.path.join(HERE, "replays"), exist_ok=True)
    cj = os.path.join(HERE, "replays", "_contracts_%s_%s.json" % (check.pid, area))
    d = subprocess.run(["python3-vt", os.path.join(HERE, "tools", "dump_contracts.py"), ",".join(sidecars), cj],
                       stdout=subprocess.PIPE, stderr=subprocess.PIPE, universal_newlines=True, timeout=600)
    if d.returncode != 0:
        return dict(name="native cross-check of the contracts against CPython (%s)" % area, level="bounded", bound="-", result={"error": d.stderr[-300:]},
                    violation=False, error=True)
    cmd = ["/venv/bin/python", os.path.join(HERE, "bounded", "native_crosscheck.py"), check.repo.root, cj, area]
    p = subprocess.run(cmd, stdout=subprocess.PIPE, stderr=subprocess.PIPE, universal_newlines=True, timeout=3000)
    line = (p.stdout.strip().splitlines() or ["{}"])[-1]
    try:
        info = json.loads(line)
    except ValueError:
        info = {"error": (p.stderr or p.stdout)[-400:]}
    out = dict(name="native cross-check: the contract clauses the verifier discharges, evaluated by CPython on the real functions (%s)" % area,
               level="bounded", bound="generated small inputs (seeded by VERIF_SEED); clauses over uninterpreted functions / ghost results are skipped and counted",
               result=info, violation=(p.returncode == 1), error=(p.returncode not in (0, 1)))
    if p.returncode == 1:
        path = os.path.join(HERE, "replays", "%s-bounded-xcheck-%s.json" % (check.pid, area))
        json.dump(dict(obligation="bounded:native-crosscheck:%s" % info.get("function"), witness=info,
                       replay_cmd="python3-vt %s %s %s && %s" % (os.path.join(HERE, "tools", "dump_contracts.py"), ",".join(sidecars), cj, " ".join(cmd))),
                  open(path, "w"), indent=1)
        out["replay"] = path
    return out
