"""C17 - client identity and registration markers stay coherent over any history."""
from contracts.client_utilities import M

SIDECARS = ["client_utilities"]
UNITS = [(M, "write_to_disk"), (M, "delete_registered_file"), (M, "delete_unregistered_file"),
         (M, "write_registered_file"), (M, "write_unregistered_file"), (M, "machine_id_exists"), (M, "generate_machine_id")]
NOT_CARRIED = ["POSIX semantics of os.path.*, os.remove and open() are assumed contracts over a ghost file-system state (links one level deep)",
               "that the coherence invariant holds after ANY history is: established by either writer from any start state (postcondition) and "
               "preserved by the deleters (they only remove); induction over the history is the meta-step",
               "an identifier file containing only white-space ends in sys.exit (no identifier returned): outside the stability clause",
               "uuid4 freshness, RHSM identity look-up"]


def bounded(check):
    """bounded stand-in / native witness search: the real marker / identifier functions over every short history"""
    import json, os, subprocess
    h = 3 if check.tier == "quick" else 4
    here = os.path.dirname(os.path.dirname(os.path.abspath(__file__)))
    p = subprocess.run(["/venv/bin/python", os.path.join(here, "bounded", "client_markers_histories.py"), check.repo.root, str(h)],
                       stdout=subprocess.PIPE, stderr=subprocess.PIPE, universal_newlines=True, timeout=3000)
    line = (p.stdout.strip().splitlines() or ["{}"])[-1]
    try:
        info = json.loads(line)
    except ValueError:
        info = {"error": (p.stderr or p.stdout)[-400:]}
    out = dict(name="identifier canonical and stable, never rewritten by a read; markers never coexist; planted symlinks replaced, not followed",
               level="bounded",
               bound="every history of <= %d operations over 6 (read, forced regeneration, register, unregister, delete either marker) from 9 initial "
                     "states (the state 'configuration directory absent' is the listed known finding and is not explored)" % h,
               result=info, violation=(p.returncode == 1), error=(p.returncode not in (0, 1)))
    if p.returncode == 1:
        os.makedirs(os.path.join(here, "replays"), exist_ok=True)
        path = os.path.join(here, "replays", "C17-bounded.json")
        json.dump(dict(obligation="bounded:client-markers-histories", witness=info,
                       replay_cmd="/venv/bin/python %s %s %d" % (os.path.join(here, "bounded", "client_markers_histories.py"), check.repo.root, h)),
                  open(path, "w"), indent=1)
        out["replay"] = path
    return [out]
