"""C04 - evaluation results do not depend on scheduling (sub-graph partition; order / hash-seed independence)."""
from contracts.dr import M, TS

SIDECARS = ["dr"]
UNITS = [
    (M, "get_subgraphs"),
    (TS, "toposort"),
    (TS, "toposort_flatten"),
    (M, "run_order"),
    (M, "run_components"),
]
NOT_CARRIED = ["thread-pool dispatch of sub-graphs (run_all with a pool): no thread semantics in the encoding"]

# ---- C04-L1 (contracts only): the local outcome rule has a unique solution on a DAG - inductive step -------------
# out_*(c, inst): what process() does for component c given the broker's instances (a function: bodies are assumed
# deterministic; the per-override contracts are functional in body_value / ds_value / p_value).  LOC(c, inst, miss): the entry
# of c is what the local rule prescribes.  Step: two brokers that satisfy LOC at c and agree on everything c reads agree at c.
import collections
from contracts.dr import Comp, Val, MISSING
from pyvc.dsl import Map, Opt, Set, BOOL, EXC

_INST = Map(Comp, Opt(Val))
_MISS = Map(Comp, MISSING)


def _loc(i, m):
    same0 = "((c in {m}) == (c in m0) and implies(c in m0, {m}[c] == m0[c]))"
    return ("(implies(c in seeds, c in {i} and {i}[c] == seeds[c] and " + same0 + ") and "
            " implies(c not in seeds and not uf('runnable', BOOL, c), c not in {i} and " + same0 + ") and "
            " implies(c not in seeds and uf('runnable', BOOL, c) and not uf('out_raises', BOOL, c, {i}), "
            "         c in {i} and {i}[c] == uf('out_value', Opt(Val), c, {i}) and " + same0 + ") and "
            " implies(c not in seeds and uf('runnable', BOOL, c) and uf('out_raises', BOOL, c, {i}), c not in {i} and "
            "         implies(isinstance_exc(uf('out_exc', EXC, c, {i}), MissingRequirements), c in {m} and {m}[c] == uf('out_exc', EXC, c, {i}).requirements) and "
            "         implies(not isinstance_exc(uf('out_exc', EXC, c, {i}), MissingRequirements), " + same0 + ")))").format(i=i, m=m)


LEMMAS = [dict(
    name="C04-L1-step",
    module=M,
    decls=collections.OrderedDict(c=Comp, seeds=_INST, i1=_INST, i2=_INST, m1=_MISS, m2=_MISS, m0=_MISS, reads=Set(Comp)),
    hyps=[
        _loc("i1", "m1"), _loc("i2", "m2"),
        # induction hypothesis: the two brokers agree on everything c reads (its dependencies and ignored contexts:
        # all seeds or of lower level)
        "forall(d, reads, (d in i1) == (d in i2) and implies(d in i1, i1[d] == i2[d]))",
        # locality of the outcome function (instance for i1, i2): it reads the broker only at `reads`
        "implies(forall(d, reads, (d in i1) == (d in i2) and implies(d in i1, i1[d] == i2[d])), "
        "        uf('out_raises', BOOL, c, i1) == uf('out_raises', BOOL, c, i2) and "
        "        uf('out_value', Opt(Val), c, i1) == uf('out_value', Opt(Val), c, i2) and "
        "        uf('out_exc', EXC, c, i1) == uf('out_exc', EXC, c, i2))",
    ],
    goals=["(c in i1) == (c in i2)", "implies(c in i1, i1[c] == i2[c])",
           "(c in m1) == (c in m2)", "implies(c in m1, m1[c] == m2[c])"])]
NOT_CARRIED += ["that run_components establishes the local rule LOC for every processed component is not an obligation yet: "
                "the lemma C04-L1-step is the inductive step over the level function only (induction on levels is the meta-step)",
                "determinism and locality of process() are hypotheses of the lemma (bodies are assumed deterministic)"]
