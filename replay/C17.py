"""Native replay for C17 obligations (run under /venv/bin/python with cwd = the repository).
exit 1: the failing behaviour reproduces on the real code; exit 0: it does not."""
import argparse, os, sys, tempfile, shutil
sys.path.insert(0, os.getcwd())
ap = argparse.ArgumentParser(); ap.add_argument("--obligation", default=""); ap.add_argument("--model", default="{}")
a = ap.parse_args()
from insights.client import utilities
if a.obligation.endswith("generate_machine_id/post:E3") or a.obligation.endswith("generate_machine_id/post:E0") or a.obligation.endswith("generate_machine_id/post:E1"):
    # stability / no-rewrite clauses with the directory present: read, forced regeneration, read
    tmp = tempfile.mkdtemp(prefix="c17_", dir="/var/tmp" if os.path.isdir("/var/tmp") else None)
    try:
        dest = os.path.join(tmp, "machine-id")
        utilities._get_rhsm_identity = lambda: None
        bad = []
        id1 = utilities.generate_machine_id(destination_file=dest)
        if utilities.generate_machine_id(destination_file=dest) != id1:
            bad.append("two plain reads differ")
        id2 = utilities.generate_machine_id(new=True, destination_file=dest)
        id3 = utilities.generate_machine_id(destination_file=dest)
        if id3 != id2:
            bad.append("after a forced regeneration returning %s the next read returns %s" % (id2, id3))
        if open(dest).read().strip() != id3:
            bad.append("file holds %r, returned %r" % (open(dest).read(), id3))
        print("; ".join(bad) or "stable")
        sys.exit(1 if bad else 0)
    finally:
        shutil.rmtree(tmp, ignore_errors=True)
if a.obligation.endswith("generate_machine_id/post:E3[kf]"):
    # stability clause with the parent directory of the identifier file absent
    tmp = tempfile.mkdtemp(prefix="c17_", dir="/var/tmp" if os.path.isdir("/var/tmp") else None)
    try:
        dest = os.path.join(tmp, "nonexistent_dir", "machine-id")
        utilities._get_rhsm_identity = lambda: None
        first = utilities.generate_machine_id(destination_file=dest)
        second = utilities.generate_machine_id(destination_file=dest)
        print("parent directory absent: first read", first, "second read", second, "file exists:", os.path.exists(dest))
        sys.exit(1 if first != second else 0)
    finally:
        shutil.rmtree(tmp, ignore_errors=True)
print("no native scenario for", a.obligation)
sys.exit(0)
