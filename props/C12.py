"""C12 - every evaluated rule yields exactly one well-formed, accounted outcome."""
from contracts.dr import M as DR
from contracts.plugins import P
from contracts.responses import EV

F = "insights/formats/__init__.py"
GROUPS = [
    dict(name="responses", sidecars=["dr", "responses"], units=[
        (P, "Response.validate_kwargs"), (P, "Response.validate_key"), (P, "Response.adjust_for_length"),
        (P, "Response._log_length_error"), (P, "Response.get_key"), (P, "Response.__init__"),
        (P, "make_metadata_key.adjust_for_length"), (P, "make_metadata_key.__init__"), (P, "make_metadata.__init__"),
        (P, "_make_skip.__init__"), (P, "make_none.__init__"),
        (EV, "Evaluator.format_result"), (EV, "SingleEvaluator.append_metadata"), (EV, "SingleEvaluator.handle_result"),
        (EV, "Evaluator.observer"), (F, "get_response_of_types"),
    ], refinements=[
        ((P, "Response.adjust_for_length"), ("Resp", "adjust_for_length")),
        ((P, "make_metadata_key.adjust_for_length"), ("Resp", "adjust_for_length")),
        ((EV, "SingleEvaluator.handle_result"), ("Evaluator", "handle_result")),
    ]),
    dict(name="rule", sidecars=["dr", "plugins"], units=[(P, "rule.process"), (DR, "run_components"), (DR, "ComponentType.__init__@tags")],
         refinements=[((P, "rule.process"), ("Delegate", "process"))]),
]
NOT_CARRIED = ["len(str(kwargs)) is an uninterpreted integer (the rendered size of the keyword arguments)",
               "tags / links of the reported entry are read through get_tags / get_delegate (assumed accessors); of ComponentType.__init__ only the "
               "window that collects a component's tags is under contract (class defaults + declared tags, class default list not modified)",
               "the output formatters other than get_response_of_types"]


def _bounded0(check):
    """bounded stand-in / native witness search: real rules of every kind through the real SingleEvaluator and JsonFormat"""
    import json, os, subprocess
    k = 2 if check.tier == "quick" else 3
    here = os.path.dirname(os.path.dirname(os.path.abspath(__file__)))
    p = subprocess.run(["/venv/bin/python", os.path.join(here, "bounded", "rules_small_scope.py"), check.repo.root, str(k)],
                       stdout=subprocess.PIPE, stderr=subprocess.PIPE, universal_newlines=True, timeout=3000)
    line = (p.stdout.strip().splitlines() or ["{}"])[-1]
    try:
        info = json.loads(line)
    except ValueError:
        info = {"error": (p.stderr or p.stdout)[-400:]}
    out = dict(name="every kind of rule ending is accounted exactly as the property says (SingleEvaluator, JsonFormat)", level="bounded",
               bound="18 rule kinds (6 typed responses, missing dependency, crash, 4 non-responses, missing / int key, reserved argument, deliberate skip, "
                     "disabled, oversized), every subset of <= %d evaluated together" % k,
               result=info, violation=(p.returncode == 1), error=(p.returncode not in (0, 1)))
    if p.returncode == 1:
        os.makedirs(os.path.join(here, "replays"), exist_ok=True)
        path = os.path.join(here, "replays", "C12-bounded.json")
        json.dump(dict(obligation="bounded:rules-small-scope", witness=info,
                       replay_cmd="/venv/bin/python %s %s %d" % (os.path.join(here, "bounded", "rules_small_scope.py"), check.repo.root, k)),
                  open(path, "w"), indent=1)
        out["replay"] = path
    return [out]


def bounded(check):
    from props._xcheck import xcheck
    return list(_bounded0(check)) + [xcheck(check, ["dr", "responses"], "responses")]
